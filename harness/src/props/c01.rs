//! C01 (definite answers match the logical meaning) and C02 (closed goals are
//! decided definitively, all configurations).

use super::*;
use crate::drive::{Caught, DSol, SolverCfg};
use crate::oracle::AnswerCheck;
use crate::refsem::Tri;
use crate::report::Violation;
use std::collections::BTreeMap;

pub fn ref_depth(thorough: bool) -> usize {
    if thorough {
        4
    } else {
        3
    }
}

pub fn run_c01(rep: &Report) -> i32 {
    let thorough = rep.is_thorough();
    let corpora = core_corpora(thorough, 0);
    let depth = ref_depth(thorough);
    let cfgs = [SolverCfg::SLG, SolverCfg::REC];
    for_each_program(rep, &corpora, |pc, goals| {
        let mut local: BTreeMap<String, u64> = BTreeMap::new();
        for g in goals {
            *local.entry("cases".into()).or_insert(0) += 1;
            let mut nontrivial = false;
            for cfg in cfgs {
                let (r, t) = drive::solve_fresh(&pc.chalk, &g.peeled, cfg);
                *local.entry("solver_calls".into()).or_insert(0) += 1;
                if r.is_ok() {
                    rep.max("max_ticks_of_a_returning_call", t);
                }
                let sol = match r {
                    Caught::Ok(s) => s,
                    Caught::Panic(..) | Caught::Budget | Caught::Injected => {
                        *local.entry("panics_or_budget(judged by C09)".into()).or_insert(0) += 1;
                        continue;
                    }
                };
                *local.entry(format!("answers_{}", sol.tag())).or_insert(0) += 1;
                let ac = AnswerCheck {
                    refm: &pc.refm,
                    pa: &g.pa,
                    peeled: &g.peeled,
                    depth,
                    solver: cfg.short(),
                    class: pc.class,
                };
                let (issues, info) = ac.check(&sol);
                *local.entry("ref_witness_tuples".into()).or_insert(0) += info.tuples as u64;
                if info.true_witnesses > 0
                    || info.closed_value.map(|v| v.definite()).unwrap_or(false)
                {
                    nontrivial = true;
                }
                for is in issues {
                    rep.violation(Violation {
                        property: "C01".into(),
                        kind: is.kind.clone(),
                        site: is.site.clone(),
                        what: format!(
                            "{} answers {} for `{}` :: {}",
                            cfg.name(),
                            sol.tag(),
                            g.text,
                            is.detail
                        ),
                        input: pc.input(g, &cfg.name()),
                    });
                }
                if pc.pi % 997 == 0 && g.gi % 7 == 0 && cfg.is_slg() {
                    rep.sample(json!({"program": pc.text, "goal": g.text, "slg_answer": format!("{:?}", sol),
                        "ref_true_witnesses": info.true_witnesses, "ref_closed_value": format!("{:?}", info.closed_value)}));
                }
            }
            if nontrivial {
                *local.entry("nontrivial_cases".into()).or_insert(0) += 1;
            }
        }
        rep.merge_counts(&local);
    });
    vacuity(rep, &["answers_Unique", "answers_None", "answers_Ambig(Definite)"]);
    let cases = rep.get("cases");
    let calls = rep.get("solver_calls");
    let nt = rep.get("nontrivial_cases");
    rep.finish(
        cases,
        calls,
        nt,
        "every program of fragments F0/F0co/F1a/F1aco/F1b up to the tier's weight (modulo trait/struct renaming) x every goal of the goal set x {SLG default, recursive default}, each on a fresh solver; a case (program, goal) is non-trivial when REF has a definite verdict for it (closed goal decided, or at least one definitely-true witness)",
        true,
        &[
            "REF (harness/src/refsem.rs) is the logical meaning: lfp for ordinary traits, gfp for #[coinductive], three-valued under caps",
            "witnesses for exists range over ground types of bounded depth; only concrete counter-witnesses alarm",
        ],
    )
}

/// A check whose outcome histogram misses one of the expected buckets explored nothing interesting.
pub fn vacuity(rep: &Report, keys: &[&str]) {
    for k in keys {
        if rep.get(k) == 0 {
            rep.machinery_error(format!("vacuity: counter `{}` is zero", k));
        }
    }
}

pub fn run_c02(rep: &Report) -> i32 {
    let thorough = rep.is_thorough();
    let corpora = core_corpora(thorough, 0);
    let depth = ref_depth(thorough);
    let cfgs = SolverCfg::all_configs();
    for_each_program(rep, &corpora, |pc, goals| {
        let mut local: BTreeMap<String, u64> = BTreeMap::new();
        for g in goals {
            if !g.peeled.var_creation.is_empty() || !g.goal.exists_free() {
                continue;
            }
            *local.entry("cases".into()).or_insert(0) += 1;
            // REF value and limits
            let mut st = crate::refsem::Stats::default();
            let v = pc
                .refm
                .eval(&g.pa.body, &g.pa.hyps, &g.pa.skolems, depth, &mut st);
            if v.definite() {
                *local.entry("nontrivial_cases".into()).or_insert(0) += 1;
            }
            for cfg in &cfgs {
                let (r, _t) = drive::solve_fresh(&pc.chalk, &g.peeled, *cfg);
                *local.entry("solver_calls".into()).or_insert(0) += 1;
                let (overflow, max_size) = match cfg {
                    SolverCfg::Slg { max_size } => (usize::MAX, *max_size),
                    SolverCfg::Rec {
                        overflow, max_size, ..
                    } => (*overflow, *max_size),
                };
                // hypotheses live in the environment of every subgoal and count too
                let hyp_size = g.pa.hyps.iter().map(|h| h.max_ty_size()).max().unwrap_or(0);
                let in_scope = v.definite()
                    && !st.capped
                    && st.max_ty_size.max(hyp_size) <= max_size
                    && 2 * st.max_nodes + 2 < overflow;
                if in_scope {
                    *local.entry("in_scope_calls".into()).or_insert(0) += 1;
                }
                let sol = match r {
                    Caught::Ok(s) => s,
                    Caught::Panic(loc, msg) => {
                        if in_scope {
                            rep.violation(Violation {
                                property: "C02".into(),
                                kind: "panic-on-closed-goal".into(),
                                site: crate::report::panic_site(&loc, &msg),
                                what: format!("{} panics at {} ({}) on `{}`", cfg.name(), loc, msg, g.text),
                                input: pc.input(g, &cfg.name()),
                            });
                        }
                        continue;
                    }
                    _ => continue,
                };
                *local.entry(format!("answers_{}", sol.tag())).or_insert(0) += 1;
                let (kind, bad) = match (&sol, v) {
                    (DSol::NoSolution, Tri::True) => ("none-but-goal-true", true),
                    (DSol::Unique(_), Tri::False) => ("unique-but-goal-false", true),
                    (s, _) if s.is_ambig() && in_scope => ("ambiguous-on-closed-goal", true),
                    _ => ("", false),
                };
                if bad {
                    rep.violation(Violation {
                        property: "C02".into(),
                        kind: kind.into(),
                        site: format!("{}/closed/{}/{}{}", cfg.short(), pc.class, if g.pa.hyps.is_empty() { "" } else { "hyp-" }, goal_shape(&g.pa.body)),
                        what: format!(
                            "{} answers {} for closed goal `{}`; REF says {:?} (max type size {}, graph nodes {})",
                            cfg.name(), sol.tag(), g.text, v, st.max_ty_size, st.max_nodes
                        ),
                        input: pc.input(g, &cfg.name()),
                    });
                }
                if pc.pi % 1499 == 0 && g.gi % 5 == 0 {
                    rep.sample(json!({"program": pc.text, "goal": g.text, "solver": cfg.name(),
                        "answer": sol.tag(), "ref": format!("{:?}", v), "in_scope": in_scope}));
                }
            }
        }
        rep.merge_counts(&local);
    });
    vacuity(rep, &["answers_Unique", "answers_None", "in_scope_calls"]);
    let cases = rep.get("cases");
    let calls = rep.get("solver_calls");
    let nt = rep.get("nontrivial_cases");
    rep.finish(
        cases,
        calls,
        nt,
        "every program of the C01 fragments x every closed goal of the goal set (atoms over concrete types, forall, if, conjunction, not) x 7 solver configurations (SLG max_size 10/4/3; recursive default, cache off, max_size 4, overflow 10), fresh solver each; non-trivial = REF decides the goal definitely",
        true,
        &[
            "a case is in scope of 'never Ambiguous' only when REF's dependency graph is uncapped, its largest type fits max_size and twice its node count stays below the overflow depth",
        ],
    )
}
