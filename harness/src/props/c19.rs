//! C19: coherence checking is total and its accepted priorities are consistent.

use super::*;
use crate::drive::{guarded, Caught};
use crate::gen::{a, at, b, s, x};
use crate::refsem::{Ref, Tri};
use crate::report::{panic_site, Violation};
use chalk_integration::interner::ChalkIr;
use chalk_integration::SolverChoice;
use chalk_solve::coherence::CoherenceSolver;
use rayon::prelude::*;
use std::collections::BTreeMap;

#[derive(Clone, Debug)]
struct FooImpl {
    head: Ty,
    nvars: u32,
    wc: bool,
    positive: bool,
}

impl FooImpl {
    fn text(&self) -> String {
        format!(
            "impl{} {}Foo for {}{} {{}}",
            if self.nvars > 0 { "<X0>" } else { "" },
            if self.positive { "" } else { "!" },
            ty_str(&self.head),
            if self.wc { " where X0: Bar" } else { "" }
        )
    }
}

fn shapes(thorough: bool) -> Vec<FooImpl> {
    let mut v = vec![];
    let heads: Vec<(Ty, u32)> =
        vec![(x(0), 1), (s(x(0)), 1), (s(a()), 0), (s(s(x(0))), 1), (s(s(a())), 0), (a(), 0), (b(), 0)];
    for (h, nv) in heads {
        for wc in [false, true] {
            if wc && nv == 0 {
                continue;
            }
            for positive in [true, false] {
                if !positive && !thorough && (wc || matches!(h, Ty::App(ref n, ref args) if n == "S" && !args.is_empty() && args[0].depth() > 1)) {
                    continue;
                }
                v.push(FooImpl { head: h.clone(), nvars: nv, wc, positive });
            }
        }
    }
    v
}

pub fn run_c19(rep: &Report) -> i32 {
    let thorough = rep.is_thorough();
    let shapes = shapes(thorough);
    let max_impls = if thorough { 4 } else { 3 };
    // all multisets (identical impls allowed) of 1..max_impls shapes
    let mut sets: Vec<Vec<usize>> = vec![];
    fn rec(n: usize, start: usize, max: usize, cur: &mut Vec<usize>, out: &mut Vec<Vec<usize>>) {
        if !cur.is_empty() {
            out.push(cur.clone());
        }
        if cur.len() == max {
            return;
        }
        for i in start..n {
            cur.push(i);
            rec(n, i, max, cur, out);
            cur.pop();
        }
    }
    rec(shapes.len(), 0, max_impls, &mut vec![], &mut sets);
    if thorough {
        // 4-impl programs: keep those with at most one negative impl to bound the run
        sets.retain(|s| s.len() < 4 || s.iter().filter(|i| !shapes[**i].positive).count() <= 1);
    }
    // declaration-order family: the priorities are computed by a walk over the specialization
    // forest that starts from the impls in declaration order, so every ORDER of every 3..5-subset of
    // the five-impl specialization lattice T > S<T> > {S<A>, S<S<T>>} > S<S<A>> is a program too
    {
        let lattice: Vec<usize> = shapes
            .iter()
            .enumerate()
            .filter(|(_, f)| f.positive && !f.wc && f.head != a() && f.head != b())
            .map(|(i, _)| i)
            .collect();
        fn perms(pool: &[usize], k: usize, cur: &mut Vec<usize>, out: &mut Vec<Vec<usize>>) {
            if cur.len() == k {
                out.push(cur.clone());
                return;
            }
            for &p in pool {
                if !cur.contains(&p) {
                    cur.push(p);
                    perms(pool, k, cur, out);
                    cur.pop();
                }
            }
        }
        let mut ordered = vec![];
        for k in 3..=lattice.len().min(5) {
            perms(&lattice, k, &mut vec![], &mut ordered);
        }
        // the ascending orders of size <= max_impls are multisets already
        ordered.retain(|o| !(o.len() <= max_impls && o.windows(2).all(|w| w[0] < w[1])));
        rep.note("declaration_order_family", json!(ordered.len()));
        sets.extend(ordered);
    }
    let bar_opts: Vec<(&str, Vec<Rule>)> = vec![
        ("", vec![]),
        ("impl Bar for A {}", vec![Rule { nvars: 0, head: at(a(), "Bar"), body: vec![] }]),
        (
            "impl Bar for A {} impl<X0> Bar for S<X0> {}",
            vec![Rule { nvars: 0, head: at(a(), "Bar"), body: vec![] }, Rule { nvars: 1, head: at(s(x(0)), "Bar"), body: vec![] }],
        ),
    ];
    rep.note("impl_shapes", json!(shapes.len()));
    rep.note("impl_multisets", json!(sets.len()));
    let jobs: Vec<(usize, usize, bool)> = (0..sets.len())
        .flat_map(|si| (0..bar_opts.len()).flat_map(move |bi| [false, true].into_iter().map(move |m| (si, bi, m))))
        .collect();
    jobs.par_iter().for_each(|&(si, bi, marker)| {
        let set = &sets[si];
        if marker && set.len() < 2 {
            return;
        }
        let impls: Vec<&FooImpl> = set.iter().map(|i| &shapes[*i]).collect();
        let text = format!(
            "struct A {{}} struct B {{}} struct S<T> {{}} {}trait Foo {{}} trait Bar {{}} {} {}",
            if marker { "#[marker] " } else { "" },
            impls.iter().map(|i| i.text()).collect::<Vec<_>>().join(" "),
            bar_opts[bi].0
        );
        let program = match drive::load_program(&text) {
            Ok(p) => p,
            Err(e) => {
                rep.machinery_error(format!("c19 program does not lower: {} :: {}", e, text));
                return;
            }
        };
        rep.count("programs", 1);
        let foo = *program.trait_ids.iter().find(|(k, _)| k.to_string() == "Foo").unwrap().1;
        // Foo impl ids in declaration order
        let impl_ids: Vec<_> = program
            .impl_data
            .iter()
            .filter(|(_, d)| d.trait_id() == foo)
            .map(|(id, _)| *id)
            .collect();
        // REF: applicable sets over ground types of depth <= 3
        let mut rules = bar_opts[bi].1.clone();
        for i in &impls {
            if i.positive {
                rules.push(Rule { nvars: i.nvars, head: at(i.head.clone(), "Foo"), body: if i.wc { vec![at(x(0), "Bar")] } else { vec![] } });
            }
        }
        let refm = Ref::new(rules, vec![], vec![("A".into(), 0), ("B".into(), 0), ("S".into(), 1)]);
        let universe = refm.universe(if thorough { 4 } else { 3 }, &[]);
        let applies: Vec<Vec<bool>> = impls
            .iter()
            .map(|i| {
                universe
                    .iter()
                    .map(|t| {
                        let mut sub = BTreeMap::new();
                        i.head.match_into(t, &mut sub)
                            && (!i.wc || refm.prove(&[], &at(sub.get(&0).cloned().unwrap_or(a()), "Bar")).0 == Tri::True)
                    })
                    .collect()
            })
            .collect();
        for choice in [SolverChoice::slg_default(), SolverChoice::recursive_default()] {
            let sname = if matches!(choice, SolverChoice::SLG { .. }) { "slg" } else { "recursive" };
            let input = || json!({"program": text, "solver": sname});
            let r = guarded(|| {
                let builder = || choice.into_solver();
                let cs: CoherenceSolver<ChalkIr> = CoherenceSolver::new(&*program, &builder, foo);
                cs.specialization_priorities()
            });
            rep.count("coherence_checks", 1);
            let pri = match r {
                Caught::Ok(Ok(p)) => p,
                Caught::Ok(Err(_)) => {
                    rep.count("rejected", 1);
                    continue;
                }
                Caught::Panic(loc, msg) => {
                    rep.violation(Violation {
                        property: "C19".into(),
                        kind: "panic".into(),
                        site: panic_site(&loc, &msg),
                        what: format!("coherence check ({}) panics at {}: {} :: {}", sname, loc, msg, impls.iter().map(|i| i.text()).collect::<Vec<_>>().join(" ")),
                        input: input(),
                    });
                    continue;
                }
                _ => continue,
            };
            rep.count("accepted", 1);
            if marker {
                rep.count("accepted_marker(only totality judged)", 1);
                continue;
            }
            // priorities (impls without any specialization relation have no entry: default)
            let prio: Vec<usize> = impl_ids
                .iter()
                .map(|id| match guarded(|| pri.priority(*id)) {
                    Caught::Ok(p) => {
                        let s = format!("{:?}", p);
                        s.trim_start_matches("SpecializationPriority(").trim_end_matches(')').parse().unwrap_or(0)
                    }
                    _ => 0,
                })
                .collect();
            let mut nontrivial = false;
            for i in 0..impls.len() {
                for j in (i + 1)..impls.len() {
                    if !impls[i].positive && !impls[j].positive {
                        continue;
                    }
                    let inter = (0..universe.len()).find(|&k| applies[i][k] && applies[j][k]);
                    let i_sub_j = (0..universe.len()).all(|k| !applies[i][k] || applies[j][k]);
                    let j_sub_i = (0..universe.len()).all(|k| !applies[j][k] || applies[i][k]);
                    if let Some(k) = inter {
                        nontrivial = true;
                        if prio[i] == prio[j] {
                            rep.violation(Violation {
                                property: "C19".into(),
                                kind: "equal-priority-impls-overlap".into(),
                                site: format!("{}/{}", sname, if impls[i].positive && impls[j].positive { "pos-pos" } else { "pos-neg" }),
                                what: format!(
                                    "accepted ({}) with equal priority {}: `{}` and `{}` both apply to `{}: Foo`",
                                    sname, prio[i], impls[i].text(), impls[j].text(), ty_str(&universe[k])
                                ),
                                input: input(),
                            });
                        }
                        if i_sub_j && !j_sub_i && prio[i] <= prio[j] {
                            rep.violation(Violation {
                                property: "C19".into(),
                                kind: "more-specific-impl-without-higher-priority".into(),
                                site: sname.into(),
                                what: format!("accepted ({}): `{}` (priority {}) applies to a strict subset of `{}` (priority {})", sname, impls[i].text(), prio[i], impls[j].text(), prio[j]),
                                input: input(),
                            });
                        }
                        if j_sub_i && !i_sub_j && prio[j] <= prio[i] {
                            rep.violation(Violation {
                                property: "C19".into(),
                                kind: "more-specific-impl-without-higher-priority".into(),
                                site: sname.into(),
                                what: format!("accepted ({}): `{}` (priority {}) applies to a strict subset of `{}` (priority {})", sname, impls[j].text(), prio[j], impls[i].text(), prio[i]),
                                input: input(),
                            });
                        }
                    }
                }
            }
            if nontrivial {
                rep.count("accepted_with_specialization", 1);
            }
            if si % 97 == 0 && bi == 1 {
                rep.sample(json!({"program": text, "solver": sname, "priorities": prio}));
            }
        }
    });
    c01::vacuity(rep, &["accepted", "rejected", "accepted_with_specialization"]);
    let states = rep.get("programs");
    let tr = rep.get("coherence_checks");
    let nt = rep.get("accepted_with_specialization") + rep.get("rejected");
    rep.finish(
        states,
        tr,
        nt,
        "every multiset of up to 3 (thorough: 4) impls of one trait drawn from heads {T, S<T>, S<A>, S<S<T>>, S<S<A>>, A, B} (declared in a fixed order) plus every declaration order of every 3..5-subset of the specialization lattice T > S<T> > {S<A>, S<S<T>>} > S<S<A>>, x where-clause {none, T: Bar} x polarity (identical impls, blanket impls, chains and diamonds of specialization included) x 3 sets of Bar impls x {plain, #[marker]} x both solvers through CoherenceSolver::specialization_priorities; must never panic; when accepted (non-marker): impls of equal priority must have no common ground trait reference and an impl applying to a strict non-empty subset of another's references must have the higher priority (ground types of depth <= 3); non-trivial = rejected programs + accepted programs with overlapping impls",
        true,
        &["'applies to' = header matches and where-clauses are true by REF's lfp over the program's impls"],
    )
}
