//! C26: the flags stored with every type report exactly which kinds of
//! unknowns, placeholders, projections, opaque types, errors and lifetimes
//! occur anywhere inside the type.
//!
//! Technique: bounded-exhaustive enumeration of types in the module's own AST
//! (`K`/`Node`), smallest first.  REF computes, bottom-up over that AST only,
//! the set of *occurrence facts* (`O_*`: "a lifetime inference variable
//! occurs", "an alias projection occurs", ...) and derives the expected flags
//! from the facts by the plain reading of each flag's doc comment in
//! chalk-ir/src/lib.rs (`expect`).  The AST is then built as a real
//! `chalk_ir::Ty<ChalkIr>` (this runs `TyKind::compute_flags` through
//! `Interner::intern_ty`) and `ty.data(interner).flags`, masked to the covered
//! flags, is compared with the expectation.
//!
//! Covered flags: every single-bit flag of `TypeFlags` except
//! `STILL_FURTHER_SPECIALIZABLE` (masked out: its doc comment and the pinned
//! tests disagree).  The two composite masks (`HAS_FREE_LOCAL_NAMES`,
//! `HAS_PROJECTION`) are checked through `intersects` against predicates REF
//! computes directly from the facts.
//!
//! Don't-care (flag, construct) pairs -- the doc comment is genuinely
//! ambiguous, so either value is accepted (three-valued expectation
//! `must`/`may`; a flag that some *other* construct in the same type makes
//! mandatory is still mandatory):
//!   1. (HAS_TY_PROJECTION, `TyKind::AssociatedType`): "a projection of an
//!      associated type" -- the applicative (placeholder) associated type is
//!      an associated type but arguably not a *projection* (`ProjectionTy`).
//!   2. (HAS_TY_OPAQUE, `TyKind::OpaqueType`): "an opaque type" -- the variant
//!      is documented as "a placeholder for opaque types", `AliasTy::Opaque`
//!      is the opaque type proper.
//!   3. (HAS_FREE_REGIONS, `'erased` / error lifetime): "any free lifetimes"
//!      -- neither is bound, but neither names a region either.
//!   4. (HAS_ERROR, error lifetime): "contain an error" -- there is a separate
//!      HAS_RE_ERROR ("an error lifetime"), so it is unclear whether the
//!      general flag includes it.
//! Everything else is exact.  Conventions fixed by the pinned tests
//! (/repo/tests/test/type_flags.rs): `'static` is a free region (not local);
//! every bound-variable lifetime sets HAS_RE_LATE_BOUND; placeholder and
//! inference lifetimes are free *local* regions; a const's own type
//! contributes its flags; bound type/const variables have no flag.
//!
//! Space (see `run_c26` for the measured sizes):
//!   level 0: every nullary `TyKind` (all scalars, str, !, foreign, error,
//!            placeholders, bound variables, the three inference kinds);
//!   level 1: every constructor over every argument combination from the
//!            level-0 argument alphabet A0 = 8 atoms + 7 lifetimes + 4 const
//!            values x 8 atom const-types (substitutions of length 0..3, fn
//!            pointers with 0/1 binders, arrays, slices, raw pointers,
//!            references, `dyn` with 0..2 where clauses of all four kinds);
//!   level k>=2: every constructor with one designated *deep* argument -- any
//!            "core" type of level k-1 (all of them for k=2; for k=3, thorough
//!            only, one smallest representative per (variant, fact set) class
//!            of level 2), as a type argument or as the type of a const of
//!            every kind -- in every position, the other positions filled
//!            from a sibling alphabet (thorough level 2: all of A0; quick level 2
//!            and thorough level 3: a reduced one of 10 arguments).
//!   "core" = substitution length <= 2 and at most one `dyn` where clause.

use crate::report::{Report, Violation};
use chalk_integration::interner::{ChalkFnAbi, ChalkIr, RawId};
use chalk_ir as ir;
use chalk_ir::TypeFlags as F;
use rayon::prelude::*;
use rustc_hash::FxHashMap;
use serde_json::json;
use std::sync::{Arc, Mutex};

const I: ChalkIr = ChalkIr;

// ---------------------------------------------------------------- AST

/// Lifetimes: bound variable (debruijn, index), inference variable,
/// placeholder (universe, index), 'static, 'erased, error.
#[derive(Clone, Copy, Debug, PartialEq, Eq, Hash)]
enum L {
    Bound(u8, u8),
    Infer(u8),
    Ph(u8, u8),
    Static,
    Erased,
    Error,
}

/// Const values.
#[derive(Clone, Copy, Debug, PartialEq, Eq, Hash)]
enum CV {
    Bound(u8, u8),
    Infer(u8),
    Ph(u8, u8),
    Concrete(u32),
}

/// A const: its own type and its value.
#[derive(Clone)]
struct C {
    ty: N,
    v: CV,
}

/// Generic argument.
#[derive(Clone)]
enum A {
    T(N),
    L(L),
    C(C),
}

/// The substitution-carrying constructors.
#[derive(Clone, Copy, Debug, PartialEq, Eq, Hash)]
enum Sub {
    Adt,
    AssociatedType,
    Tuple,
    OpaqueType,
    FnDef,
    Closure,
    Coroutine,
    CoroutineWitness,
    AliasProjection,
    AliasOpaque,
}
const SUBS: [Sub; 10] = [
    Sub::Adt,
    Sub::AssociatedType,
    Sub::Tuple,
    Sub::OpaqueType,
    Sub::FnDef,
    Sub::Closure,
    Sub::Coroutine,
    Sub::CoroutineWitness,
    Sub::AliasProjection,
    Sub::AliasOpaque,
];

/// `dyn` where clauses (the self type is written explicitly as `^1.0`).
#[derive(Clone)]
enum W {
    Implemented(Vec<A>),
    /// (opaque alias?, alias substitution, type)
    AliasEq(bool, Vec<A>, N),
    LifetimeOutlives(L, L),
    TypeOutlives(N, L),
}

#[derive(Clone)]
enum K {
    App(Sub, Vec<A>),
    /// fn pointer: number of (lifetime) binders, signature variant, substitution
    Function(u8, u8, Vec<A>),
    Scalar(u8),
    Str,
    Never,
    Foreign(u8),
    Error,
    Placeholder(u8, u8),
    BoundVar(u8, u8),
    /// (variable index, 0 general / 1 integer / 2 float)
    InferenceVar(u8, u8),
    Array(N, C),
    Slice(N),
    Raw(bool, N),
    Ref(bool, L, N),
    Dyn(L, Vec<W>),
}

struct Node {
    k: K,
    /// REF: occurrence facts of this type (bottom-up union)
    occ: u32,
    depth: u8,
    /// the real chalk type built from `k`
    ty: ir::Ty<ChalkIr>,
    /// chalk's flags of `ty` agree with REF's expectation
    ok: bool,
    /// some proper sub-type already disagrees (root cause is reported there)
    child_tainted: bool,
}
type N = Arc<Node>;

// ---------------------------------------------------------------- REF: occurrence facts

const O_TY_INFER: u32 = 1 << 0;
const O_RE_INFER: u32 = 1 << 1;
const O_CT_INFER: u32 = 1 << 2;
const O_TY_PLACEHOLDER: u32 = 1 << 3;
const O_RE_PLACEHOLDER: u32 = 1 << 4;
const O_CT_PLACEHOLDER: u32 = 1 << 5;
const O_RE_STATIC: u32 = 1 << 6;
const O_RE_BOUND: u32 = 1 << 7;
const O_RE_ERASED: u32 = 1 << 8;
const O_RE_ERROR: u32 = 1 << 9;
const O_TY_ERROR: u32 = 1 << 10;
const O_ALIAS_PROJECTION: u32 = 1 << 11;
const O_ALIAS_OPAQUE: u32 = 1 << 12;
/// `TyKind::AssociatedType` (applicative / placeholder associated type)
const O_APP_ASSOC_TYPE: u32 = 1 << 13;
/// `TyKind::OpaqueType` (placeholder for an opaque type)
const O_APP_OPAQUE_TYPE: u32 = 1 << 14;
// facts without any flag (kept so that classes of representatives stay fine)
const O_TY_BOUND: u32 = 1 << 15;
const O_CT_BOUND: u32 = 1 << 16;
const O_CT_CONCRETE: u32 = 1 << 17;

fn occ_l(l: L) -> u32 {
    match l {
        L::Bound(..) => O_RE_BOUND,
        L::Infer(_) => O_RE_INFER,
        L::Ph(..) => O_RE_PLACEHOLDER,
        L::Static => O_RE_STATIC,
        L::Erased => O_RE_ERASED,
        L::Error => O_RE_ERROR,
    }
}

fn occ_cv(v: CV) -> u32 {
    match v {
        CV::Bound(..) => O_CT_BOUND,
        CV::Infer(_) => O_CT_INFER,
        CV::Ph(..) => O_CT_PLACEHOLDER,
        CV::Concrete(_) => O_CT_CONCRETE,
    }
}

/// Where inside a node a component sits (root-cause discriminator).
#[derive(Clone, Copy, Debug, PartialEq, Eq)]
#[repr(u8)]
enum Ctx {
    Own,
    Subst,
    FnSubst,
    ArrayElem,
    ArrayLen,
    Pointee,
    RefLifetime,
    DynLifetime,
    DynImplemented,
    DynAliasEq,
    DynLifetimeOutlives,
    DynTypeOutlives,
}
const NCTX: usize = 12;
const CTX_NAMES: [&str; NCTX] = [
    "own",
    "subst",
    "fn-subst",
    "array-element",
    "array-len",
    "pointee",
    "ref-lifetime",
    "dyn-lifetime",
    "dyn-implemented",
    "dyn-alias-eq",
    "dyn-lifetime-outlives",
    "dyn-type-outlives",
];

#[derive(Clone, Copy, Debug, PartialEq, Eq)]
#[repr(u8)]
enum Part {
    Own,
    TyArg,
    LtArg,
    CtValue,
    CtType,
    Ty,
    Lt,
    Alias,
}
const NPART: usize = 8;
const PART_NAMES: [&str; NPART] = ["own", "type-arg", "lifetime-arg", "const-value", "const-type", "type", "lifetime", "alias"];

fn args_components(ctx: Ctx, args: &[A], f: &mut impl FnMut(Ctx, Part, u32, Option<&N>)) {
    for a in args {
        match a {
            A::T(n) => f(ctx, Part::TyArg, n.occ, Some(n)),
            A::L(l) => f(ctx, Part::LtArg, occ_l(*l), None),
            A::C(c) => {
                f(ctx, Part::CtValue, occ_cv(c.v), None);
                // the const's own type is written inside the type, so what occurs in it occurs in the type
                f(ctx, Part::CtType, c.ty.occ, Some(&c.ty));
            }
        }
    }
}

/// Every direct component of a node with the facts it contributes.  The facts
/// of the node are the union (REF's bottom-up rule: "occurs anywhere inside").
fn for_each_component(k: &K, f: &mut impl FnMut(Ctx, Part, u32, Option<&N>)) {
    match k {
        K::App(s, args) => {
            let own = match s {
                Sub::AssociatedType => O_APP_ASSOC_TYPE,
                Sub::OpaqueType => O_APP_OPAQUE_TYPE,
                Sub::AliasProjection => O_ALIAS_PROJECTION,
                Sub::AliasOpaque => O_ALIAS_OPAQUE,
                _ => 0,
            };
            f(Ctx::Own, Part::Own, own, None);
            args_components(Ctx::Subst, args, f);
        }
        K::Function(_, _, args) => args_components(Ctx::FnSubst, args, f),
        K::Scalar(_) | K::Str | K::Never | K::Foreign(_) => f(Ctx::Own, Part::Own, 0, None),
        K::Error => f(Ctx::Own, Part::Own, O_TY_ERROR, None),
        K::Placeholder(..) => f(Ctx::Own, Part::Own, O_TY_PLACEHOLDER, None),
        K::BoundVar(..) => f(Ctx::Own, Part::Own, O_TY_BOUND, None),
        K::InferenceVar(..) => f(Ctx::Own, Part::Own, O_TY_INFER, None),
        K::Array(t, c) => {
            f(Ctx::ArrayElem, Part::Ty, t.occ, Some(t));
            f(Ctx::ArrayLen, Part::CtValue, occ_cv(c.v), None);
            f(Ctx::ArrayLen, Part::CtType, c.ty.occ, Some(&c.ty));
        }
        K::Slice(t) | K::Raw(_, t) => f(Ctx::Pointee, Part::Ty, t.occ, Some(t)),
        K::Ref(_, l, t) => {
            f(Ctx::RefLifetime, Part::Lt, occ_l(*l), None);
            f(Ctx::Pointee, Part::Ty, t.occ, Some(t));
        }
        K::Dyn(l, ws) => {
            f(Ctx::DynLifetime, Part::Lt, occ_l(*l), None);
            for w in ws {
                match w {
                    W::Implemented(args) => args_components(Ctx::DynImplemented, args, f),
                    W::AliasEq(opaque, args, t) => {
                        f(Ctx::DynAliasEq, Part::Alias, if *opaque { O_ALIAS_OPAQUE } else { O_ALIAS_PROJECTION }, None);
                        args_components(Ctx::DynAliasEq, args, f);
                        f(Ctx::DynAliasEq, Part::Ty, t.occ, Some(t));
                    }
                    W::LifetimeOutlives(a, b) => {
                        f(Ctx::DynLifetimeOutlives, Part::Lt, occ_l(*a), None);
                        f(Ctx::DynLifetimeOutlives, Part::Lt, occ_l(*b), None);
                    }
                    W::TypeOutlives(t, l) => {
                        f(Ctx::DynTypeOutlives, Part::Ty, t.occ, Some(t));
                        f(Ctx::DynTypeOutlives, Part::Lt, occ_l(*l), None);
                    }
                }
            }
        }
    }
}

// ---------------------------------------------------------------- REF: facts -> flags

/// The single-bit flags covered by the property (everything except
/// STILL_FURTHER_SPECIALIZABLE), with their names.
const FLAG_TABLE: [(&str, F); 15] = [
    ("HAS_TY_INFER", F::HAS_TY_INFER),
    ("HAS_RE_INFER", F::HAS_RE_INFER),
    ("HAS_CT_INFER", F::HAS_CT_INFER),
    ("HAS_TY_PLACEHOLDER", F::HAS_TY_PLACEHOLDER),
    ("HAS_RE_PLACEHOLDER", F::HAS_RE_PLACEHOLDER),
    ("HAS_CT_PLACEHOLDER", F::HAS_CT_PLACEHOLDER),
    ("HAS_FREE_LOCAL_REGIONS", F::HAS_FREE_LOCAL_REGIONS),
    ("HAS_TY_PROJECTION", F::HAS_TY_PROJECTION),
    ("HAS_TY_OPAQUE", F::HAS_TY_OPAQUE),
    ("HAS_CT_PROJECTION", F::HAS_CT_PROJECTION),
    ("HAS_ERROR", F::HAS_ERROR),
    ("HAS_RE_ERROR", F::HAS_RE_ERROR),
    ("HAS_FREE_REGIONS", F::HAS_FREE_REGIONS),
    ("HAS_RE_LATE_BOUND", F::HAS_RE_LATE_BOUND),
    ("HAS_RE_ERASED", F::HAS_RE_ERASED),
];

fn covered_mask() -> u16 {
    FLAG_TABLE.iter().fold(0, |m, (_, f)| m | f.bits())
}

fn names(bits: u16) -> Vec<&'static str> {
    FLAG_TABLE.iter().filter(|(_, f)| bits & f.bits() != 0).map(|(n, _)| *n).collect()
}

/// Three-valued expectation: `must` bits have to be set, bits outside
/// `must | may` have to be clear, `may` bits are don't-care.
#[derive(Clone, Copy, PartialEq, Eq)]
struct Exp {
    must: u16,
    may: u16,
    /// "contains free names local to a particular context"
    local_names: bool,
    /// "contains any form of projection": (must, may)
    projection: (bool, bool),
}

/// Plain reading of each flag's doc comment, as a function of what occurs.
fn expect(occ: u32) -> Exp {
    let has = |o: u32| occ & o != 0;
    let mut must = F::empty();
    let mut may = F::empty();
    // "Does the type contain an InferenceVar" (TyKind::InferenceVar)
    if has(O_TY_INFER) {
        must |= F::HAS_TY_INFER;
    }
    // "... a lifetime with an InferenceVar"
    if has(O_RE_INFER) {
        must |= F::HAS_RE_INFER;
    }
    // "... a ConstValue with an InferenceVar"
    if has(O_CT_INFER) {
        must |= F::HAS_CT_INFER;
    }
    // "... a Placeholder TyKind"
    if has(O_TY_PLACEHOLDER) {
        must |= F::HAS_TY_PLACEHOLDER;
    }
    // "... a lifetime with a Placeholder"
    if has(O_RE_PLACEHOLDER) {
        must |= F::HAS_RE_PLACEHOLDER;
    }
    // "... a ConstValue Placeholder"
    if has(O_CT_PLACEHOLDER) {
        must |= F::HAS_CT_PLACEHOLDER;
    }
    // "free lifetimes related to a local context": inference variables belong to
    // an inference context, placeholders to a universe; 'static is global;
    // 'erased / error / bound lifetimes are related to no context.
    if has(O_RE_INFER | O_RE_PLACEHOLDER) {
        must |= F::HAS_FREE_LOCAL_REGIONS;
    }
    // "a projection of an associated type"
    if has(O_ALIAS_PROJECTION) {
        must |= F::HAS_TY_PROJECTION;
    }
    if has(O_APP_ASSOC_TYPE) {
        may |= F::HAS_TY_PROJECTION; // don't-care 1
    }
    // "an opaque type"
    if has(O_ALIAS_OPAQUE) {
        must |= F::HAS_TY_OPAQUE;
    }
    if has(O_APP_OPAQUE_TYPE) {
        may |= F::HAS_TY_OPAQUE; // don't-care 2
    }
    // "an unevaluated const projection": chalk's IR has no such construct -> never
    // "Does the type contain an error"
    if has(O_TY_ERROR) {
        must |= F::HAS_ERROR;
    }
    if has(O_RE_ERROR) {
        may |= F::HAS_ERROR; // don't-care 4
        // "an error lifetime"
        must |= F::HAS_RE_ERROR;
    }
    // "any free lifetimes": inference, placeholder, 'static (pinned test)
    if has(O_RE_INFER | O_RE_PLACEHOLDER | O_RE_STATIC) {
        must |= F::HAS_FREE_REGIONS;
    }
    if has(O_RE_ERASED | O_RE_ERROR) {
        may |= F::HAS_FREE_REGIONS; // don't-care 3
    }
    // "lifetimes that will be substituted when function is called": bound-variable
    // lifetimes (pinned test: any bound lifetime, whatever binder it refers to)
    if has(O_RE_BOUND) {
        must |= F::HAS_RE_LATE_BOUND;
    }
    // "an erased lifetime"
    if has(O_RE_ERASED) {
        must |= F::HAS_RE_ERASED;
    }
    let may = may & !must;
    Exp {
        must: must.bits(),
        may: may.bits(),
        // inference variables and placeholders of every kind are the names local to a context
        local_names: has(O_TY_INFER | O_CT_INFER | O_RE_INFER | O_TY_PLACEHOLDER | O_CT_PLACEHOLDER | O_RE_PLACEHOLDER),
        projection: (has(O_ALIAS_PROJECTION | O_ALIAS_OPAQUE), has(O_APP_ASSOC_TYPE | O_APP_OPAQUE_TYPE)),
    }
}

/// Does chalk's flag word agree with the expectation? (covered bits + composite masks)
fn agrees(flags: F, e: &Exp) -> bool {
    let got = flags.bits() & covered_mask();
    if e.must & !got != 0 || got & !(e.must | e.may) != 0 {
        return false;
    }
    if flags.intersects(F::HAS_FREE_LOCAL_NAMES) != e.local_names {
        return false;
    }
    let p = flags.intersects(F::HAS_PROJECTION);
    if (e.projection.0 && !p) || (p && !e.projection.0 && !e.projection.1) {
        return false;
    }
    true
}

// ---------------------------------------------------------------- AST -> chalk

fn raw(i: u32) -> RawId {
    RawId { index: i }
}

fn bv(d: u8, i: u8) -> ir::BoundVar {
    ir::BoundVar::new(ir::DebruijnIndex::new(d as u32), i as usize)
}

fn phi(u: u8, i: u8) -> ir::PlaceholderIndex {
    ir::PlaceholderIndex { ui: ir::UniverseIndex { counter: u as usize }, idx: i as usize }
}

fn lower_l(l: L) -> ir::Lifetime<ChalkIr> {
    match l {
        L::Bound(d, i) => ir::LifetimeData::BoundVar(bv(d, i)),
        L::Infer(n) => ir::LifetimeData::InferenceVar(ir::InferenceVar::from(n as u32)),
        L::Ph(u, i) => ir::LifetimeData::Placeholder(phi(u, i)),
        L::Static => ir::LifetimeData::Static,
        L::Erased => ir::LifetimeData::Erased,
        L::Error => ir::LifetimeData::Error,
    }
    .intern(I)
}

fn lower_c(c: &C) -> ir::Const<ChalkIr> {
    let value = match c.v {
        CV::Bound(d, i) => ir::ConstValue::BoundVar(bv(d, i)),
        CV::Infer(n) => ir::ConstValue::InferenceVar(ir::InferenceVar::from(n as u32)),
        CV::Ph(u, i) => ir::ConstValue::Placeholder(phi(u, i)),
        CV::Concrete(n) => ir::ConstValue::Concrete(ir::ConcreteConst { interned: n }),
    };
    ir::ConstData { ty: c.ty.ty.clone(), value }.intern(I)
}

fn lower_a(a: &A) -> ir::GenericArg<ChalkIr> {
    match a {
        A::T(n) => ir::GenericArgData::Ty(n.ty.clone()),
        A::L(l) => ir::GenericArgData::Lifetime(lower_l(*l)),
        A::C(c) => ir::GenericArgData::Const(lower_c(c)),
    }
    .intern(I)
}

fn lower_subst(args: &[A]) -> ir::Substitution<ChalkIr> {
    ir::Substitution::from_iter(I, args.iter().map(lower_a))
}

const SCALARS: [ir::Scalar; 18] = [
    ir::Scalar::Bool,
    ir::Scalar::Char,
    ir::Scalar::Int(ir::IntTy::Isize),
    ir::Scalar::Int(ir::IntTy::I8),
    ir::Scalar::Int(ir::IntTy::I16),
    ir::Scalar::Int(ir::IntTy::I32),
    ir::Scalar::Int(ir::IntTy::I64),
    ir::Scalar::Int(ir::IntTy::I128),
    ir::Scalar::Uint(ir::UintTy::Usize),
    ir::Scalar::Uint(ir::UintTy::U8),
    ir::Scalar::Uint(ir::UintTy::U16),
    ir::Scalar::Uint(ir::UintTy::U32),
    ir::Scalar::Uint(ir::UintTy::U64),
    ir::Scalar::Uint(ir::UintTy::U128),
    ir::Scalar::Float(ir::FloatTy::F16),
    ir::Scalar::Float(ir::FloatTy::F32),
    ir::Scalar::Float(ir::FloatTy::F64),
    ir::Scalar::Float(ir::FloatTy::F128),
];

/// where-clause binders: one lifetime binder iff the clause mentions `'^0.0`
/// directly (as in `dyn for<'a> Fn(&'a u32)`), else none.
fn wc_binders(w: &W) -> usize {
    let l0 = |l: &L| *l == L::Bound(0, 0);
    let a0 = |args: &[A]| args.iter().any(|a| matches!(a, A::L(l) if l0(l)));
    let b = match w {
        W::Implemented(args) => a0(args),
        W::AliasEq(_, args, _) => a0(args),
        W::LifetimeOutlives(a, b) => l0(a) || l0(b),
        W::TypeOutlives(_, l) => l0(l),
    };
    b as usize
}

fn lower_w(w: &W) -> ir::QuantifiedWhereClause<ChalkIr> {
    let wc = match w {
        W::Implemented(args) => ir::WhereClause::Implemented(ir::TraitRef { trait_id: ir::TraitId(raw(0)), substitution: lower_subst(args) }),
        W::AliasEq(opaque, args, t) => {
            let alias = if *opaque {
                ir::AliasTy::Opaque(ir::OpaqueTy { opaque_ty_id: ir::OpaqueTyId(raw(0)), substitution: lower_subst(args) })
            } else {
                ir::AliasTy::Projection(ir::ProjectionTy { associated_ty_id: ir::AssocTypeId(raw(0)), substitution: lower_subst(args) })
            };
            ir::WhereClause::AliasEq(ir::AliasEq { alias, ty: t.ty.clone() })
        }
        W::LifetimeOutlives(a, b) => ir::WhereClause::LifetimeOutlives(ir::LifetimeOutlives { a: lower_l(*a), b: lower_l(*b) }),
        W::TypeOutlives(t, l) => ir::WhereClause::TypeOutlives(ir::TypeOutlives { ty: t.ty.clone(), lifetime: lower_l(*l) }),
    };
    let kinds = (0..wc_binders(w)).map(|_| ir::VariableKind::Lifetime);
    ir::Binders::new(ir::VariableKinds::from_iter(I, kinds), wc)
}

fn lower(k: &K) -> ir::Ty<ChalkIr> {
    let m = |b: bool| if b { ir::Mutability::Mut } else { ir::Mutability::Not };
    let kind: ir::TyKind<ChalkIr> = match k {
        K::App(s, args) => {
            let su = lower_subst(args);
            match s {
                Sub::Adt => ir::TyKind::Adt(ir::AdtId(raw(0)), su),
                Sub::AssociatedType => ir::TyKind::AssociatedType(ir::AssocTypeId(raw(0)), su),
                Sub::Tuple => ir::TyKind::Tuple(args.len(), su),
                Sub::OpaqueType => ir::TyKind::OpaqueType(ir::OpaqueTyId(raw(0)), su),
                Sub::FnDef => ir::TyKind::FnDef(ir::FnDefId(raw(0)), su),
                Sub::Closure => ir::TyKind::Closure(ir::ClosureId(raw(0)), su),
                Sub::Coroutine => ir::TyKind::Coroutine(ir::CoroutineId(raw(0)), su),
                Sub::CoroutineWitness => ir::TyKind::CoroutineWitness(ir::CoroutineId(raw(0)), su),
                Sub::AliasProjection => ir::TyKind::Alias(ir::AliasTy::Projection(ir::ProjectionTy { associated_ty_id: ir::AssocTypeId(raw(0)), substitution: su })),
                Sub::AliasOpaque => ir::TyKind::Alias(ir::AliasTy::Opaque(ir::OpaqueTy { opaque_ty_id: ir::OpaqueTyId(raw(0)), substitution: su })),
            }
        }
        K::Function(nb, sig, args) => ir::TyKind::Function(ir::FnPointer {
            num_binders: *nb as usize,
            sig: ir::FnSig {
                abi: if sig & 1 != 0 { ChalkFnAbi::C } else { ChalkFnAbi::Rust },
                safety: if sig & 2 != 0 { ir::Safety::Unsafe } else { ir::Safety::Safe },
                variadic: sig & 4 != 0,
            },
            substitution: ir::FnSubst(lower_subst(args)),
        }),
        K::Scalar(i) => ir::TyKind::Scalar(SCALARS[*i as usize]),
        K::Str => ir::TyKind::Str,
        K::Never => ir::TyKind::Never,
        K::Foreign(i) => ir::TyKind::Foreign(ir::ForeignDefId(raw(*i as u32))),
        K::Error => ir::TyKind::Error,
        K::Placeholder(u, i) => ir::TyKind::Placeholder(phi(*u, *i)),
        K::BoundVar(d, i) => ir::TyKind::BoundVar(bv(*d, *i)),
        K::InferenceVar(n, kind) => ir::TyKind::InferenceVar(
            ir::InferenceVar::from(*n as u32),
            match kind {
                0 => ir::TyVariableKind::General,
                1 => ir::TyVariableKind::Integer,
                _ => ir::TyVariableKind::Float,
            },
        ),
        K::Array(t, c) => ir::TyKind::Array(t.ty.clone(), lower_c(c)),
        K::Slice(t) => ir::TyKind::Slice(t.ty.clone()),
        K::Raw(mu, t) => ir::TyKind::Raw(m(*mu), t.ty.clone()),
        K::Ref(mu, l, t) => ir::TyKind::Ref(m(*mu), lower_l(*l), t.ty.clone()),
        K::Dyn(l, ws) => ir::TyKind::Dyn(ir::DynTy {
            bounds: ir::Binders::new(
                ir::VariableKinds::from1(I, ir::VariableKind::Ty(ir::TyVariableKind::General)),
                ir::QuantifiedWhereClauses::from_iter(I, ws.iter().map(lower_w)),
            ),
            lifetime: lower_l(*l),
        }),
    };
    // the real code under test: Interner::intern_ty -> TyKind::compute_flags
    kind.intern(I)
}

/// Smart constructor: REF facts bottom-up, real chalk type, comparison.
fn mk(k: K) -> N {
    let mut occ = 0u32;
    let mut depth = 0u8;
    let mut child_tainted = false;
    for_each_component(&k, &mut |_, _, o, child| {
        occ |= o;
        if let Some(c) = child {
            depth = depth.max(c.depth + 1);
            child_tainted |= !c.ok || c.child_tainted;
        }
    });
    if depth == 0 && !matches!(k, K::Scalar(_) | K::Str | K::Never | K::Foreign(_) | K::Error | K::Placeholder(..) | K::BoundVar(..) | K::InferenceVar(..)) {
        depth = 1; // constructors without type children (empty / lifetime-only substitution) are level 1
    }
    let ty = lower(&k);
    let ok = agrees(ty.data(I).flags, &expect(occ));
    Arc::new(Node { k, occ, depth, ty, ok, child_tainted })
}

// ---------------------------------------------------------------- printing

fn show_l(l: L) -> String {
    match l {
        L::Bound(d, i) => format!("'^{}.{}", d, i),
        L::Infer(n) => format!("'?{}", n),
        L::Ph(u, i) => format!("'!{}_{}", u, i),
        L::Static => "'static".into(),
        L::Erased => "'erased".into(),
        L::Error => "'{error}".into(),
    }
}

fn show_c(c: &C) -> String {
    let v = match c.v {
        CV::Bound(d, i) => format!("^{}.{}", d, i),
        CV::Infer(n) => format!("?{}", n),
        CV::Ph(u, i) => format!("!{}_{}", u, i),
        CV::Concrete(n) => format!("{}", n),
    };
    format!("const {}: {}", v, show(&c.ty))
}

fn show_args(args: &[A]) -> String {
    let v: Vec<String> = args
        .iter()
        .map(|a| match a {
            A::T(n) => show(n),
            A::L(l) => show_l(*l),
            A::C(c) => show_c(c),
        })
        .collect();
    format!("<{}>", v.join(", "))
}

fn show_w(w: &W) -> String {
    let body = match w {
        W::Implemented(args) => format!("Implemented(Trait#0{})", show_args(args)),
        W::AliasEq(o, args, t) => format!("AliasEq({}#0{} = {})", if *o { "Alias::Opaque" } else { "Alias::Projection" }, show_args(args), show(t)),
        W::LifetimeOutlives(a, b) => format!("LifetimeOutlives({}: {})", show_l(*a), show_l(*b)),
        W::TypeOutlives(t, l) => format!("TypeOutlives({}: {})", show(t), show_l(*l)),
    };
    if wc_binders(w) > 0 {
        format!("forall<'> {}", body)
    } else {
        body
    }
}

fn variant(k: &K) -> (usize, &'static str) {
    match k {
        K::App(Sub::Adt, _) => (0, "Adt"),
        K::App(Sub::AssociatedType, _) => (1, "AssociatedType"),
        K::Scalar(_) => (2, "Scalar"),
        K::App(Sub::Tuple, _) => (3, "Tuple"),
        K::Array(..) => (4, "Array"),
        K::Slice(_) => (5, "Slice"),
        K::Raw(..) => (6, "Raw"),
        K::Ref(..) => (7, "Ref"),
        K::App(Sub::OpaqueType, _) => (8, "OpaqueType"),
        K::App(Sub::FnDef, _) => (9, "FnDef"),
        K::Str => (10, "Str"),
        K::Never => (11, "Never"),
        K::App(Sub::Closure, _) => (12, "Closure"),
        K::App(Sub::Coroutine, _) => (13, "Coroutine"),
        K::App(Sub::CoroutineWitness, _) => (14, "CoroutineWitness"),
        K::Foreign(_) => (15, "Foreign"),
        K::Error => (16, "Error"),
        K::Placeholder(..) => (17, "Placeholder"),
        K::Dyn(..) => (18, "Dyn"),
        K::App(Sub::AliasProjection, _) => (19, "Alias::Projection"),
        K::App(Sub::AliasOpaque, _) => (20, "Alias::Opaque"),
        K::Function(..) => (21, "Function"),
        K::BoundVar(..) => (22, "BoundVar"),
        K::InferenceVar(..) => (23, "InferenceVar"),
    }
}
const NVAR: usize = 24;

fn show(n: &Node) -> String {
    match &n.k {
        K::App(Sub::Tuple, args) => format!("Tuple{}", show_args(args)),
        K::App(_, args) => format!("{}#0{}", variant(&n.k).1, show_args(args)),
        K::Function(nb, sig, args) => format!("for<{}> fn#sig{}{}", nb, sig, show_args(args)),
        K::Scalar(i) => format!("{:?}", SCALARS[*i as usize]),
        K::Str => "str".into(),
        K::Never => "!".into(),
        K::Foreign(i) => format!("Foreign#{}", i),
        K::Error => "{error}".into(),
        K::Placeholder(u, i) => format!("!{}_{}", u, i),
        K::BoundVar(d, i) => format!("^{}.{}", d, i),
        K::InferenceVar(v, 0) => format!("?{}", v),
        K::InferenceVar(v, 1) => format!("?{}i", v),
        K::InferenceVar(v, _) => format!("?{}f", v),
        K::Array(t, c) => format!("[{}; {}]", show(t), show_c(c)),
        K::Slice(t) => format!("[{}]", show(t)),
        K::Raw(m, t) => format!("*{} {}", if *m { "mut" } else { "const" }, show(t)),
        K::Ref(m, l, t) => format!("&{}{} {}", show_l(*l), if *m { " mut" } else { "" }, show(t)),
        K::Dyn(l, ws) => format!("dyn {{{}}} + {}", ws.iter().map(show_w).collect::<Vec<_>>().join("; "), show_l(*l)),
    }
}

// ---------------------------------------------------------------- bookkeeping

#[derive(Default)]
struct Local {
    types: u64,
    nontrivial: u64,
    with_dont_care: u64,
    dont_care_flag_set_by_chalk: u64,
    disagreeing: u64,
    propagated_only: u64,
    max_depth: u64,
    by_variant: [u64; NVAR],
    by_flag: [u64; 15],
    /// components that contribute at least one mandatory flag, by (context, part)
    comp: [[u64; NPART]; NCTX],
    /// smallest (= first in enumeration order) representative per (variant, facts)
    reps: FxHashMap<(u8, u32), (u64, N)>,
    samples: Vec<(u64, serde_json::Value)>,
}

impl Local {
    fn merge(mut self, o: Local) -> Local {
        self.types += o.types;
        self.nontrivial += o.nontrivial;
        self.with_dont_care += o.with_dont_care;
        self.dont_care_flag_set_by_chalk += o.dont_care_flag_set_by_chalk;
        self.disagreeing += o.disagreeing;
        self.propagated_only += o.propagated_only;
        self.max_depth = self.max_depth.max(o.max_depth);
        for i in 0..NVAR {
            self.by_variant[i] += o.by_variant[i];
        }
        for i in 0..15 {
            self.by_flag[i] += o.by_flag[i];
        }
        for i in 0..NCTX {
            for j in 0..NPART {
                self.comp[i][j] += o.comp[i][j];
            }
        }
        for (k, v) in o.reps {
            match self.reps.get(&k) {
                Some(e) if e.0 <= v.0 => {}
                _ => {
                    self.reps.insert(k, v);
                }
            }
        }
        self.samples.extend(o.samples);
        self
    }
}

struct Shared<'a> {
    rep: &'a Report,
    /// violations reported so far per site (only touched on the failure path)
    per_site: Mutex<FxHashMap<String, u32>>,
}

fn flags_json(n: &Node) -> serde_json::Value {
    let e = expect(n.occ);
    let fl = n.ty.data(I).flags;
    json!({
        "type": show(n),
        "depth": n.depth,
        "chalk_flags": names(fl.bits()),
        "still_further_specializable(masked)": fl.contains(F::STILL_FURTHER_SPECIALIZABLE),
        "expected_set": names(e.must),
        "dont_care": names(e.may),
    })
}

/// Check one type (`seq` = position in the enumeration, smallest first).
fn visit(n: &N, seq: u64, loc: &mut Local, sh: &Shared, collect_reps: bool) {
    let e = expect(n.occ);
    loc.types += 1;
    loc.by_variant[variant(&n.k).0] += 1;
    loc.max_depth = loc.max_depth.max(n.depth as u64);
    if e.must != 0 {
        loc.nontrivial += 1;
        for (i, (_, f)) in FLAG_TABLE.iter().enumerate() {
            if e.must & f.bits() != 0 {
                loc.by_flag[i] += 1;
            }
        }
    }
    for_each_component(&n.k, &mut |c, p, o, _| {
        if expect(o).must != 0 {
            loc.comp[c as usize][p as usize] += 1;
        }
    });
    let got = n.ty.data(I).flags;
    if e.may != 0 {
        loc.with_dont_care += 1;
        if got.bits() & e.may != 0 {
            loc.dont_care_flag_set_by_chalk += 1;
        }
    }
    if collect_reps {
        let key = (variant(&n.k).0 as u8, n.occ);
        match loc.reps.get(&key) {
            Some(x) if x.0 <= seq => {}
            _ => {
                loc.reps.insert(key, (seq, n.clone()));
            }
        }
    }
    if seq % 1_000_003 == 77 || (seq < 40_000 && seq % 9_973 == 4_321) {
        loc.samples.push((seq, flags_json(n)));
    }
    if n.ok {
        return;
    }
    loc.disagreeing += 1;
    if n.child_tainted {
        // the disagreement is (also) present in a proper sub-type, where it was reported
        loc.propagated_only += 1;
        return;
    }
    report(n, &e, got, sh);
}

fn report(n: &N, e: &Exp, flags: F, sh: &Shared) {
    let got = flags.bits() & covered_mask();
    let vname = variant(&n.k).1;
    let missing = e.must & !got;
    let spurious = got & !(e.must | e.may);
    let mut out: Vec<(&str, String, String)> = vec![];
    if missing != 0 {
        // which direct component makes the (first) missing flag mandatory?
        let bit = 1u16 << missing.trailing_zeros();
        let mut src: Option<(Ctx, Part)> = None;
        for_each_component(&n.k, &mut |c, p, o, _| {
            if src.is_none() && expect(o).must & bit != 0 {
                src = Some((c, p));
            }
        });
        let comp = src.map(|(c, p)| format!("{}:{}", CTX_NAMES[c as usize], PART_NAMES[p as usize])).unwrap_or_else(|| "?".into());
        out.push((
            "flag-missing",
            format!("compute_flags/{}/{}", vname, comp),
            format!("flags {:?} are not set although the {} of this {} contains what they stand for", names(missing), comp, vname),
        ));
    }
    if spurious != 0 {
        out.push((
            "flag-spurious",
            format!("compute_flags/{}/{}", vname, names(spurious).join("+")),
            format!("flags {:?} are set although nothing of that kind occurs in the type", names(spurious)),
        ));
    }
    if missing == 0 && spurious == 0 {
        out.push((
            "composite-mask-disagrees",
            format!("compute_flags/{}/composite", vname),
            format!(
                "intersects(HAS_FREE_LOCAL_NAMES)={} expected {}; intersects(HAS_PROJECTION)={} expected must={} may={}",
                flags.intersects(F::HAS_FREE_LOCAL_NAMES),
                e.local_names,
                flags.intersects(F::HAS_PROJECTION),
                e.projection.0,
                e.projection.1
            ),
        ));
    }
    for (kind, site, what) in out {
        {
            let mut m = sh.per_site.lock().unwrap();
            let c = m.entry(site.clone()).or_insert(0);
            *c += 1;
            if *c > 5 {
                continue;
            }
        }
        sh.rep.violation(Violation {
            property: "C26".into(),
            kind: kind.into(),
            site,
            what: format!("{} :: chalk flags {:?}, expected {:?} (don't-care {:?}) :: {}", show(n), names(got), names(e.must), names(e.may), what),
            input: json!({"type": show(n), "chalk_type_debug": format!("{:?}", n.ty)}),
        });
    }
}

// ---------------------------------------------------------------- enumeration

struct Alphabet {
    /// every nullary type (level 0)
    level0: Vec<N>,
    /// the 8 atoms used as children
    atoms: Vec<N>,
    self_ty: N,
    lts: Vec<L>,
    cvs: Vec<CV>,
    /// consts of every kind over every atom type
    c0: Vec<C>,
    /// A0: level-0 argument alphabet
    a0: Vec<A>,
}

impl Alphabet {
    fn new() -> Alphabet {
        let mut level0: Vec<N> = vec![];
        let atoms: Vec<N> = vec![
            mk(K::Scalar(0)),
            mk(K::Str),
            mk(K::Never),
            mk(K::Foreign(0)),
            mk(K::Error),
            mk(K::Placeholder(0, 0)),
            mk(K::BoundVar(0, 0)),
            mk(K::InferenceVar(0, 0)),
        ];
        level0.extend(atoms.iter().cloned());
        for i in 1..SCALARS.len() {
            level0.push(mk(K::Scalar(i as u8)));
        }
        let self_ty = mk(K::BoundVar(1, 0));
        level0.push(mk(K::Foreign(1)));
        level0.push(mk(K::Placeholder(1, 1)));
        level0.push(self_ty.clone());
        level0.push(mk(K::BoundVar(1, 1)));
        level0.push(mk(K::InferenceVar(1, 1)));
        level0.push(mk(K::InferenceVar(2, 2)));
        let lts = vec![L::Static, L::Erased, L::Error, L::Bound(0, 0), L::Bound(1, 0), L::Infer(3), L::Ph(1, 2)];
        let cvs = vec![CV::Concrete(3), CV::Bound(0, 1), CV::Infer(4), CV::Ph(1, 3)];
        let mut c0 = vec![];
        for t in &atoms {
            for v in &cvs {
                c0.push(C { ty: t.clone(), v: *v });
            }
        }
        let mut a0: Vec<A> = atoms.iter().cloned().map(A::T).collect();
        a0.extend(lts.iter().map(|l| A::L(*l)));
        a0.extend(c0.iter().cloned().map(A::C));
        Alphabet { level0, atoms, self_ty, lts, cvs, c0, a0 }
    }

    /// every where clause over level-0 material: `extra` = the optional argument after the self type
    fn clauses0(&self) -> Vec<W> {
        let me = A::T(self.self_ty.clone());
        let mut substs: Vec<Vec<A>> = vec![vec![me.clone()]];
        for x in &self.a0 {
            substs.push(vec![me.clone(), x.clone()]);
        }
        let mut v = vec![];
        for s in &substs {
            v.push(W::Implemented(s.clone()));
        }
        for o in [false, true] {
            for s in &substs {
                for t in &self.atoms {
                    v.push(W::AliasEq(o, s.clone(), t.clone()));
                }
            }
        }
        for a in &self.lts {
            for b in &self.lts {
                v.push(W::LifetimeOutlives(*a, *b));
            }
        }
        for t in &self.atoms {
            for l in &self.lts {
                v.push(W::TypeOutlives(t.clone(), *l));
            }
        }
        v
    }

    /// level 1, core part: substitutions of length <= 2, dyn with <= 1 clause
    fn level1_core(&self, clauses: &[W]) -> Vec<N> {
        let mut out = vec![];
        let mut substs: Vec<Vec<A>> = vec![vec![]];
        for a in &self.a0 {
            substs.push(vec![a.clone()]);
        }
        for a in &self.a0 {
            for b in &self.a0 {
                substs.push(vec![a.clone(), b.clone()]);
            }
        }
        for s in SUBS {
            for args in &substs {
                out.push(mk(K::App(s, args.clone())));
            }
        }
        for nb in 0..2u8 {
            for (i, args) in substs.iter().enumerate() {
                out.push(mk(K::Function(nb, ((i + nb as usize) % 8) as u8, args.clone())));
            }
        }
        for t in &self.atoms {
            for c in &self.c0 {
                out.push(mk(K::Array(t.clone(), c.clone())));
            }
        }
        for t in &self.atoms {
            out.push(mk(K::Slice(t.clone())));
            for m in [false, true] {
                out.push(mk(K::Raw(m, t.clone())));
                for l in &self.lts {
                    out.push(mk(K::Ref(m, *l, t.clone())));
                }
            }
        }
        for l in &self.lts {
            out.push(mk(K::Dyn(*l, vec![])));
            for w in clauses {
                out.push(mk(K::Dyn(*l, vec![w.clone()])));
            }
        }
        out
    }
}

/// Sibling alphabet for the levels >= 2.
struct Sib {
    args: Vec<A>,
    consts: Vec<C>,
    atoms: Vec<N>,
    dyn_lts: Vec<L>,
}

impl Sib {
    fn full(al: &Alphabet) -> Sib {
        Sib { args: al.a0.clone(), consts: al.c0.clone(), atoms: al.atoms.clone(), dyn_lts: al.lts.clone() }
    }
    fn reduced(al: &Alphabet) -> Sib {
        let at = |i: usize| al.atoms[i].clone();
        // bool, error, placeholder, inference variable
        let atoms = vec![at(0), at(4), at(5), at(7)];
        let mut args: Vec<A> = atoms.iter().cloned().map(A::T).collect();
        for l in [L::Static, L::Erased, L::Bound(0, 0), L::Infer(3)] {
            args.push(A::L(l));
        }
        args.push(A::C(C { ty: at(0), v: CV::Infer(4) }));
        args.push(A::C(C { ty: at(5), v: CV::Concrete(3) }));
        let mut consts = vec![];
        for t in [at(0), at(5)] {
            for v in &al.cvs {
                consts.push(C { ty: t.clone(), v: *v });
            }
        }
        Sib { args, consts, atoms, dyn_lts: vec![L::Static, L::Ph(1, 2), L::Bound(0, 0)] }
    }
}

/// Every type that has `d` as its one designated deep argument (as a type or
/// as the type of a const of every kind), in every position of every constructor.
fn with_deep(al: &Alphabet, d: &N, sib: &Sib, f: &mut impl FnMut(N)) {
    let mut deep: Vec<A> = vec![A::T(d.clone())];
    for v in &al.cvs {
        deep.push(A::C(C { ty: d.clone(), v: *v }));
    }
    // substitution-like constructors
    let mut substs: Vec<Vec<A>> = vec![];
    for da in &deep {
        substs.push(vec![da.clone()]);
        for x in &sib.args {
            substs.push(vec![da.clone(), x.clone()]);
            substs.push(vec![x.clone(), da.clone()]);
        }
    }
    for s in SUBS {
        for args in &substs {
            f(mk(K::App(s, args.clone())));
        }
    }
    for (i, args) in substs.iter().enumerate() {
        f(mk(K::Function(1, (i % 8) as u8, args.clone())));
    }
    // arrays: deep element / deep const type
    for c in &sib.consts {
        f(mk(K::Array(d.clone(), c.clone())));
    }
    for t in &sib.atoms {
        for v in &al.cvs {
            f(mk(K::Array(t.clone(), C { ty: d.clone(), v: *v })));
        }
    }
    f(mk(K::Slice(d.clone())));
    for m in [false, true] {
        f(mk(K::Raw(m, d.clone())));
        for l in &al.lts {
            f(mk(K::Ref(m, *l, d.clone())));
        }
    }
    // dyn: one clause holding the deep argument
    let me = A::T(al.self_ty.clone());
    let mut clauses: Vec<W> = vec![];
    for da in &deep {
        clauses.push(W::Implemented(vec![me.clone(), da.clone()]));
        for o in [false, true] {
            for t in &sib.atoms {
                clauses.push(W::AliasEq(o, vec![me.clone(), da.clone()], t.clone()));
            }
        }
    }
    for o in [false, true] {
        clauses.push(W::AliasEq(o, vec![me.clone()], d.clone()));
        for x in &sib.args {
            clauses.push(W::AliasEq(o, vec![me.clone(), x.clone()], d.clone()));
        }
    }
    for l in &al.lts {
        clauses.push(W::TypeOutlives(d.clone(), *l));
    }
    for l in &sib.dyn_lts {
        for w in &clauses {
            f(mk(K::Dyn(*l, vec![w.clone()])));
        }
    }
}

fn run_level(al: &Alphabet, deep: &[N], sib: &Sib, base_seq: u64, sh: &Shared, collect_reps: bool) -> Local {
    deep.par_iter()
        .enumerate()
        .fold(Local::default, |mut loc, (di, d)| {
            let mut j = 0u64;
            with_deep(al, d, sib, &mut |n| {
                visit(&n, base_seq + ((di as u64) << 20) + j, &mut loc, sh, collect_reps);
                j += 1;
            });
            loc
        })
        .reduce(Local::default, Local::merge)
}

pub fn run_c26(rep: &Report) -> i32 {
    let thorough = rep.is_thorough();
    let sh = Shared { rep, per_site: Mutex::new(FxHashMap::default()) };

    // static sanity of the composite masks (their doc comments say they are unions)
    if F::HAS_FREE_LOCAL_NAMES.bits() & F::STILL_FURTHER_SPECIALIZABLE.bits() != 0 || F::HAS_PROJECTION.bits() & F::STILL_FURTHER_SPECIALIZABLE.bits() != 0 {
        rep.machinery_error("composite mask overlaps the masked-out flag".into());
    }
    if covered_mask() | F::STILL_FURTHER_SPECIALIZABLE.bits() != F::all().bits() {
        rep.machinery_error(format!("TypeFlags has bits this check does not know: {:#x}", F::all().bits() & !(covered_mask() | F::STILL_FURTHER_SPECIALIZABLE.bits())));
    }

    let al = Alphabet::new();
    let mut total = Local::default();
    let mut seq = 0u64;

    // ---- level 0
    for n in &al.level0 {
        visit(n, seq, &mut total, &sh, false);
        seq += 1;
    }
    rep.count("level0_types", al.level0.len() as u64);

    // ---- level 1, core (sequential; also the deep arguments of level 2)
    let clauses = al.clauses0();
    let core1 = al.level1_core(&clauses);
    for n in &core1 {
        visit(n, seq, &mut total, &sh, false);
        seq += 1;
    }
    rep.count("level1_core_types", core1.len() as u64);
    rep.note("alphabet", json!({"atoms": al.atoms.len(), "lifetimes": al.lts.len(), "const_values": al.cvs.len(), "A0": al.a0.len(), "where_clauses_level0": clauses.len()}));
    {
        // the construction argument for distinctness, checked on the stored levels
        let mut seen = std::collections::HashSet::new();
        for n in al.level0.iter().chain(core1.iter()) {
            if !seen.insert(n.ty.clone()) {
                rep.machinery_error(format!("enumeration produced a duplicate: {}", show(n)));
                break;
            }
        }
    }

    // ---- level 1, wide: substitutions of length 3, dyn with two clauses
    let base = 1u64 << 40;
    let wide_subst = (0..al.a0.len())
        .into_par_iter()
        .fold(Local::default, |mut loc, i| {
            let mut j = 0u64;
            for b in &al.a0 {
                for c in &al.a0 {
                    let args = vec![al.a0[i].clone(), b.clone(), c.clone()];
                    for s in SUBS {
                        visit(&mk(K::App(s, args.clone())), base + ((i as u64) << 20) + j, &mut loc, &sh, false);
                        j += 1;
                    }
                    visit(&mk(K::Function(1, (j % 8) as u8, args)), base + ((i as u64) << 20) + j, &mut loc, &sh, false);
                    j += 1;
                }
            }
            loc
        })
        .reduce(Local::default, Local::merge);
    rep.count("level1_wide_subst3_types", wide_subst.types);
    total = total.merge(wide_subst);
    let dyn2_lts: Vec<L> = if thorough { al.lts.clone() } else { vec![L::Static, L::Bound(0, 0)] };
    let base = 2u64 << 40;
    let wide_dyn = (0..clauses.len())
        .into_par_iter()
        .fold(Local::default, |mut loc, i| {
            let mut j = 0u64;
            for w2 in &clauses {
                for l in &dyn2_lts {
                    visit(&mk(K::Dyn(*l, vec![clauses[i].clone(), w2.clone()])), base + ((i as u64) << 20) + j, &mut loc, &sh, false);
                    j += 1;
                }
            }
            loc
        })
        .reduce(Local::default, Local::merge);
    rep.count("level1_wide_dyn2_types", wide_dyn.types);
    total = total.merge(wide_dyn);

    // ---- level 2: every core level-1 type as the deep argument
    let sib2 = if thorough { Sib::full(&al) } else { Sib::reduced(&al) };
    let mut l2 = run_level(&al, &core1, &sib2, 3u64 << 40, &sh, thorough);
    rep.count("level2_types", l2.types);
    let reps2 = std::mem::take(&mut l2.reps);
    total = total.merge(l2);

    // ---- level 3 (thorough): one representative per (variant, fact set) class of level 2
    if thorough {
        let mut reps: Vec<(u64, N)> = reps2.into_values().collect();
        reps.sort_by_key(|r| r.0);
        let deep3: Vec<N> = reps.into_iter().map(|r| r.1).collect();
        rep.count("level2_classes_used_as_level3_arguments", deep3.len() as u64);
        let l3 = run_level(&al, &deep3, &Sib::reduced(&al), 4u64 << 40, &sh, false);
        rep.count("level3_types", l3.types);
        total = total.merge(l3);
    }

    // ---- evidence
    rep.count("types", total.types);
    rep.count("flag_computations_checked", total.types);
    rep.count("types_with_expected_flags", total.nontrivial);
    rep.count("types_with_dont_care_flag", total.with_dont_care);
    rep.count("dont_care_flag_set_by_chalk", total.dont_care_flag_set_by_chalk);
    rep.count("types_disagreeing", total.disagreeing);
    rep.count("types_disagreeing_only_through_a_subtype", total.propagated_only);
    rep.max("max_depth", total.max_depth);
    let mut vac: Vec<String> = vec!["types".into(), "types_with_expected_flags".into(), "types_with_dont_care_flag".into(), "level2_types".into()];
    for (i, c) in total.by_variant.iter().enumerate() {
        // name of variant i
        let name = VARIANT_NAMES[i];
        let key = format!("top_{}", name);
        rep.count(&key, *c);
        vac.push(key);
    }
    for (i, (name, _)) in FLAG_TABLE.iter().enumerate() {
        let key = format!("expect_{}", name);
        rep.count(&key, total.by_flag[i]);
        if *name != "HAS_CT_PROJECTION" {
            vac.push(key);
        }
    }
    for (c, cn) in CTX_NAMES.iter().enumerate() {
        for (p, pn) in PART_NAMES.iter().enumerate() {
            if total.comp[c][p] > 0 || EXPECTED_COMPONENTS.contains(&(c, p)) {
                let key = format!("flag_source_{}:{}", cn, pn);
                rep.count(&key, total.comp[c][p]);
                vac.push(key);
            }
        }
    }
    total.samples.sort_by_key(|s| s.0);
    for n in [&al.level0[4], &al.level0[7]] {
        rep.sample(flags_json(n));
    }
    // up to 6 more, spread over the levels (band = top bits of the enumeration position)
    for (band, n) in [(0u64, 1usize), (1, 1), (2, 1), (3, 2), (4, 1), (3, 8)] {
        let mut taken = 0;
        for (q, s) in total.samples.iter() {
            if q >> 40 == band && taken < n && !(band == 3 && n == 8 && taken < 2 && total.samples.iter().filter(|x| x.0 >> 40 == 3).take(2).any(|x| x.0 == *q)) {
                rep.sample(s.clone());
                taken += 1;
            }
        }
    }
    let vac_refs: Vec<&str> = vac.iter().map(|s| s.as_str()).collect();
    crate::props::c01::vacuity(rep, &vac_refs);
    let types = rep.get("types");
    let rule = if thorough {
        "every type of level 0 (all nullary TyKinds), level 1 (every constructor over every argument combination from A0 = 8 atoms + 7 lifetimes of all 6 kinds + consts of all 4 kinds typed by every atom; substitutions of length 0..3, fn pointers, arrays, slices, raw pointers, references, dyn with 0..2 where clauses of all 4 kinds), level 2 (every constructor with one deep argument = any core level-1 type, as a type or as the type of a const of every kind, in every position, siblings from all of A0) and level 3 (same, deep argument = the first representative of every (variant, occurrence-fact-set) class of level 2, siblings from a reduced alphabet of 10 arguments); non-trivial = REF expects at least one covered flag to be set"
    } else {
        "every type of level 0 (all nullary TyKinds), level 1 (every constructor over every argument combination from A0 = 8 atoms + 7 lifetimes of all 6 kinds + consts of all 4 kinds typed by every atom; substitutions of length 0..3, fn pointers, arrays, slices, raw pointers, references, dyn with 0..2 where clauses of all 4 kinds) and level 2 (every constructor with one deep argument = any core level-1 type, as a type or as the type of a const of every kind, in every position, siblings from a reduced alphabet of 10 arguments); non-trivial = REF expects at least one covered flag to be set"
    };
    rep.finish(
        types,
        rep.get("flag_computations_checked"),
        rep.get("types_with_expected_flags"),
        rule,
        true,
        &[
            "REF = occurrence facts bottom-up over the module's own AST, flags derived from the facts by the doc comments of TypeFlags (harness/src/props/c26.rs `expect`)",
            "STILL_FURTHER_SPECIALIZABLE is masked out (doc comment and pinned tests disagree)",
            "don't-care pairs: (HAS_TY_PROJECTION, TyKind::AssociatedType), (HAS_TY_OPAQUE, TyKind::OpaqueType), (HAS_FREE_REGIONS, 'erased or error lifetime), (HAS_ERROR, error lifetime)",
            "conventions taken from tests/test/type_flags.rs: 'static is a free region; every bound-variable lifetime is late-bound; a const's type contributes its flags",
            "binders of dyn where clauses and fn pointers are lifetime binders only (no const-kinded binder, whose kind would carry a type)",
        ],
    )
}

const VARIANT_NAMES: [&str; NVAR] = [
    "Adt",
    "AssociatedType",
    "Scalar",
    "Tuple",
    "Array",
    "Slice",
    "Raw",
    "Ref",
    "OpaqueType",
    "FnDef",
    "Str",
    "Never",
    "Closure",
    "Coroutine",
    "CoroutineWitness",
    "Foreign",
    "Error",
    "Placeholder",
    "Dyn",
    "Alias::Projection",
    "Alias::Opaque",
    "Function",
    "BoundVar",
    "InferenceVar",
];

/// (context, part) pairs that must have been exercised as the source of a mandatory flag.
const EXPECTED_COMPONENTS: [(usize, usize); 28] = [
    (Ctx::Own as usize, Part::Own as usize),
    (Ctx::Subst as usize, Part::TyArg as usize),
    (Ctx::Subst as usize, Part::LtArg as usize),
    (Ctx::Subst as usize, Part::CtValue as usize),
    (Ctx::Subst as usize, Part::CtType as usize),
    (Ctx::FnSubst as usize, Part::TyArg as usize),
    (Ctx::FnSubst as usize, Part::LtArg as usize),
    (Ctx::FnSubst as usize, Part::CtValue as usize),
    (Ctx::FnSubst as usize, Part::CtType as usize),
    (Ctx::ArrayElem as usize, Part::Ty as usize),
    (Ctx::ArrayLen as usize, Part::CtValue as usize),
    (Ctx::ArrayLen as usize, Part::CtType as usize),
    (Ctx::Pointee as usize, Part::Ty as usize),
    (Ctx::RefLifetime as usize, Part::Lt as usize),
    (Ctx::DynLifetime as usize, Part::Lt as usize),
    (Ctx::DynImplemented as usize, Part::TyArg as usize),
    (Ctx::DynImplemented as usize, Part::LtArg as usize),
    (Ctx::DynImplemented as usize, Part::CtValue as usize),
    (Ctx::DynImplemented as usize, Part::CtType as usize),
    (Ctx::DynAliasEq as usize, Part::Alias as usize),
    (Ctx::DynAliasEq as usize, Part::TyArg as usize),
    (Ctx::DynAliasEq as usize, Part::LtArg as usize),
    (Ctx::DynAliasEq as usize, Part::CtValue as usize),
    (Ctx::DynAliasEq as usize, Part::CtType as usize),
    (Ctx::DynAliasEq as usize, Part::Ty as usize),
    (Ctx::DynLifetimeOutlives as usize, Part::Lt as usize),
    (Ctx::DynTypeOutlives as usize, Part::Ty as usize),
    (Ctx::DynTypeOutlives as usize, Part::Lt as usize),
];
