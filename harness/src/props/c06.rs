//! C06: hypotheses and implied bounds yield exactly their consequences.

use super::rulecheck::{run_cases, RuleCase, RuleOpts};
use super::*;
use crate::gen::{at, at1, x};
use std::collections::BTreeMap;

fn k() -> Ty {
    Ty::Skolem(1, 0)
}
fn a() -> Ty {
    Ty::app0("A")
}
fn w(t: Ty) -> Ty {
    Ty::app("W", vec![t])
}

#[derive(Clone)]
enum Hyp {
    Tr(Atom),
    /// FromEnv(type)
    Ty(Ty),
}

struct Decls {
    /// trait name -> where-clauses over Self = Var(0), parameters Var(1..)
    traits: BTreeMap<&'static str, Vec<Atom>>,
    /// struct name -> where-clauses over parameter Var(0)
    structs: BTreeMap<&'static str, Vec<Atom>>,
}

/// The consequences of the hypotheses: closure under "a trait hypothesis implies
/// the trait's where-clauses" and "FromEnv(S<..>) implies the struct's where-clauses".
fn elaborate(d: &Decls, hyps: &[Hyp]) -> Vec<Atom> {
    let mut out: Vec<Atom> = vec![];
    let mut todo: Vec<Atom> = vec![];
    for h in hyps {
        match h {
            Hyp::Tr(a) => todo.push(a.clone()),
            Hyp::Ty(Ty::App(n, args)) => {
                if let Some(wcs) = d.structs.get(n.as_str()) {
                    let s: BTreeMap<u32, Ty> = args.iter().enumerate().map(|(i, t)| (i as u32, t.clone())).collect();
                    for wc in wcs {
                        todo.push(wc.subst(&s));
                    }
                }
            }
            _ => {}
        }
    }
    while let Some(a) = todo.pop() {
        if out.contains(&a) {
            continue;
        }
        out.push(a.clone());
        if let Some(wcs) = d.traits.get(a.tr.as_str()) {
            let mut s: BTreeMap<u32, Ty> = BTreeMap::new();
            s.insert(0, a.self_ty.clone());
            for (i, t) in a.args.iter().enumerate() {
                s.insert(i as u32 + 1, t.clone());
            }
            for wc in wcs {
                todo.push(wc.subst(&s));
            }
        }
    }
    out.sort();
    out
}

fn wc_text(wcs: &[Atom], names: &[&str]) -> String {
    if wcs.is_empty() {
        return String::new();
    }
    let mut s = String::from(" where ");
    for (i, wc) in wcs.iter().enumerate() {
        if i > 0 {
            s.push_str(", ");
        }
        let mut t = atom_str(wc);
        for (vi, n) in names.iter().enumerate() {
            t = t.replace(&format!("X{}", vi), n);
        }
        s.push_str(&t);
    }
    s
}

pub fn cases(thorough: bool) -> Vec<RuleCase> {
    let slf = || x(0);
    // supertrait structures
    let hierarchies: Vec<(&'static str, Vec<(&'static str, Vec<Atom>)>)> = vec![
        ("flat", vec![("Base", vec![]), ("Mid", vec![]), ("Side", vec![]), ("Top", vec![])]),
        ("chain", vec![("Base", vec![]), ("Mid", vec![at(slf(), "Base")]), ("Side", vec![]), ("Top", vec![at(slf(), "Mid")])]),
        (
            "diamond",
            vec![("Base", vec![]), ("Mid", vec![at(slf(), "Base")]), ("Side", vec![at(slf(), "Base")]), ("Top", vec![at(slf(), "Mid"), at(slf(), "Side")])],
        ),
        ("cycle", vec![("Base", vec![at(slf(), "Top")]), ("Mid", vec![at(slf(), "Base")]), ("Side", vec![]), ("Top", vec![at(slf(), "Mid")])]),
    ];
    let pars: Vec<(&'static str, Vec<Atom>)> = vec![
        ("par-none", vec![]),
        ("par-x-base", vec![at(x(1), "Base")]),
        ("par-self-mid-x-side", vec![at(slf(), "Mid"), at(x(1), "Side")]),
        // a bound whose self type is a struct applied to Self
        ("par-wself-top", vec![at(w(slf()), "Top")]),
        // a one-trait cycle through the trait's own parameter
        ("par-x-par-self", vec![at1(x(1), "Par", slf()), at(slf(), "Base")]),
    ];
    let structs: Vec<(&'static str, Vec<Atom>)> = vec![
        ("w-none", vec![]),
        ("w-mid", vec![at(x(0), "Mid")]),
        ("w-top-side", vec![at(x(0), "Top"), at(x(0), "Side")]),
    ];
    let impl_menu: Vec<Rule> = vec![
        Rule { nvars: 0, head: at(a(), "Base"), body: vec![] },
        Rule { nvars: 0, head: at(a(), "Mid"), body: vec![] },
        Rule { nvars: 1, head: at(w(x(0)), "Side"), body: vec![at(x(0), "Base")] },
        Rule { nvars: 1, head: at(w(x(0)), "Base"), body: vec![] },
        Rule { nvars: 1, head: at(x(0), "Top"), body: vec![at(x(0), "Side"), at(x(0), "Mid")] },
        Rule { nvars: 1, head: at1(a(), "Par", x(0)), body: vec![] },
    ];
    let impl_sets: Vec<Vec<usize>> = if thorough {
        (0..(1 << impl_menu.len())).map(|m: usize| (0..impl_menu.len()).filter(|i| m >> i & 1 == 1).collect()).collect()
    } else {
        vec![vec![], vec![0], vec![0, 2], vec![2, 3], vec![0, 1, 4], vec![2, 4], vec![0, 5], vec![0, 1, 2, 3, 4, 5]]
    };
    // hypotheses and conclusions
    let hyp_sets: Vec<(String, Vec<Hyp>)> = vec![
        ("K1_0: Top".into(), vec![Hyp::Tr(at(k(), "Top"))]),
        ("K1_0: Mid".into(), vec![Hyp::Tr(at(k(), "Mid"))]),
        ("K1_0: Side".into(), vec![Hyp::Tr(at(k(), "Side"))]),
        ("K1_0: Base".into(), vec![Hyp::Tr(at(k(), "Base"))]),
        ("K1_0: Par<A>".into(), vec![Hyp::Tr(at1(k(), "Par", a()))]),
        ("A: Par<K1_0>".into(), vec![Hyp::Tr(at1(a(), "Par", k()))]),
        ("FromEnv(W<K1_0>)".into(), vec![Hyp::Ty(w(k()))]),
        ("K1_0: Mid; K1_0: Side".into(), vec![Hyp::Tr(at(k(), "Mid")), Hyp::Tr(at(k(), "Side"))]),
        // hypotheses whose self type is a struct application (generic over the placeholder, and closed)
        ("W<K1_0>: Top".into(), vec![Hyp::Tr(at(w(k()), "Top"))]),
        ("W<A>: Top; K1_0: Side".into(), vec![Hyp::Tr(at(w(a()), "Top")), Hyp::Tr(at(k(), "Side"))]),
    ];
    let concl: Vec<Atom> = vec![
        at(k(), "Base"),
        at(k(), "Mid"),
        at(k(), "Top"),
        at(k(), "Side"),
        at(w(k()), "Side"),
        at(w(k()), "Base"),
        at(a(), "Base"),
        at1(a(), "Par", k()),
        at(w(a()), "Base"),
    ];
    let mut out = vec![];
    for (hname, hier) in &hierarchies {
        for (pname, par) in &pars {
            for (sname, swc) in &structs {
                for iset in &impl_sets {
                    let mut traits: BTreeMap<&'static str, Vec<Atom>> = hier.iter().cloned().collect();
                    traits.insert("Par", par.clone());
                    let mut sm: BTreeMap<&'static str, Vec<Atom>> = BTreeMap::new();
                    sm.insert("W", swc.clone());
                    let decls = Decls { traits, structs: sm };
                    let mut program = String::from("struct A {} ");
                    program.push_str(&format!("struct W<T>{} {{}} ", wc_text(swc, &["T"])));
                    for (tn, wcs) in hier {
                        program.push_str(&format!("trait {}{} {{}} ", tn, wc_text(wcs, &["Self"])));
                    }
                    program.push_str(&format!("trait Par<X>{} {{}} ", wc_text(par, &["Self", "X"])));
                    let rules: Vec<Rule> = iset.iter().map(|i| impl_menu[*i].clone()).collect();
                    for r in &rules {
                        let mut s = String::new();
                        render_impl(r, &mut s);
                        program.push_str(s.trim());
                        program.push(' ');
                    }
                    // goals: first the history alphabet (hypothesis-carrying and hypothesis-free versions interleaved)
                    let mut goals: Vec<Goal> = vec![];
                    let mut texts: Vec<Option<String>> = vec![];
                    let mut push = |hyp: Option<&(String, Vec<Hyp>)>, c: &Atom| {
                        match hyp {
                            Some((ht, hs)) => {
                                let facts = elaborate(&decls, hs);
                                goals.push(Goal::Forall(1, 1, Box::new(Goal::If(facts, Box::new(Goal::Atom(c.clone()))))));
                                texts.push(Some(format!("forall<K1_0> {{ if ({}) {{ {} }} }}", ht, atom_str(c))));
                            }
                            None => {
                                goals.push(Goal::Forall(1, 1, Box::new(Goal::Atom(c.clone()))));
                                texts.push(None);
                            }
                        }
                    };
                    push(Some(&hyp_sets[0]), &concl[0]);
                    push(None, &concl[0]);
                    push(Some(&hyp_sets[1]), &concl[0]);
                    push(None, &concl[4]);
                    push(Some(&hyp_sets[3]), &concl[4]);
                    push(Some(&hyp_sets[6]), &concl[1]);
                    for h in &hyp_sets {
                        for c in &concl {
                            push(Some(h), c);
                        }
                    }
                    for c in &concl {
                        push(None, c);
                    }
                    out.push(RuleCase {
                        family: "implied-bounds",
                        class: format!("{}/{}/{}", hname, pname, sname),
                        program,
                        rules,
                        coinductive: vec![],
                        ctors: vec![("A".into(), 0), ("W".into(), 1)],
                        goals,
                        goal_texts: texts,
                        history: if thorough { 6 } else { 5 },
                    });
                }
            }
        }
    }
    out
}

pub fn run_c06(rep: &Report) -> i32 {
    let thorough = rep.is_thorough();
    let cases = cases(thorough);
    let opts = RuleOpts { property: "C06", depth: 3, closed_must_be_definite: true };
    run_cases(rep, &opts, &cases);
    c01::vacuity(rep, &["answers_Unique", "answers_None", "searches_closed"]);
    let cases_n = rep.get("cases");
    let tr = rep.get("solver_calls") + rep.get("transitions") + rep.get("replay_calls");
    let nt = rep.get("nontrivial_cases");
    rep.finish(
        cases_n,
        tr,
        nt,
        "every program from the product of 4 supertrait structures (flat, chain, diamond, cycle) x 5 where-clause variants of a trait with a parameter (none, on the parameter, on Self and the parameter, on a struct applied to Self, a one-trait cycle `X: Par<Self>`) x 3 where-clause variants of a struct x a menu of impl subsets (all 64 in thorough); goals forall<T> { if (H) { G } } for 10 hypothesis sets (trait hypotheses on the placeholder, on a struct applied to it and on a closed struct type, a hypothesis on a trait parameter, FromEnv of a struct type, two hypotheses) x 9 conclusions, and the same conclusions without hypotheses; both solvers; then a breadth-first search over all orders of 5-6 goals that interleave hypothesis-carrying and hypothesis-free versions of the same conclusion on one solver, to closure; non-trivial = goals REF decides",
        rep.get("searches_cut_at_depth") == 0,
        &["REF closes the hypotheses under: a trait hypothesis implies the trait's where-clauses (recursively); FromEnv(S<..>) implies the struct's where-clauses; then decides the conclusion by least fixed point over the impls"],
    )
}
