//! C07: associated types normalize to the value of the applicable impl.

use crate::ast::*;
use crate::drive::{self, Caught, DArg, DSol, Decoder, SolverCfg};
use crate::gen::{at, x};
use crate::refsem::{Ref, Tri};
use crate::report::{panic_site, Report, Violation};
use rayon::prelude::*;
use serde_json::json;
use std::collections::BTreeMap;

fn a() -> Ty {
    Ty::app0("A")
}
fn b() -> Ty {
    Ty::app0("B")
}
fn s(t: Ty) -> Ty {
    Ty::app("S", vec![t])
}
/// projection `<self as tr>::name`, encoded as App("@tr::name", [self])
fn proj(tr: &str, name: &str, self_ty: Ty) -> Ty {
    Ty::App(format!("@{}::{}", tr, name), vec![self_ty])
}

fn r(t: &Ty) -> String {
    match t {
        Ty::App(n, args) if n.starts_with('@') => {
            let (tr, name) = n[1..].split_once("::").unwrap();
            format!("<{} as {}>::{}", r(&args[0]), tr, name)
        }
        Ty::App(n, args) if args.is_empty() => n.clone(),
        Ty::App(n, args) => format!("{}<{}>", n, args.iter().map(r).collect::<Vec<_>>().join(", ")),
        Ty::Var(_) => "T".into(),
        Ty::Skolem(u, i) => skolem_name(*u, *i),
    }
}

#[derive(Clone, Debug)]
struct AImpl {
    tr: &'static str,
    assoc: &'static str,
    nvars: u32,
    head: Ty,
    wcs: Vec<Atom>,
    value: Ty,
}

impl AImpl {
    fn text(&self) -> String {
        format!(
            "impl{} {} for {}{} {{ type {} = {}; }}",
            if self.nvars > 0 { "<T>" } else { "" },
            self.tr,
            r(&self.head),
            if self.wcs.is_empty() {
                String::new()
            } else {
                format!(" where {}", self.wcs.iter().map(|w| format!("{}: {}", r(&w.self_ty), w.tr)).collect::<Vec<_>>().join(", "))
            },
            self.assoc,
            r(&self.value)
        )
    }
}

#[derive(Clone, Debug, PartialEq)]
enum Norm {
    Value(Ty),
    NoImpl,
    Stuck,
}

struct Model<'a> {
    impls: &'a [AImpl],
    refm: Ref,
    hyps: Vec<Atom>,
}

impl<'a> Model<'a> {
    fn contains_proj(t: &Ty) -> bool {
        match t {
            Ty::App(n, args) => n.starts_with('@') || args.iter().any(Self::contains_proj),
            _ => false,
        }
    }
    /// Normalize every projection inside `t`.
    fn normalize(&self, t: &Ty, fuel: usize) -> Norm {
        if fuel == 0 {
            return Norm::Stuck;
        }
        match t {
            Ty::App(n, args) => {
                let mut nargs = vec![];
                for arg in args {
                    match self.normalize(arg, fuel - 1) {
                        Norm::Value(v) => nargs.push(v),
                        other => return other,
                    }
                }
                if let Some(rest) = n.strip_prefix('@') {
                    let (tr, _name) = rest.split_once("::").unwrap();
                    let self_ty = &nargs[0];
                    if !self_ty.is_ground() {
                        return Norm::Stuck;
                    }
                    let mut found: Option<Ty> = None;
                    let mut unknown = false;
                    for im in self.impls.iter().filter(|i| i.tr == tr) {
                        let mut sub = BTreeMap::new();
                        if !im.head.match_into(self_ty, &mut sub) {
                            continue;
                        }
                        let mut ok = Tri::True;
                        for wc in &im.wcs {
                            ok = ok.and(self.refm.prove(&self.hyps, &wc.subst(&sub)).0);
                        }
                        match ok {
                            Tri::True => {
                                if found.is_some() {
                                    return Norm::Stuck; // incoherent: not judged
                                }
                                found = Some(im.value.subst(&sub));
                            }
                            Tri::Unknown => unknown = true,
                            Tri::False => {}
                        }
                    }
                    if unknown {
                        return Norm::Stuck;
                    }
                    match found {
                        Some(v) => self.normalize(&v, fuel - 1),
                        None => {
                            // a hypothesis `K: Tr` makes the projection of a placeholder well-defined but opaque
                            if self.hyps.iter().any(|h| h.tr == tr && h.self_ty == *self_ty) {
                                Norm::Stuck
                            } else {
                                Norm::NoImpl
                            }
                        }
                    }
                } else {
                    Norm::Value(Ty::App(n.clone(), nargs))
                }
            }
            other => Norm::Value(other.clone()),
        }
    }
}

fn impl_menu() -> (Vec<AImpl>, Vec<AImpl>, Vec<AImpl>) {
    let t = || x(0);
    let base = vec![
        AImpl { tr: "Tr", assoc: "X", nvars: 0, head: a(), wcs: vec![], value: b() },
        AImpl { tr: "Tr", assoc: "X", nvars: 0, head: b(), wcs: vec![], value: s(a()) },
    ];
    let generic = vec![
        AImpl { tr: "Tr", assoc: "X", nvars: 1, head: s(t()), wcs: vec![], value: t() },
        AImpl { tr: "Tr", assoc: "X", nvars: 1, head: s(t()), wcs: vec![at(t(), "Tr")], value: proj("Tr", "X", t()) },
        AImpl { tr: "Tr", assoc: "X", nvars: 1, head: s(t()), wcs: vec![at(t(), "Tr2")], value: proj("Tr2", "Y", t()) },
        AImpl { tr: "Tr", assoc: "X", nvars: 1, head: s(t()), wcs: vec![], value: s(t()) },
        AImpl { tr: "Tr", assoc: "X", nvars: 1, head: s(t()), wcs: vec![at(t(), "Tr2")], value: s(proj("Tr2", "Y", t())) },
        // a projection nested under a constructor whose own normal form mentions the impl parameter
        AImpl { tr: "Tr", assoc: "X", nvars: 1, head: s(t()), wcs: vec![at(s(t()), "Tr2")], value: s(proj("Tr2", "Y", s(t()))) },
    ];
    let tr2 = vec![
        AImpl { tr: "Tr2", assoc: "Y", nvars: 0, head: a(), wcs: vec![], value: a() },
        AImpl { tr: "Tr2", assoc: "Y", nvars: 1, head: s(t()), wcs: vec![], value: b() },
        AImpl { tr: "Tr2", assoc: "Y", nvars: 0, head: b(), wcs: vec![], value: s(b()) },
        // alternative to the second entry (never together): the value is the parameter
        AImpl { tr: "Tr2", assoc: "Y", nvars: 1, head: s(t()), wcs: vec![], value: t() },
    ];
    (base, generic, tr2)
}

pub fn run_c07(rep: &Report) -> i32 {
    let thorough = rep.is_thorough();
    let (base, generic, tr2) = impl_menu();
    let mut programs: Vec<Vec<AImpl>> = vec![];
    // a concrete impl whose header the generic impl's header also matches; the two are told apart
    // only by the generic impl's where-clause (declared after or before the generic impl)
    let overlapped = AImpl { tr: "Tr", assoc: "X", nvars: 0, head: s(b()), wcs: vec![], value: b() };
    for bm in 0..4usize {
        for g in 0..=generic.len() {
            for tm in 0..(1usize << tr2.len()) {
                if tm >> 1 & 1 == 1 && tm >> 3 & 1 == 1 {
                    continue; // two impls of Tr2 for S<T>
                }
                let extras: &[u8] = if g > 0 && !generic[g - 1].wcs.is_empty() { &[0, 1, 2] } else { &[0] };
                for &extra in extras {
                    let mut v = vec![];
                    for (i, im) in base.iter().enumerate() {
                        if bm >> i & 1 == 1 {
                            v.push(im.clone());
                        }
                    }
                    if extra == 2 {
                        v.push(overlapped.clone());
                    }
                    if g > 0 {
                        v.push(generic[g - 1].clone());
                    }
                    if extra == 1 {
                        v.push(overlapped.clone());
                    }
                    for (i, im) in tr2.iter().enumerate() {
                        if tm >> i & 1 == 1 {
                            v.push(im.clone());
                        }
                    }
                    if !v.is_empty() {
                        programs.push(v);
                    }
                }
            }
        }
    }
    let bound_opts = ["", ": Plain"];
    let selfs: Vec<Ty> = if thorough {
        vec![a(), b(), s(a()), s(b()), s(s(a())), s(s(b())), s(s(s(a())))]
    } else {
        vec![a(), b(), s(a()), s(b()), s(s(a())), s(s(b()))]
    };
    let candidates: Vec<Ty> = vec![a(), b(), s(a()), s(b()), s(s(a()))];
    rep.note("programs", json!(programs.len() * bound_opts.len()));
    let jobs: Vec<(usize, usize)> = (0..programs.len()).flat_map(|p| (0..bound_opts.len()).map(move |b| (p, b))).collect();
    jobs.par_iter().for_each(|&(pi, bi)| {
        let impls = &programs[pi];
        let text = format!(
            "struct A {{}} struct B {{}} struct S<T> {{}} trait Plain {{}} impl Plain for A {{}} impl Plain for B {{}} impl<T> Plain for S<T> {{}} \
             trait Tr {{ type X{}; }} trait Tr2 {{ type Y; }} {}",
            bound_opts[bi],
            impls.iter().map(|i| i.text()).collect::<Vec<_>>().join(" ")
        );
        let program = match drive::load_program(&text) {
            Ok(p) => p,
            Err(e) => {
                rep.machinery_error(format!("c07 program does not lower: {} :: {}", e, text));
                return;
            }
        };
        rep.count("programs_run", 1);
        let rules: Vec<Rule> = impls.iter().map(|i| Rule { nvars: i.nvars, head: at(i.head.clone(), i.tr), body: i.wcs.clone() }).collect();
        let mk_model = |hyps: Vec<Atom>| Model { impls, refm: Ref::new(rules.clone(), vec![], vec![("A".into(), 0), ("B".into(), 0), ("S".into(), 1)]), hyps };
        let model = mk_model(vec![]);
        // goal list: (text, kind)
        enum Kind {
            /// exists<U> { Normalize(<X as Tr>::X -> U) }  (strict = the raw impl value has no projection)
            Normalize { norm: Norm, strict: bool },
            /// X: Tr<X = Y> with ground Y
            EqGround { norm: Norm, y: Ty },
            /// exists<U> { X: Tr<X = U> }
            EqExists { norm: Norm },
        }
        let mut goals: Vec<(String, Kind)> = vec![];
        for xs in &selfs {
            let p = proj("Tr", "X", xs.clone());
            let norm = model.normalize(&p, 8);
            // is the value of the applicable impl projection-free?
            let strict = {
                let mut raw = None;
                for im in impls.iter().filter(|i| i.tr == "Tr") {
                    let mut sub = BTreeMap::new();
                    if im.head.match_into(xs, &mut sub) {
                        raw = Some(!Model::contains_proj(&im.value));
                    }
                }
                raw.unwrap_or(true)
            };
            goals.push((format!("exists<U> {{ Normalize({} -> U) }}", r(&p)), Kind::Normalize { norm: norm.clone(), strict }));
            goals.push((format!("exists<U> {{ {}: Tr<X = U> }}", r(xs)), Kind::EqExists { norm: norm.clone() }));
            for y in &candidates {
                goals.push((format!("{}: Tr<X = {}>", r(xs), r(y)), Kind::EqGround { norm: norm.clone(), y: y.clone() }));
            }
        }
        // forall variants
        {
            let k = Ty::Skolem(1, 0);
            let p = proj("Tr", "X", s(k.clone()));
            let norm = model.normalize(&p, 8);
            goals.push((format!("forall<K1_0> {{ exists<U> {{ Normalize({} -> U) }} }}", r(&p)), Kind::Normalize { norm: norm.clone(), strict: false }));
            for hy in ["Tr", "Tr2"] {
                let m2 = mk_model(vec![at(k.clone(), hy)]);
                let norm = m2.normalize(&p, 8);
                goals.push((
                    format!("forall<K1_0> {{ if (K1_0: {}) {{ exists<U> {{ Normalize({} -> U) }} }} }}", hy, r(&p)),
                    Kind::Normalize { norm, strict: false },
                ));
            }
        }
        for (gtext, kind) in &goals {
            let peeled = match drive::peel(&program, gtext) {
                Ok(p) => p,
                Err(e) => {
                    rep.machinery_error(format!("c07 goal does not lower: {} :: {}", e, gtext));
                    continue;
                }
            };
            rep.count("cases", 1);
            for cfg in [SolverCfg::SLG, SolverCfg::REC] {
                let mut solver = drive::AnySolver::new(cfg);
                let (raw, _) = solver.solve(&*program, &peeled.ugoal);
                rep.count("solver_calls", 1);
                let input = || json!({"program": text, "goal": gtext, "solver": cfg.name()});
                let sol = match raw {
                    Caught::Ok(sraw) => Decoder::with_universes(&program, &peeled.universes).solution(&sraw),
                    Caught::Panic(loc, msg) => {
                        rep.violation(Violation { property: "C07".into(), kind: "panic".into(), site: panic_site(&loc, &msg), what: format!("{} panics on `{}`: {}", cfg.name(), gtext, msg), input: input() });
                        continue;
                    }
                    _ => continue,
                };
                rep.count(&format!("answers_{}", sol.tag()), 1);
                // the unique type, if any (and if it is a plain type we can read)
                let unique_ty: Option<Ty> = match &sol {
                    DSol::Unique(su) if su.args.len() == 1 => match &su.args[0] {
                        DArg::Ty(t) => Some(t.clone()),
                        _ => None,
                    },
                    _ => None,
                };
                let readable = |t: &Ty| !format!("{:?}", t).contains("Alias");
                let viol = |kind: &str, what: String| {
                    rep.violation(Violation { property: "C07".into(), kind: kind.into(), site: format!("{}/{}", cfg.short(), kind), what: format!("{} `{}`: {}", cfg.name(), gtext, what), input: input() });
                };
                match kind {
                    Kind::Normalize { norm, strict } => match norm {
                        Norm::Value(v) => {
                            rep.count("judged", 1);
                            match (&sol, &unique_ty) {
                                (DSol::Unique(_), Some(t)) if readable(t) => {
                                    if t != v {
                                        viol("normalizes-to-wrong-type", format!("answer {} but the applicable impl's value normalizes to {}", r(t), r(v)));
                                    }
                                }
                                (DSol::Unique(_), _) => rep.count("unique_with_unnormalized_alias(not judged)", 1),
                                (DSol::NoSolution, _) => viol("no-solution-although-impl-applies", format!("`No possible solution` but the applicable impl gives {}", r(v))),
                                (other, _) => {
                                    if *strict {
                                        viol("not-unique-although-impl-applies", format!("answer {} but exactly one impl applies and its value is {}", other.tag(), r(v)));
                                    } else {
                                        rep.count("ambiguous_on_nested_projection(allowed)", 1);
                                    }
                                }
                            }
                        }
                        Norm::NoImpl => {
                            rep.count("judged", 1);
                            if !matches!(sol, DSol::NoSolution) {
                                viol("solution-although-no-impl-applies", format!("answer {:?} but no impl applies", sol));
                            }
                        }
                        Norm::Stuck => rep.count("not_judged(stuck)", 1),
                    },
                    Kind::EqGround { norm, y } => match norm {
                        Norm::Value(v) => {
                            rep.count("judged", 1);
                            if y != v && matches!(sol, DSol::Unique(_)) {
                                viol("equality-accepts-wrong-type", format!("`Unique` although the associated type is {} and not {}", r(v), r(y)));
                            }
                        }
                        Norm::NoImpl => {
                            rep.count("judged", 1);
                            if matches!(sol, DSol::Unique(_)) {
                                viol("equality-accepted-although-no-impl-applies", "answer `Unique` but no impl applies".into());
                            }
                        }
                        Norm::Stuck => rep.count("not_judged(stuck)", 1),
                    },
                    Kind::EqExists { norm } => {
                        if let (DSol::Unique(_), Some(t)) = (&sol, &unique_ty) {
                            if readable(t) {
                                match norm {
                                    Norm::Value(v) => {
                                        rep.count("judged", 1);
                                        if t != v {
                                            viol("equality-unique-type-is-not-the-value", format!("answers {} but the associated type is {}", r(t), r(v)));
                                        }
                                    }
                                    Norm::NoImpl => viol("equality-accepted-although-no-impl-applies", format!("answers {} but no impl applies", r(t))),
                                    Norm::Stuck => {}
                                }
                            }
                        }
                    }
                }
            }
        }
        if pi % 37 == 0 && bi == 0 {
            rep.sample(json!({"program": text, "goals": goals.iter().take(4).map(|g| g.0.clone()).collect::<Vec<_>>()}));
        }
    });
    crate::props::c01::vacuity(rep, &["judged", "answers_Unique", "answers_None"]);
    let states = rep.get("cases");
    let tr = rep.get("solver_calls");
    let nt = rep.get("judged");
    rep.finish(
        states,
        tr,
        nt,
        "every coherent program from {subsets of 2 concrete impls of Tr} x {none or one of 6 generic impls of Tr for S<T> whose value is the parameter, a projection on the same trait, a projection on another trait, S<T>, or a type containing a projection (of the parameter, or of S<T> so that its normal form mentions the parameter)} x {where the generic impl has a where-clause: none, or a concrete impl for S<B> whose header the generic header also matches, declared before or after it} x {coherent subsets of 4 impls of Tr2} x {associated type with/without a bound}; goals exists<U> { Normalize(<X as Tr>::X -> U) }, exists<U> { X: Tr<X = U> } and X: Tr<X = Y> for every ground X of depth <= 3 and every candidate Y, plus forall / forall-if variants; both solvers; non-trivial = (goal, solver) pairs for which REF's normalization is defined and was compared",
        true,
        &[
            "REF normalize: the unique impl whose header matches and whose where-clauses hold (lfp), substitute, normalize nested projections",
            "answers that mention an unnormalized alias type are counted, not judged; SLG's Ambiguous for exists<U> { X: Tr<X = U> } is allowed by the statement",
        ],
    )
}
