//! C28: every returned solution is a well-formed answer for its query.
//! `monitor` works on the raw chalk values (not the decoded ones).

use super::*;
use crate::drive::{AnySolver, Caught, SolverCfg, UGoal};
use crate::report::Violation;
use chalk_integration::interner::ChalkIr;
use chalk_ir::visit::{TypeVisitable, TypeVisitor};
use chalk_ir::*;
use chalk_solve::{Guidance, Solution, SubstitutionResult};
use std::collections::BTreeMap;
use std::ops::ControlFlow;

struct Scan {
    n_binders: usize,
    max_universe: usize,
    problems: Vec<String>,
}

impl TypeVisitor<ChalkIr> for Scan {
    type BreakTy = ();
    fn as_dyn(&mut self) -> &mut dyn TypeVisitor<ChalkIr, BreakTy = ()> {
        self
    }
    fn visit_free_var(&mut self, bv: BoundVar, outer: DebruijnIndex) -> ControlFlow<()> {
        match bv.shifted_out_to(outer) {
            Some(b) => {
                if b.debruijn != DebruijnIndex::INNERMOST {
                    self.problems
                        .push(format!("bound variable {:?} escapes the solution's binder", b));
                } else if b.index >= self.n_binders {
                    self.problems.push(format!(
                        "bound variable index {} >= number of solution binders {}",
                        b.index, self.n_binders
                    ));
                }
            }
            None => {}
        }
        ControlFlow::Continue(())
    }
    fn visit_free_placeholder(&mut self, p: PlaceholderIndex, _o: DebruijnIndex) -> ControlFlow<()> {
        if p.ui.counter >= self.max_universe {
            self.problems.push(format!(
                "placeholder !{}_{} names universe {} but the query has only {} universes",
                p.ui.counter, p.idx, p.ui.counter, self.max_universe
            ));
        }
        ControlFlow::Continue(())
    }
    fn visit_inference_var(&mut self, v: InferenceVar, _o: DebruijnIndex) -> ControlFlow<()> {
        self.problems
            .push(format!("inference variable ?{} in a returned solution", v.index()));
        ControlFlow::Continue(())
    }
    fn interner(&self) -> ChalkIr {
        ChalkIr
    }
}

fn kind_tag(k: &VariableKind<ChalkIr>) -> &'static str {
    match k {
        VariableKind::Ty(_) => "ty",
        VariableKind::Lifetime => "lifetime",
        VariableKind::Const(_) => "const",
    }
}

fn arg_tag(a: &GenericArg<ChalkIr>) -> &'static str {
    match a.data(ChalkIr) {
        GenericArgData::Ty(_) => "ty",
        GenericArgData::Lifetime(_) => "lifetime",
        GenericArgData::Const(_) => "const",
    }
}

fn check_subst(
    goal: &UGoal,
    binders: &CanonicalVarKinds<ChalkIr>,
    subst: &Substitution<ChalkIr>,
    extra: Option<&Constraints<ChalkIr>>,
) -> Vec<String> {
    let i = ChalkIr;
    let mut problems = vec![];
    let qb = goal.canonical.binders.as_slice(i);
    let args = subst.as_slice(i);
    if args.len() != qb.len() {
        problems.push(format!(
            "substitution has {} entries but the query has {} variables",
            args.len(),
            qb.len()
        ));
    }
    for (k, (a, b)) in args.iter().zip(qb.iter()).enumerate() {
        if arg_tag(a) != kind_tag(&b.kind) {
            problems.push(format!(
                "entry {} is a {} but the query variable is a {}",
                k,
                arg_tag(a),
                kind_tag(&b.kind)
            ));
        }
    }
    for b in binders.iter(i) {
        if b.skip_kind().counter >= goal.universes {
            problems.push(format!(
                "solution binder lives in universe {} but the query has only {} universes",
                b.skip_kind().counter,
                goal.universes
            ));
        }
    }
    let mut scan = Scan {
        n_binders: binders.len(i),
        max_universe: goal.universes,
        problems: vec![],
    };
    let _ = subst.visit_with(&mut scan, DebruijnIndex::INNERMOST);
    if let Some(c) = extra {
        let _ = c.visit_with(&mut scan, DebruijnIndex::INNERMOST);
    }
    problems.extend(scan.problems);
    if problems.is_empty() {
        // applying it to the query must not fail
        let value = goal.canonical.value.clone();
        let s = subst.clone();
        let r = crate::drive::guarded(move || {
            let _applied = s.apply(value, ChalkIr);
        });
        if let Caught::Panic(loc, msg) = r {
            problems.push(format!("applying the substitution panics at {}: {}", loc, msg));
        }
    }
    problems
}

/// All well-formedness problems of a solution for `goal` (empty = well-formed).
pub fn monitor(goal: &UGoal, sol: &Option<Solution<ChalkIr>>) -> Vec<String> {
    match sol {
        None => vec![],
        Some(Solution::Unique(c)) => {
            check_subst(goal, &c.binders, &c.value.subst, Some(&c.value.constraints))
        }
        Some(Solution::Ambig(Guidance::Definite(c)))
        | Some(Solution::Ambig(Guidance::Suggested(c))) => {
            check_subst(goal, &c.binders, &c.value, None)
        }
        Some(Solution::Ambig(Guidance::Unknown)) => vec![],
    }
}

pub fn monitor_answer(
    goal: &UGoal,
    a: &SubstitutionResult<Canonical<ConstrainedSubst<ChalkIr>>>,
) -> Vec<String> {
    match a {
        SubstitutionResult::Definite(c) | SubstitutionResult::Ambiguous(c) => {
            check_subst(goal, &c.binders, &c.value.subst, Some(&c.value.constraints))
        }
        SubstitutionResult::Floundered => vec![],
    }
}

/// Extra programs/goals with lifetime and const unknowns and nested forall (text level): one
/// hand-written program with many quantifier shapes, plus three product families — every subset
/// of <= 3 impls from a menu over a two-position constructor whose second/first position is a
/// type, a const or a lifetime (several answers that leave the SAME position open and differ in
/// the other one is what answer merging has to get right).
pub fn extra_cases() -> Vec<(String, Vec<String>)> {
    let mut out: Vec<(String, Vec<String>)> = vec![(
        "struct A {} struct S<T> {} struct L<'a> {} struct C<const N> {} \
         trait Tr {} trait Tl<'a> {} trait Tc<const N> {} trait Two<T, U> {} \
         impl Tr for A {} impl<T> Tr for S<T> where T: Tr {} \
         impl<'a> Tl<'a> for A {} impl<'a> Tr for L<'a> {} \
         impl<const N> Tc<N> for A {} impl Tc<3> for S<A> {} impl<const N> Tr for C<N> {} \
         impl<T> Two<T, T> for A {} impl<T, U> Two<S<T>, U> for S<A> {}"
            .to_string(),
        [
            "exists<'a> { A: Tl<'a> }",
            "exists<'a> { L<'a>: Tr }",
            "exists<T, 'a> { T: Tl<'a> }",
            "exists<const N> { A: Tc<N> }",
            "exists<const N> { S<A>: Tc<N> }",
            "exists<T, const N> { T: Tc<N> }",
            "exists<const N> { C<N>: Tr }",
            "forall<'a> { exists<'b> { L<'a>: Tr, L<'b>: Tr } }",
            "forall<'a> { exists<T> { T: Tl<'a> } }",
            "forall<T> { exists<U> { forall<V> { exists<W> { A: Two<U, W> } } } }",
            "forall<T> { exists<U> { forall<V> { exists<W> { S<A>: Two<U, W> } } } }",
            "forall<T> { exists<U> { U = S<T> } }",
            "forall<T> { exists<U> { forall<V> { exists<W> { U = S<T>, W = S<V> } } } }",
            "exists<T, U> { A: Two<T, U> }",
            "exists<T, U> { S<A>: Two<T, U> }",
            "exists<T> { forall<U> { A: Two<T, U> } }",
            "forall<const N> { exists<const M> { A: Tc<M>, C<N>: Tr } }",
            "forall<'a, 'b> { exists<'c> { L<'c>: Tr } }",
            "exists<T> { T: Tr }",
            "exists<T> { S<T>: Tr }",
            "exists<'a, 'b> { L<'a> = L<'b> }",
            "forall<'a> { exists<'b> { L<'a> = L<'b> } }",
            "exists<'b> { forall<'a> { L<'a> = L<'b> } }",
        ]
        .iter()
        .map(|s| s.to_string())
        .collect(),
    )];
    let families: Vec<(&str, Vec<&str>, Vec<&str>)> = vec![
        (
            "struct A {} struct B {} struct P<T, U> {} trait Pl {}",
            vec![
                "impl<T> Pl for P<T, A> {}",
                "impl<T> Pl for P<T, B> {}",
                "impl<T> Pl for P<A, T> {}",
                "impl<T, U> Pl for P<T, U> {}",
                "impl<T> Pl for P<T, T> {}",
                "impl Pl for P<A, B> {}",
            ],
            vec![
                "exists<X> { X: Pl }",
                "exists<X, Y> { P<X, Y>: Pl }",
                "exists<X> { P<X, A>: Pl }",
                "exists<X> { P<A, X>: Pl }",
                "exists<X> { P<X, X>: Pl }",
                "forall<K> { exists<X> { P<X, K>: Pl } }",
            ],
        ),
        (
            "struct A {} struct Bf<T, const N> {} trait Pk {}",
            vec![
                "impl<const N> Pk for Bf<u8, N> {}",
                "impl<const N> Pk for Bf<u16, N> {}",
                "impl<T> Pk for Bf<T, 3> {}",
                "impl<T> Pk for Bf<T, 4> {}",
                "impl<T, const N> Pk for Bf<T, N> {}",
                "impl Pk for Bf<A, 3> {}",
            ],
            vec![
                "exists<X> { X: Pk }",
                "exists<X, const N> { Bf<X, N>: Pk }",
                "exists<const N> { Bf<u8, N>: Pk }",
                "exists<X> { Bf<X, 3>: Pk }",
                "forall<const K> { exists<X> { Bf<X, K>: Pk } }",
            ],
        ),
        (
            "struct A {} struct B {} struct Rf<'a, T> {} trait Pr {}",
            vec![
                "impl<'a> Pr for Rf<'a, A> {}",
                "impl<'a> Pr for Rf<'a, B> {}",
                "impl<T> Pr for Rf<'static, T> {}",
                "impl<'a, T> Pr for Rf<'a, T> {}",
                "impl Pr for Rf<'static, A> {}",
            ],
            vec![
                "exists<X> { X: Pr }",
                "exists<'a, X> { Rf<'a, X>: Pr }",
                "exists<'a> { Rf<'a, A>: Pr }",
                "exists<X> { Rf<'static, X>: Pr }",
                "forall<'k> { exists<X> { Rf<'k, X>: Pr } }",
            ],
        ),
    ];
    for (header, impls, goals) in families {
        let n = impls.len();
        for mask in 1u32..(1 << n) {
            if mask.count_ones() > 3 {
                continue;
            }
            let sel: Vec<&str> = (0..n).filter(|i| mask >> i & 1 == 1).map(|i| impls[i]).collect();
            out.push((format!("{} {}", header, sel.join(" ")), goals.iter().map(|g| g.to_string()).collect()));
        }
    }
    out
}

pub fn run_c28(rep: &Report) -> i32 {
    let thorough = rep.is_thorough();
    let corpora = core_corpora(thorough, 1);
    let cfgs = [SolverCfg::SLG, SolverCfg::REC];
    let handle = |rep: &Report,
                  local: &mut BTreeMap<String, u64>,
                  program: &chalk_integration::program::Program,
                  ugoal: &UGoal,
                  input: &dyn Fn(&str) -> serde_json::Value,
                  goal_text: &str| {
        for cfg in cfgs {
            let mut solver = AnySolver::new(cfg);
            let (r, _) = solver.solve(program, ugoal);
            *local.entry("solve_calls".into()).or_insert(0) += 1;
            if let Caught::Panic(loc, msg) = &r {
                // the solver's own assertions on the answer it is about to return (the canonicalizer
                // forbids free variables, substitutions are kind-checked, ...) firing on a valid query
                // mean the answer under construction was ill-formed
                if ["free variable", "mismatched kinds", "substitution", "apply_solution"].iter().any(|k| msg.contains(k)) {
                    rep.violation(Violation {
                        property: "C28".into(),
                        kind: "solver-asserts-ill-formed-answer".into(),
                        site: format!("{}/{}", cfg.short(), crate::report::panic_site(loc, msg)),
                        what: format!("{} on `{}` panics while building its answer: {} ({})", cfg.name(), goal_text, msg, loc),
                        input: input(&cfg.name()),
                    });
                }
            }
            if let Caught::Ok(sol) = &r {
                if sol.is_some() {
                    *local.entry("solutions_checked".into()).or_insert(0) += 1;
                }
                if matches!(sol, Some(Solution::Unique(c)) if !c.binders.is_empty(ChalkIr))
                    || matches!(sol, Some(Solution::Ambig(Guidance::Definite(c))) if !c.binders.is_empty(ChalkIr))
                {
                    *local.entry("solutions_with_own_binders".into()).or_insert(0) += 1;
                }
                for p in monitor(ugoal, sol) {
                    rep.violation(Violation {
                        property: "C28".into(),
                        kind: "ill-formed-solution".into(),
                        site: format!("{}/{}", cfg.short(), p.split_whitespace().take(3).collect::<Vec<_>>().join("-")),
                        what: format!("{} on `{}`: {} ({:?})", cfg.name(), goal_text, p, sol),
                        input: input(&cfg.name()),
                    });
                }
            }
            if cfg.is_slg() && !ugoal.canonical.binders.is_empty(ChalkIr) {
                let mut solver = AnySolver::new(cfg);
                let mut n = 0;
                let mut bad: Vec<String> = vec![];
                let (_r, _) = solver.solve_multiple(program, ugoal, &mut |a, _next| {
                    n += 1;
                    bad.extend(monitor_answer(ugoal, &a));
                    n < 12
                });
                *local.entry("enumerated_answers_checked".into()).or_insert(0) += n;
                for p in bad {
                    rep.violation(Violation {
                        property: "C28".into(),
                        kind: "ill-formed-enumerated-answer".into(),
                        site: format!("slg/{}", p.split_whitespace().take(3).collect::<Vec<_>>().join("-")),
                        what: format!("solve_multiple on `{}`: {}", goal_text, p),
                        input: input(&cfg.name()),
                    });
                }
            }
        }
    };
    for_each_program(rep, &corpora, |pc, goals| {
        let mut local = BTreeMap::new();
        for g in goals {
            *local.entry("cases".into()).or_insert(0) += 1;
            handle(rep, &mut local, &pc.chalk, &g.peeled.ugoal, &|s| pc.input(g, s), &g.text);
        }
        rep.merge_counts(&local);
    });
    for (ptext, goals) in extra_cases() {
        let program = drive::load_program(&ptext).expect("extra program lowers");
        let mut local = BTreeMap::new();
        for gt in goals {
            match drive::peel(&program, &gt) {
                Ok(peeled) => {
                    *local.entry("cases".into()).or_insert(0) += 1;
                    *local.entry("extra_cases_lifetime_const_nested".into()).or_insert(0) += 1;
                    handle(
                        rep,
                        &mut local,
                        &program,
                        &peeled.ugoal,
                        &|s| json!({"program": ptext, "goal": gt, "solver": s}),
                        &gt,
                    );
                    if local.get("cases").copied().unwrap_or(0) <= 2 {
                        rep.sample(json!({"program": ptext, "goal": gt}));
                    }
                }
                Err(e) => rep.machinery_error(format!("extra goal does not lower: {} :: {}", e, gt)),
            }
        }
        rep.merge_counts(&local);
    }
    c01::vacuity(rep, &["solutions_checked", "solutions_with_own_binders", "enumerated_answers_checked"]);
    let cases = rep.get("cases");
    let calls = rep.get("solve_calls");
    let nt = rep.get("solutions_checked");
    rep.finish(
        cases,
        calls,
        nt,
        "every (program, goal) of the reduced C01 corpus plus a hand-written program with lifetime/const unknowns and nested forall and three product families (every subset of <= 3 impls over a two-position constructor with a type, const or lifetime position; 5-6 goals each) x {SLG, recursive}; each returned solution and each enumerated SLG answer is checked structurally (entry count, kinds, bound variables, universes) and applied to the query; non-trivial = the solver returned a solution (not None)",
        true,
        &["the monitor reads chalk's own Canonical/Substitution values through the public visitor API"],
    )
}
