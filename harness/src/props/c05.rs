//! C05: auto traits and coinductive traits follow coinductive semantics.

use super::rulecheck::{run_cases, RuleCase, RuleOpts};
use super::*;
use crate::gen::{at, x};

fn app0(n: &str) -> Ty {
    Ty::app0(n)
}
fn app(n: &str, a: Vec<Ty>) -> Ty {
    Ty::app(n, a)
}

/// Built-in structural rules of an auto trait `tr` (from the property statement).
pub fn builtin_auto_rules(tr: &str) -> Vec<Rule> {
    let mut v = vec![];
    let r = |nv: u32, head: Ty, body: Vec<Ty>| Rule {
        nvars: nv,
        head: at(head, tr),
        body: body.into_iter().map(|b| at(b, tr)).collect(),
    };
    for c in ["ref", "refmut", "ptr_const", "ptr_mut", "slice", "array"] {
        v.push(r(1, app(c, vec![x(0)]), vec![x(0)]));
    }
    v.push(r(0, app("tuple", vec![]), vec![]));
    v.push(r(1, app("tuple", vec![x(0)]), vec![x(0)]));
    v.push(r(2, app("tuple", vec![x(0), x(1)]), vec![x(0), x(1)]));
    v.push(r(3, app("tuple", vec![x(0), x(1), x(2)]), vec![x(0), x(1), x(2)]));
    // function pointers implement auto traits unconditionally
    v.push(r(1, app("fnptr", vec![x(0)]), vec![]));
    v.push(r(2, app("fnptr", vec![x(0), x(1)]), vec![]));
    for s in ["u32", "i32", "bool", "f32", "never", "str"] {
        v.push(r(0, app0(s), vec![]));
    }
    v
}

fn field_text(f: &[Ty]) -> String {
    f.iter()
        .enumerate()
        .map(|(i, t)| format!("f{}: {}", i, ty_str(t)))
        .collect::<Vec<_>>()
        .join(", ")
}

pub fn cases(thorough: bool) -> Vec<RuleCase> {
    let t = || Ty::Var(0);
    let field_opts: Vec<Vec<Ty>> = {
        let mut v = vec![
            vec![],
            vec![app0("A")],
            vec![app0("N")],
            vec![t()],
            vec![app("S1", vec![t()])],
            vec![app("S2", vec![t()])],
            vec![app("ref", vec![t()])],
            vec![app("tuple", vec![t(), app0("A")])],
            vec![t(), app0("N")],
        ];
        if thorough {
            v.push(vec![app("S1", vec![app("S2", vec![t()])])]);
            v.push(vec![app("array", vec![t()]), app("ptr_const", vec![app0("N")])]);
            v.push(vec![app("S2", vec![app0("A")]), t()]);
        }
        v
    };
    // explicit impl options: (text, rules, suppresses structural rule of S1?)
    struct Ex {
        text: &'static str,
        rules: Vec<Rule>,
        suppress_s1: bool,
        name: &'static str,
    }
    let s1 = |a: Ty| app("S1", vec![a]);
    let exs = vec![
        Ex { text: "", rules: vec![], suppress_s1: false, name: "none" },
        Ex { text: "impl<T> Send for S1<T> {}", rules: vec![Rule { nvars: 1, head: at(s1(x(0)), "Send"), body: vec![] }], suppress_s1: true, name: "pos" },
        Ex { text: "impl<T> !Send for S1<T> {}", rules: vec![], suppress_s1: true, name: "neg" },
        Ex { text: "impl<T> Send for S1<T> where T: Send {}", rules: vec![Rule { nvars: 1, head: at(s1(x(0)), "Send"), body: vec![at(x(0), "Send")] }], suppress_s1: true, name: "pos-where" },
        Ex { text: "impl Send for S1<N> {}", rules: vec![Rule { nvars: 0, head: at(s1(app0("N")), "Send"), body: vec![] }], suppress_s1: true, name: "pos-ground" },
        Ex {
            text: "impl<T> Send for T where T: Other {}",
            rules: vec![Rule { nvars: 1, head: at(x(0), "Send"), body: vec![at(x(0), "Other")] }],
            suppress_s1: false,
            name: "blanket",
        },
    ];
    let goal_tys: Vec<Ty> = {
        let a = || app0("A");
        let n = || app0("N");
        let s2 = |q: Ty| app("S2", vec![q]);
        let mut v = vec![
            s1(a()), s2(a()), s1(s2(a())), s1(n()), s2(n()), a(), n(),
            s2(s1(n())), s1(s1(a())), app("tuple", vec![a(), n()]), app("tuple", vec![a(), a()]),
            app("ref", vec![n()]), app("ref", vec![s1(a())]), app("array", vec![n()]), app("slice", vec![s1(n())]),
            app("ptr_const", vec![n()]), app("ptr_mut", vec![s2(n())]), app("fnptr", vec![n(), a()]),
            app0("u32"), app0("never"), app0("str"), app("tuple", vec![]),
        ];
        if thorough {
            v.push(s1(s2(s1(a()))));
            v.push(s2(s2(n())));
            v.push(app("tuple", vec![s1(a()), s2(a()), a()]));
            v.push(app("ref", vec![app("tuple", vec![s1(n()), a()])]));
        }
        v
    };
    let mut goals: Vec<Goal> = goal_tys.iter().map(|ty| Goal::Atom(at(ty.clone(), "Send"))).collect();
    let k = || Ty::Skolem(1, 0);
    goals.push(Goal::Forall(1, 1, Box::new(Goal::Atom(at(s1(k()), "Send")))));
    goals.push(Goal::Forall(1, 1, Box::new(Goal::If(vec![at(k(), "Send")], Box::new(Goal::Atom(at(s1(k()), "Send")))))));
    goals.push(Goal::Forall(1, 1, Box::new(Goal::If(vec![at(k(), "Send")], Box::new(Goal::Atom(at(app("S2", vec![k()]), "Send")))))));
    goals.push(Goal::Not(Box::new(Goal::Atom(at(app0("N"), "Send")))));
    goals.push(Goal::Not(Box::new(Goal::Atom(at(s1(app0("N")), "Send")))));

    let mut out = vec![];
    for f1 in &field_opts {
        for f2 in &field_opts {
            for s2_enum in [false, true] {
                if s2_enum && f2.is_empty() {
                    continue;
                }
                for ex in &exs {
                    let s2_decl = if s2_enum {
                        // enum with one variant carrying the fields and one empty variant
                        format!(
                            "enum S2<T> {{ V({}), W }}",
                            f2.iter().map(|t| ty_str(t).replace("X0", "T")).collect::<Vec<_>>().join(", ")
                        )
                    } else {
                        format!("struct S2<T> {{ {} }}", field_text(f2).replace("X0", "T"))
                    };
                    let program = format!(
                        "#[auto] trait Send {{}} trait Other {{}} struct A {{}} struct N {{}} impl !Send for N {{}} impl Other for N {{}} \
                         struct S1<T> {{ {} }} {} {}",
                        field_text(f1).replace("X0", "T"),
                        s2_decl,
                        ex.text
                    );
                    let mut rules = builtin_auto_rules("Send");
                    rules.push(Rule { nvars: 0, head: at(app0("A"), "Send"), body: vec![] });
                    rules.push(Rule { nvars: 0, head: at(app0("N"), "Other"), body: vec![] });
                    if !ex.suppress_s1 {
                        rules.push(Rule { nvars: 1, head: at(s1(x(0)), "Send"), body: f1.iter().map(|t| at(t.clone(), "Send")).collect() });
                    }
                    rules.push(Rule { nvars: 1, head: at(app("S2", vec![x(0)]), "Send"), body: f2.iter().map(|t| at(t.clone(), "Send")).collect() });
                    rules.extend(ex.rules.iter().cloned());
                    out.push(RuleCase {
                        family: "auto",
                        class: {
                            // does the field graph of S1/S2 contain a cycle (self reference or mutual recursion)?
                            fn mentions(f: &[Ty], n: &str) -> bool {
                                fn m(t: &Ty, n: &str) -> bool {
                                    match t {
                                        Ty::App(c, a) => c == n || a.iter().any(|x| m(x, n)),
                                        _ => false,
                                    }
                                }
                                f.iter().any(|t| m(t, n))
                            }
                            let s1_struct = !ex.suppress_s1;
                            let cyclic = (s1_struct && mentions(f1, "S1"))
                                || mentions(f2, "S2")
                                || (s1_struct && mentions(f1, "S2") && mentions(f2, "S1"));
                            format!("auto/{}{}", ex.name, if cyclic { "/cyclic" } else { "" })
                        },
                        program,
                        rules,
                        coinductive: vec!["Send".into()],
                        ctors: vec![("A".into(), 0), ("N".into(), 0), ("S1".into(), 1), ("S2".into(), 1)],
                        goals: goals.clone(),
                        goal_texts: vec![],
                        history: if thorough { 6 } else { 5 },
                    });
                }
            }
        }
    }
    out.extend(cases_auto3(thorough));
    out
}

/// Second auto-trait family: three non-generic structs P1..P3 whose field lists are ordered
/// sequences over {N (negative impl), P1, P2, P3} — every shape of a cycle that fails because
/// of a `!Send` member somewhere along it, in every field order (both solvers pick subgoals in
/// field order, and which member is asked first decides which table is completed as a non-root
/// member of the cycle). Goals: each `Pi: Send`, in every order on one solver.
fn cases_auto3(thorough: bool) -> Vec<RuleCase> {
    let names = ["N", "P1", "P2", "P3"];
    fn seqs(max_len: usize) -> Vec<Vec<usize>> {
        let mut out: Vec<Vec<usize>> = vec![vec![]];
        let mut frontier: Vec<Vec<usize>> = vec![vec![]];
        for _ in 0..max_len {
            let mut next = vec![];
            for s in &frontier {
                for k in 0..4 {
                    if !s.contains(&k) {
                        let mut t = s.clone();
                        t.push(k);
                        next.push(t);
                    }
                }
            }
            out.extend(next.iter().cloned());
            frontier = next;
        }
        out
    }
    let long = seqs(3);
    let short = seqs(if thorough { 3 } else { 2 });
    let mut out = vec![];
    for f1 in &long {
        for f2 in &short {
            for f3 in &short {
                // P2 <-> P3 symmetry: keep one representative when P1 does not tell them apart
                let swap = |f: &Vec<usize>| -> Vec<usize> { f.iter().map(|&k| if k == 2 { 3 } else if k == 3 { 2 } else { k }).collect() };
                if swap(f1) == *f1 && (swap(f3), swap(f2)) < (f2.clone(), f3.clone()) {
                    continue;
                }
                let fields = [f1, f2, f3];
                if f1.len() + f2.len() + f3.len() > if thorough { 7 } else { 5 } {
                    continue;
                }
                // only programs in which some Pi is reachable from itself (the family is about cycles)
                let reach = |from: usize| -> bool {
                    let mut seen = [false; 4];
                    let mut stack: Vec<usize> = fields[from - 1].clone();
                    while let Some(k) = stack.pop() {
                        if k == 0 || seen[k] {
                            continue;
                        }
                        seen[k] = true;
                        stack.extend(fields[k - 1].iter().cloned());
                    }
                    seen[from]
                };
                if !(1..=3).any(reach) {
                    continue;
                }
                let decl = |i: usize| {
                    format!(
                        "struct P{} {{ {} }}",
                        i,
                        fields[i - 1].iter().enumerate().map(|(j, k)| format!("f{}: {}", j, names[*k])).collect::<Vec<_>>().join(", ")
                    )
                };
                let program = format!(
                    "#[auto] trait Send {{}} struct N {{}} impl !Send for N {{}} {} {} {}",
                    decl(1),
                    decl(2),
                    decl(3)
                );
                let mut rules = builtin_auto_rules("Send");
                for i in 1..=3 {
                    rules.push(Rule {
                        nvars: 0,
                        head: at(app0(names[i]), "Send"),
                        body: fields[i - 1].iter().map(|k| at(app0(names[*k]), "Send")).collect(),
                    });
                }
                let mut goals: Vec<Goal> = (1..=3).map(|i| Goal::Atom(at(app0(names[i]), "Send"))).collect();
                goals.push(Goal::And(vec![Goal::Atom(at(app0("P3"), "Send")), Goal::Not(Box::new(Goal::Atom(at(app0("P1"), "Send"))))]));
                goals.push(Goal::Not(Box::new(Goal::Atom(at(app0("P2"), "Send")))));
                out.push(RuleCase {
                    family: "auto3",
                    class: "auto3/cyclic".into(),
                    program,
                    rules,
                    coinductive: vec!["Send".into()],
                    ctors: vec![("N".into(), 0), ("P1".into(), 0), ("P2".into(), 0), ("P3".into(), 0)],
                    goals,
                    goal_texts: vec![],
                    history: 3,
                });
            }
        }
    }
    out
}

pub fn run_c05(rep: &Report) -> i32 {
    let thorough = rep.is_thorough();
    let cases = cases(thorough);
    let opts = RuleOpts { property: "C05", depth: 3, closed_must_be_definite: true };
    run_cases(rep, &opts, &cases);
    // #[coinductive] traits (with cycles) from the C01 corpus are part of this property too
    let co: Vec<Corpus> = core_corpora(thorough, 1).into_iter().filter(|c| c.frag.ends_with("co")).collect();
    for_each_program(rep, &co, |pc, goals| {
        let mut local = std::collections::BTreeMap::new();
        for g in goals {
            if !g.peeled.var_creation.is_empty() {
                continue;
            }
            *local.entry("cases".into()).or_insert(0) += 1;
            *local.entry("cases_coinductive_traits".into()).or_insert(0) += 1;
            for cfg in [crate::drive::SolverCfg::SLG, crate::drive::SolverCfg::REC] {
                let (r, _) = drive::solve_fresh(&pc.chalk, &g.peeled, cfg);
                *local.entry("solver_calls".into()).or_insert(0) += 1;
                if let crate::drive::Caught::Ok(sol) = r {
                    let ac = crate::oracle::AnswerCheck { refm: &pc.refm, pa: &g.pa, peeled: &g.peeled, depth: 3, solver: cfg.short(), class: pc.class };
                    let (issues, info) = ac.check(&sol);
                    if info.closed_value.map(|v| v.definite()).unwrap_or(false) {
                        *local.entry("nontrivial_cases".into()).or_insert(0) += 1;
                    }
                    for is in issues {
                        rep.violation(crate::report::Violation {
                            property: "C05".into(),
                            kind: is.kind,
                            site: is.site,
                            what: format!("{} answers {} for `{}` :: {}", cfg.name(), sol.tag(), g.text, is.detail),
                            input: pc.input(g, &cfg.name()),
                        });
                    }
                }
            }
        }
        rep.merge_counts(&local);
    });
    c01::vacuity(rep, &["answers_Unique", "answers_None", "searches_closed", "cases_coinductive_traits"]);
    let cases_n = rep.get("cases");
    let tr = rep.get("solver_calls") + rep.get("transitions") + rep.get("replay_calls");
    let nt = rep.get("nontrivial_cases");
    rep.finish(
        cases_n,
        tr,
        nt,
        "every program of the auto-trait family: #[auto] trait Send, structs A, N (negative impl), S1<T> and S2<T> (struct or enum) with every pair of field lists from a menu (empty, A, N, T, self reference, reference to the other ADT, &T, tuple, two fields) x explicit impl option for S1 (none, positive, negative, positive with where-clause, positive on one instance, blanket impl through another trait) x closed goals `ty: Send` over ADT instances, tuples, references, arrays, slices, raw pointers, fn pointers, scalars, plus forall/if/not goals, both solvers; then for each program a breadth-first search over all orders of the first 5-6 goals on one solver to closure; plus the closed goals of the #[coinductive] programs of the C01 corpus; non-trivial = goals REF decides",
        rep.get("searches_cut_at_depth") == 0,
        &["REF rule for auto traits is written from the property statement: an applicable explicit impl, or (constructor has no explicit or negative impl) all constituent types; greatest fixed point"],
    )
}
