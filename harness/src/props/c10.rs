//! C10: answers do not depend on what the same solver solved before.
//! Explicit-state search in "replayed state" mode: a state is the history that
//! reaches it; states are deduplicated by the solver's fingerprint (hook H2);
//! the search runs to closure (no new fingerprints). The explorer is shared
//! with C05 and C06 (their "never reused" / "never leaks" clauses).

use super::*;
use crate::drive::{decode_caught, AnySolver, Caught, DSol, Peeled, SolverCfg};
use crate::report::Violation;
use rustc_hash::FxHashSet;
use std::collections::BTreeMap;

/// Alphabet of goals chosen to share subgoals (resolved by text so that the
/// alphabet is stable under goal-set changes).
pub fn alphabet<'a, 'b>(frag: &str, goals: &'a [GoalCtx<'b>], max: usize) -> Vec<&'a GoalCtx<'b>> {
    let wanted: &[&str] = match frag {
        "f0x" | "f0xco" => &["A: T0", "A: T2", "A: T1", "A: T3", "A: T0, A: T1", "A: T2, A: T0"],
        "f0" | "f0co" => &["A: T0", "A: T1", "A: T0, A: T1", "A: T2", "not { A: T0 }", "if (A: T2) { A: T0 }"],
        "f1b" => &[
            "exists<X0, X1> { X0: R<X1> }",
            "A: R<A>",
            "exists<X0> { A: R<X0> }",
            "S<A>: R<A>",
            "exists<X0> { X0: R<X0> }",
            "forall<K1_0> { exists<X0> { K1_0: R<X0> } }",
        ],
        _ => &[
            "S<S<A>>: T0",
            "S<A>: T0",
            "exists<X0> { X0: T0 }",
            "A: T0",
            "exists<X0> { S<X0>: T0 }",
            "forall<K1_0> { if (K1_0: T1) { S<K1_0>: T0 } }",
        ],
    };
    wanted
        .iter()
        .take(max)
        .filter_map(|w| goals.iter().find(|g| g.text == *w))
        .collect()
}

pub struct HistGoal<'a> {
    pub text: &'a str,
    pub peeled: &'a Peeled,
    /// root-cause discriminator appended to the site of violations on this goal
    /// (e.g. "/growing" when the goal's proof search exceeds the reference model's caps)
    pub tag: &'a str,
}

/// Breadth-first search over histories of `solve(g)`, g in `alpha`, on one
/// solver instance of configuration `cfg`, to closure. `expected[k]` is the
/// answer every transition solving `alpha[k]` must give.
#[allow(clippy::too_many_arguments)]
pub fn explore(
    rep: &Report,
    property: &str,
    local: &mut BTreeMap<String, u64>,
    chalk: &Arc<chalk_integration::program::Program>,
    prog_text: &str,
    alpha: &[HistGoal],
    expected: &[DSol],
    cfg: SolverCfg,
    class: &str,
) -> (usize, bool) {
    let mut seen: FxHashSet<String> = FxHashSet::default();
    let mut frontier: Vec<Vec<usize>> = vec![vec![]];
    seen.insert(AnySolver::new(cfg).fingerprint());
    let mut closure = false;
    let max_depth = alpha.len() + 2;
    let n = alpha.len();
    // operations: k < n = solve(alpha[k]); k >= n (SLG, goals with unknowns) = "the caller
    // enumerates answers of alpha[k - n] and stops after the first one" — an earlier use of the
    // same solver that leaves its tables partially filled. Only `solve` transitions are judged.
    let enum_ops: Vec<usize> = if cfg.is_slg() {
        (0..n).filter(|&k| !alpha[k].peeled.var_creation.is_empty()).map(|k| k + n).collect()
    } else {
        vec![]
    };
    let apply = |solver: &mut AnySolver, op: usize| -> bool {
        if op < n {
            solver.solve(&**chalk, &alpha[op].peeled.ugoal).0.is_ok()
        } else {
            solver.solve_multiple(&**chalk, &alpha[op - n].peeled.ugoal, &mut |_a, _next| false).0.is_ok()
        }
    };
    let op_text = |op: usize| -> String {
        if op < n {
            alpha[op].text.to_string()
        } else {
            format!("first answer of {}", alpha[op - n].text)
        }
    };
    for _depth in 0..max_depth {
        let mut next = vec![];
        for hist in &frontier {
            // state extenders that are not judged
            for &op in &enum_ops {
                let mut solver = AnySolver::new(cfg);
                if !hist.iter().all(|&h| apply(&mut solver, h)) {
                    rep.machinery_error(format!("replay of history {:?} diverged on {}", hist, prog_text));
                    continue;
                }
                *local.entry("enumeration_prefix_transitions".into()).or_insert(0) += 1;
                if apply(&mut solver, op) {
                    if seen.insert(solver.fingerprint()) {
                        let mut h = hist.clone();
                        h.push(op);
                        next.push(h);
                    }
                } else {
                    *local.entry("enumeration_prefix_not_returning(not judged here)".into()).or_insert(0) += 1;
                }
            }
            for (k, g) in alpha.iter().enumerate() {
                // rebuild the state by replaying the history on a fresh solver
                let mut solver = AnySolver::new(cfg);
                let mut diverged = false;
                for &h in hist {
                    *local.entry("replay_calls".into()).or_insert(0) += 1;
                    if !apply(&mut solver, h) {
                        diverged = true;
                        break;
                    }
                }
                if diverged {
                    rep.machinery_error(format!("replay of history {:?} diverged on {}", hist, prog_text));
                    continue;
                }
                let (r, _) = solver.solve(&**chalk, &g.peeled.ugoal);
                *local.entry("transitions".into()).or_insert(0) += 1;
                let hist_text = || hist.iter().map(|&h| op_text(h)).collect::<Vec<_>>();
                let input = || json!({"program": prog_text, "history": hist_text(), "goal": g.text, "solver": cfg.name()});
                let returned = r.is_ok();
                match decode_caught(chalk, g.peeled, r) {
                    Caught::Ok(ans) => {
                        if ans != expected[k] {
                            rep.violation(Violation {
                                property: property.into(),
                                kind: "answer-depends-on-history".into(),
                                site: if super::c13::trivial_unique_vs_unknown(&ans, &expected[k]) {
                                    format!("{}/trivial-unique-vs-unknown", cfg.short())
                                } else if cfg.is_slg() && super::c13::nonlinear_only(&ans, &expected[k]) {
                                    // D1's signature: guidance with a repeated variable vs. the same
                                    // guidance with the variables renamed apart (or none at all)
                                    format!("{}/nonlinear-only", cfg.short())
                                } else {
                                    // the direction of the change is part of the root-cause discriminator:
                                    // "a true goal is later refused" and "a false goal is later accepted"
                                    // are different defects even on the same class of program
                                    format!("{}/{}{}/fresh-{}-later-{}", cfg.short(), class, g.tag, expected[k].tag(), ans.tag())
                                },
                                what: format!(
                                    "{} after solving {:?}: `{}` -> {:?}, fresh solver -> {:?}",
                                    cfg.name(), hist_text(), g.text, ans, expected[k]
                                ),
                                input: input(),
                            });
                        }
                    }
                    Caught::Panic(loc, msg) => rep.violation(Violation {
                        property: property.into(),
                        kind: "panic-after-history".into(),
                        site: crate::report::panic_site(&loc, &msg),
                        what: format!("{} after solving {:?}: `{}` panics ({}) although it returns on a fresh solver", cfg.name(), hist_text(), g.text, msg),
                        input: input(),
                    }),
                    Caught::Budget => rep.violation(Violation {
                        property: property.into(),
                        kind: "runaway-after-history".into(),
                        site: format!("{}/{}{}", cfg.short(), class, g.tag),
                        what: format!("{} after solving {:?}: `{}` exceeds the tick budget although it returns on a fresh solver", cfg.name(), hist_text(), g.text),
                        input: input(),
                    }),
                    Caught::Injected => {}
                }
                if let Some((stack, graph)) = solver.rec_residue() {
                    if stack != 0 || graph != 0 {
                        rep.violation(Violation {
                            property: property.into(),
                            kind: "residue-between-calls".into(),
                            site: format!("recursive/{}", class),
                            what: format!("after `{}` the recursive solver keeps stack depth {} and {} search-graph nodes", g.text, stack, graph),
                            input: input(),
                        });
                    }
                }
                let fp = solver.fingerprint();
                if returned && seen.insert(fp) {
                    let mut h = hist.clone();
                    h.push(k);
                    next.push(h);
                }
            }
        }
        if next.is_empty() {
            closure = true;
            break;
        }
        frontier = next;
    }
    *local.entry("states".into()).or_insert(0) += seen.len() as u64;
    *local
        .entry(if closure { "searches_closed" } else { "searches_cut_at_depth" }.to_string())
        .or_insert(0) += 1;
    if seen.len() > 2 {
        *local.entry("searches_with_more_than_two_states".into()).or_insert(0) += 1;
    }
    rep.max("max_states_in_one_search", seen.len() as u64);
    (seen.len(), closure)
}

pub fn run_c10(rep: &Report) -> i32 {
    let thorough = rep.is_thorough();
    let mut corpora = core_corpora(thorough, if thorough { 0 } else { 1 });
    if !thorough {
        corpora.extend(f0x_corpora());
    }
    let gamma = if thorough { 5 } else { 4 };
    let cfgs = [SolverCfg::SLG, SolverCfg::REC, SolverCfg::REC_NOCACHE];
    for_each_program(rep, &corpora, |pc, goals| {
        let mut local: BTreeMap<String, u64> = BTreeMap::new();
        let alpha = alphabet(pc.frag, goals, gamma);
        if alpha.len() < 2 {
            return;
        }
        *local.entry("programs_explored".into()).or_insert(0) += 1;
        for cfg in cfgs {
            // fresh answers (per configuration)
            let mut fresh: Vec<DSol> = vec![];
            let mut ok = true;
            for g in &alpha {
                let (r, _) = drive::solve_fresh(&pc.chalk, &g.peeled, cfg);
                *local.entry("transitions".into()).or_insert(0) += 1;
                match r {
                    Caught::Ok(s) => fresh.push(s),
                    _ => {
                        ok = false;
                        break;
                    }
                }
            }
            if !ok {
                *local.entry("programs_with_a_non_returning_goal(skipped, C09)".into()).or_insert(0) += 1;
                continue;
            }
            // cache on/off agreement of fresh answers
            if cfg == SolverCfg::REC_NOCACHE {
                for (k, g) in alpha.iter().enumerate() {
                    let (r, _) = drive::solve_fresh(&pc.chalk, &g.peeled, SolverCfg::REC);
                    *local.entry("transitions".into()).or_insert(0) += 1;
                    if let Caught::Ok(on) = r {
                        if on != fresh[k] {
                            rep.violation(Violation {
                                property: "C10".into(),
                                kind: "cache-on-off-differ".into(),
                                site: format!("recursive/{}", pc.class),
                                what: format!("`{}`: cache on {:?}, cache off {:?}", g.text, on, fresh[k]),
                                input: pc.input(g, "recursive"),
                            });
                        }
                    }
                }
            }
            // goals whose proof search exceeds REF's caps (growing types): answers near the size limit
            let tags: Vec<&'static str> = alpha
                .iter()
                .zip(&fresh)
                .map(|(g, f)| {
                    let ac = crate::oracle::AnswerCheck { refm: &pc.refm, pa: &g.pa, peeled: &g.peeled, depth: 3, solver: cfg.short(), class: pc.class };
                    let (_, info) = ac.check(f);
                    if info.stats.capped { "/growing" } else { "" }
                })
                .collect();
            let hg: Vec<HistGoal> = alpha.iter().zip(&tags).map(|(g, t)| HistGoal { text: &g.text, peeled: &g.peeled, tag: t }).collect();
            let (n, closed) = explore(rep, "C10", &mut local, &pc.chalk, &pc.text, &hg, &fresh, cfg, pc.class);
            if pc.pi % 400 == 0 && cfg.is_slg() {
                rep.sample(json!({"program": pc.text, "alphabet": alpha.iter().map(|g| g.text.clone()).collect::<Vec<_>>(),
                    "solver": cfg.name(), "distinct_solver_states": n, "closed": closed}));
            }
        }
        rep.merge_counts(&local);
    });
    c01::vacuity(rep, &["searches_closed", "searches_with_more_than_two_states"]);
    let states = rep.get("states");
    let tr = rep.get("transitions") + rep.get("replay_calls");
    let nt = rep.get("searches_with_more_than_two_states");
    let cut = rep.get("searches_cut_at_depth");
    rep.finish(
        states,
        tr,
        nt,
        "for every program of the (reduced in quick) C01 corpus and each of SLG / recursive / recursive-without-cache: breadth-first search over histories of solve(g), g in an alphabet of 4 (quick) / 5 (thorough) goals sharing subgoals; a state is the history (rebuilt by replay on a fresh solver), deduplicated by the solver fingerprint (tables+strands / cache entries), explored until no new fingerprint appears; on every transition the answer must equal the fresh-solver answer and the recursive solver must keep no stack/search-graph residue; non-trivial = searches that reach more than two distinct solver states",
        cut == 0,
        &[
            "fingerprint canonicalization drops only forest-clock stamps of suspended strands (always smaller than any later clock value)",
            "goals that do not return on a fresh solver are C09's and are skipped here",
        ],
    )
}
