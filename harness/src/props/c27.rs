//! C27: in-place folding is memory-safe at every failure point.
//! Fault enumeration: every vector length x every failure position x
//! {success, Err, panic} x element layout pairs (and boxes), with per-element
//! drop logs and a counting allocator as oracles.

use crate::report::{Report, Violation};
use chalk_integration::interner::ChalkIr;
use chalk_ir::fold::verif_hooks::{fallible_map_box, fallible_map_vec};
use chalk_ir::fold::{FallibleTypeFolder, TypeFoldable};
use chalk_ir::*;
use serde_json::json;
use std::cell::{Cell, RefCell};
use std::panic::{catch_unwind, AssertUnwindSafe};

// ---------------------------------------------------------------------------
// counting allocator (installed as the global allocator in main.rs); counters
// are per thread so that parallel checks do not disturb each other.

pub struct CountingAlloc;

thread_local! {
    static ALLOCS: Cell<u64> = const { Cell::new(0) };
    static FREES: Cell<u64> = const { Cell::new(0) };
    static LIVE_BYTES: Cell<i64> = const { Cell::new(0) };
}

unsafe impl std::alloc::GlobalAlloc for CountingAlloc {
    unsafe fn alloc(&self, l: std::alloc::Layout) -> *mut u8 {
        let _ = ALLOCS.try_with(|c| c.set(c.get() + 1));
        let _ = LIVE_BYTES.try_with(|c| c.set(c.get() + l.size() as i64));
        std::alloc::System.alloc(l)
    }
    unsafe fn dealloc(&self, p: *mut u8, l: std::alloc::Layout) {
        let _ = FREES.try_with(|c| c.set(c.get() + 1));
        let _ = LIVE_BYTES.try_with(|c| c.set(c.get() - l.size() as i64));
        std::alloc::System.dealloc(p, l)
    }
    unsafe fn realloc(&self, p: *mut u8, l: std::alloc::Layout, new_size: usize) -> *mut u8 {
        let _ = LIVE_BYTES.try_with(|c| c.set(c.get() + new_size as i64 - l.size() as i64));
        std::alloc::System.realloc(p, l, new_size)
    }
}

fn live_bytes() -> i64 {
    LIVE_BYTES.with(|c| c.get())
}

/// Bytes still allocated relative to `before`, not counting the two drop logs themselves.
fn leak(before: i64, during: &Vec<u32>, after: &Vec<u32>) -> i64 {
    live_bytes() - before - ((during.capacity() + after.capacity()) * std::mem::size_of::<u32>()) as i64
}

// ---------------------------------------------------------------------------
// drop-logging elements

thread_local! {
    static DROPS: RefCell<Vec<u32>> = const { RefCell::new(Vec::new()) };
}

fn take_drops() -> Vec<u32> {
    DROPS.with(|d| std::mem::take(&mut *d.borrow_mut()))
}

/// Element with an id and a payload that fixes size and alignment; logs its id when dropped.
struct E<P> {
    id: u32,
    #[allow(dead_code)]
    payload: P,
}

impl<P> Drop for E<P> {
    fn drop(&mut self) {
        let id = self.id;
        DROPS.with(|d| d.borrow_mut().push(id));
    }
}

/// Moves the id into a new element without logging a drop of the old one.
fn convert<P, Q: Default>(e: E<P>) -> E<Q> {
    let id = e.id;
    std::mem::forget(e);
    E { id, payload: Q::default() }
}

/// Zero-sized element: logs 9999 when dropped.
struct Z;
impl Drop for Z {
    fn drop(&mut self) {
        DROPS.with(|d| d.borrow_mut().push(9999));
    }
}
struct Z2;
impl Drop for Z2 {
    fn drop(&mut self) {
        DROPS.with(|d| d.borrow_mut().push(9999));
    }
}

#[derive(Copy, Clone, Debug, PartialEq, Eq)]
enum Mode {
    Success,
    ErrAt(usize),
    PanicAt(usize),
}

struct Outcome {
    /// ids dropped during the call (in order)
    during: Vec<u32>,
    /// ids dropped when the returned value (if any) was dropped
    after: Vec<u32>,
    ok: bool,
    panicked: bool,
    leaked_bytes: i64,
    capacity_ok: bool,
}

fn mk_outcome(during: Vec<u32>, after: Vec<u32>, ok: bool, panicked: bool, before: i64, capacity_ok: bool) -> Outcome {
    let leaked_bytes = leak(before, &during, &after);
    Outcome { during, after, ok, panicked, leaked_bytes, capacity_ok }
}

/// Runs one vector scenario through the real `fallible_map_vec`.
fn run_vec<P: Default + 'static, Q: Default + 'static>(len: usize, extra_cap: usize, mode: Mode) -> Outcome {
    let _ = take_drops();
    let before = live_bytes();
    let mut v: Vec<E<P>> = Vec::with_capacity(len + extra_cap);
    for i in 0..len {
        v.push(E { id: i as u32, payload: P::default() });
    }
    let mut idx = 0usize;
    let r = catch_unwind(AssertUnwindSafe(|| {
        fallible_map_vec(v, |e: E<P>| -> Result<E<Q>, ()> {
            let i = idx;
            idx += 1;
            match mode {
                Mode::ErrAt(k) if k == i => Err(()), // `e` is dropped here, by the closure
                Mode::PanicAt(k) if k == i => panic!("injected"),
                _ => Ok(convert::<P, Q>(e)),
            }
        })
    }));
    let during = take_drops();
    let (ok, panicked, capacity_ok) = match r {
        Ok(Ok(out)) => {
            let cap_ok = out.len() == len;
            drop(out);
            (true, false, cap_ok)
        }
        Ok(Err(())) => (false, false, true),
        Err(payload) => {
            drop(payload);
            (false, true, true)
        }
    };
    let after = take_drops();
    crate::drive::clear_last_panic();
    mk_outcome(during, after, ok, panicked, before, capacity_ok)
}

fn run_vec_zst<Q: 'static>(len: usize, mode: Mode, mk: fn() -> Q) -> Outcome {
    let _ = take_drops();
    let before = live_bytes();
    let v: Vec<Z> = (0..len).map(|_| Z).collect();
    let mut idx = 0usize;
    let r = catch_unwind(AssertUnwindSafe(|| {
        fallible_map_vec(v, |e: Z| -> Result<Q, ()> {
            let i = idx;
            idx += 1;
            match mode {
                Mode::ErrAt(k) if k == i => Err(()),
                Mode::PanicAt(k) if k == i => panic!("injected"),
                _ => {
                    std::mem::forget(e);
                    Ok(mk())
                }
            }
        })
    }));
    let during = take_drops();
    let (ok, panicked) = match r {
        Ok(Ok(out)) => {
            drop(out);
            (true, false)
        }
        Ok(Err(())) => (false, false),
        Err(payload) => {
            drop(payload);
            (false, true)
        }
    };
    let after = take_drops();
    crate::drive::clear_last_panic();
    mk_outcome(during, after, ok, panicked, before, true)
}

fn run_box<P: Default + 'static, Q: Default + 'static>(mode: Mode) -> Outcome {
    let _ = take_drops();
    let before = live_bytes();
    let b: Box<E<P>> = Box::new(E { id: 0, payload: P::default() });
    let r = catch_unwind(AssertUnwindSafe(|| {
        fallible_map_box(b, |e: E<P>| -> Result<E<Q>, ()> {
            match mode {
                Mode::ErrAt(_) => Err(()),
                Mode::PanicAt(_) => panic!("injected"),
                Mode::Success => Ok(convert::<P, Q>(e)),
            }
        })
    }));
    let during = take_drops();
    let (ok, panicked) = match r {
        Ok(Ok(out)) => {
            drop(out);
            (true, false)
        }
        Ok(Err(())) => (false, false),
        Err(payload) => {
            drop(payload);
            (false, true)
        }
    };
    let after = take_drops();
    crate::drive::clear_last_panic();
    mk_outcome(during, after, ok, panicked, before, true)
}

/// Judges one outcome; returns a list of (kind, detail).
fn judge(len: usize, mode: Mode, o: &Outcome, zst_in: bool) -> Vec<(&'static str, String)> {
    let mut v = vec![];
    let expect_ok = mode == Mode::Success || matches!(mode, Mode::ErrAt(k) | Mode::PanicAt(k) if k >= len);
    if o.ok != expect_ok {
        v.push(("wrong-result", format!("ok={} expected {}", o.ok, expect_ok)));
    }
    if matches!(mode, Mode::PanicAt(k) if k < len) != o.panicked {
        v.push(("panic-not-propagated", format!("panicked={}", o.panicked)));
    }
    let mut all: Vec<u32> = o.during.iter().chain(o.after.iter()).cloned().collect();
    all.sort();
    let expected: Vec<u32> = if zst_in {
        vec![9999; len]
    } else {
        (0..len as u32).collect()
    };
    // On a panic the closure unwinds while holding element k: it is dropped by the unwinding closure frame.
    if all != expected {
        let kind = if all.len() < expected.len() {
            "element-leaked"
        } else if all.len() > expected.len() {
            "element-dropped-twice"
        } else {
            "wrong-elements-dropped"
        };
        v.push((kind, format!("dropped ids {:?} (during {:?}, after {:?}), expected each of {:?} exactly once", all, o.during, o.after, expected)));
    }
    if expect_ok && !o.during.is_empty() {
        v.push(("element-dropped-on-success", format!("ids {:?} were dropped although the map succeeded", o.during)));
    }
    if o.leaked_bytes != 0 {
        v.push(("memory-not-freed", format!("{} bytes still allocated after the call and the drop of its result", o.leaked_bytes)));
    }
    if !o.capacity_ok {
        v.push(("wrong-length", "result vector has the wrong length".into()));
    }
    v
}

// ---------------------------------------------------------------------------
// the public route: Vec<T> / Box<T>: TypeFoldable with a drop-logging T

thread_local! {
    static PLAN: Cell<(usize, u8, usize)> = const { Cell::new((usize::MAX, 0, 0)) }; // (fail index, 1=err 2=panic, counter)
}

#[derive(Debug)]
struct FT {
    id: u32,
}
impl Drop for FT {
    fn drop(&mut self) {
        let id = self.id;
        DROPS.with(|d| d.borrow_mut().push(id));
    }
}
impl TypeFoldable<ChalkIr> for FT {
    fn try_fold_with<Er>(self, folder: &mut dyn FallibleTypeFolder<ChalkIr, Error = Er>, outer_binder: DebruijnIndex) -> Result<Self, Er> {
        let (k, how, n) = PLAN.with(|p| p.get());
        PLAN.with(|p| p.set((k, how, n + 1)));
        if n == k {
            if how == 2 {
                panic!("injected");
            }
            // make the folder produce its error
            let dummy: Ty<ChalkIr> = TyKind::Never.intern(ChalkIr);
            folder.try_fold_ty(dummy, outer_binder)?;
        }
        Ok(self)
    }
}
struct FailingFolder;
impl FallibleTypeFolder<ChalkIr> for FailingFolder {
    type Error = ();
    fn as_dyn(&mut self) -> &mut dyn FallibleTypeFolder<ChalkIr, Error = ()> {
        self
    }
    fn try_fold_ty(&mut self, _ty: Ty<ChalkIr>, _b: DebruijnIndex) -> Result<Ty<ChalkIr>, ()> {
        Err(())
    }
    fn interner(&self) -> ChalkIr {
        ChalkIr
    }
}

fn run_public(len: usize, mode: Mode, boxed: bool) -> Outcome {
    let _ = take_drops();
    let before = live_bytes();
    let (k, how) = match mode {
        Mode::Success => (usize::MAX, 0),
        Mode::ErrAt(k) => (k, 1),
        Mode::PanicAt(k) => (k, 2),
    };
    PLAN.with(|p| p.set((k, how, 0)));
    let mut folder = FailingFolder;
    let r = if boxed {
        let b = Box::new(FT { id: 0 });
        catch_unwind(AssertUnwindSafe(|| b.try_fold_with(&mut folder, DebruijnIndex::INNERMOST).map(|b| vec![*b])))
    } else {
        let v: Vec<FT> = (0..len).map(|i| FT { id: i as u32 }).collect();
        catch_unwind(AssertUnwindSafe(|| v.try_fold_with(&mut folder, DebruijnIndex::INNERMOST)))
    };
    let during = take_drops();
    let (ok, panicked) = match r {
        Ok(Ok(out)) => {
            drop(out);
            (true, false)
        }
        Ok(Err(())) => (false, false),
        Err(payload) => {
            drop(payload);
            (false, true)
        }
    };
    let after = take_drops();
    crate::drive::clear_last_panic();
    mk_outcome(during, after, ok, panicked, before, true)
}

pub fn run_c27(rep: &Report) -> i32 {
    let thorough = rep.is_thorough();
    let max_len = if thorough { 9 } else { 6 };
    crate::drive::install_panic_hook();
    // everything on this one thread: the allocator counters are thread-local
    let mut record = |pair: &str, len: usize, cap: usize, mode: Mode, o: Outcome, zst: bool| {
        rep.count("executions", 1);
        rep.count(&format!("executions_{}", pair), 1);
        match mode {
            Mode::Success => rep.count("mode_success", 1),
            Mode::ErrAt(_) => rep.count("mode_error_return", 1),
            Mode::PanicAt(_) => rep.count("mode_panic", 1),
        }
        for (kind, detail) in judge(len, mode, &o, zst) {
            rep.violation(Violation {
                property: "C27".into(),
                kind: kind.into(),
                site: format!("{}/{}", pair, match mode { Mode::Success => "success", Mode::ErrAt(_) => "err", Mode::PanicAt(_) => "panic" }),
                what: format!("{} len={} spare_capacity={} {:?}: {}", pair, len, cap, mode, detail),
                input: json!({"pair": pair, "len": len, "spare_capacity": cap, "mode": format!("{:?}", mode)}),
            });
        }
    };
    let modes = |len: usize| -> Vec<Mode> {
        let mut m = vec![Mode::Success];
        for k in 0..len {
            m.push(Mode::ErrAt(k));
            m.push(Mode::PanicAt(k));
        }
        m
    };
    // quiet panics
    let run_quiet = |f: &mut dyn FnMut()| {
        let _ = crate::drive::guarded(|| f());
    };
    run_quiet(&mut || {
        for len in 0..=max_len {
            for cap in [0usize, 3] {
                for mode in modes(len) {
                    macro_rules! pair {
                        ($name:expr, $p:ty, $q:ty) => {
                            record($name, len, cap, mode, run_vec::<$p, $q>(len, cap, mode), false)
                        };
                    }
                    pair!("vec/same-type(u64->u64)", u64, u64);
                    pair!("vec/same-layout(u64->i64)", u64, i64);
                    pair!("vec/same-layout([u32;2]->(u32,u32))", [u32; 2], (u32, u32));
                    pair!("vec/bigger(u32->[u64;2])", u32, [u64; 2]);
                    pair!("vec/smaller([u64;2]->u8)", [u64; 2], u8);
                    pair!("vec/same-size-other-align(u64->[u32;3])", u64, [u32; 3]);
                    pair!("vec/other-align([u32;3]->u64)", [u32; 3], u64);
                    pair!("vec/payload-zst(()->())", (), ());
                }
            }
            for mode in modes(len) {
                record("vec/zst->zst", len, 0, mode, run_vec_zst::<Z2>(len, mode, || Z2), true);
                record("vec/zst->nonzst", len, 0, mode, run_vec_zst::<E<u64>>(len, mode, || E { id: 9999, payload: 7u64 }), true);
                record("public/Vec<T>::try_fold_with", len, 0, mode, run_public(len, mode, false), false);
            }
        }
        for mode in [Mode::Success, Mode::ErrAt(0), Mode::PanicAt(0)] {
            record("box/same-type", 1, 0, mode, run_box::<u64, u64>(mode), false);
            record("box/same-layout", 1, 0, mode, run_box::<u64, i64>(mode), false);
            record("box/bigger", 1, 0, mode, run_box::<u32, [u64; 2]>(mode), false);
            record("box/other-align", 1, 0, mode, run_box::<u64, [u32; 3]>(mode), false);
            record("box/payload-zst", 1, 0, mode, run_box::<(), ()>(mode), false);
            record("public/Box<T>::try_fold_with", 1, 0, mode, run_public(1, mode, true), false);
        }
    });
    if thorough {
        // the same enumeration replayed under Miri (an interpreter that detects use of
        // freed/uninitialised memory, double frees and leaks on each enumerated execution)
        let dir = crate::report::verif_dir().join("harness-miri");
        let out = std::process::Command::new("cargo")
            .args(["+nightly", "miri", "run", "--offline"])
            .current_dir(&dir)
            .env("CARGO_NET_OFFLINE", "true")
            .env("MIRIFLAGS", "-Zmiri-disable-isolation")
            .env("C27_MAX_LEN", "5")
            .output();
        match out {
            Ok(o) => {
                let stdout = String::from_utf8_lossy(&o.stdout).to_string();
                let stderr = String::from_utf8_lossy(&o.stderr).to_string();
                let done = stdout.lines().find_map(|l| l.strip_prefix("DONE ").and_then(|n| n.trim().parse::<u64>().ok()));
                match (o.status.success(), done) {
                    (true, Some(n)) => {
                        rep.count("miri_executions", n);
                        rep.note("miri", json!("cargo +nightly miri run: all enumerated executions free of undefined behaviour and leaks"));
                    }
                    _ => {
                        let tail: Vec<&str> = stderr.lines().filter(|l| !l.starts_with("warning") && !l.trim().is_empty()).collect();
                        let tail = tail[tail.len().saturating_sub(25)..].join("\n");
                        if stderr.contains("Undefined Behavior") || stderr.contains("memory leaked") || stderr.contains("error: ") && stderr.contains("Miri") {
                            rep.violation(Violation {
                                property: "C27".into(),
                                kind: "miri-undefined-behaviour".into(),
                                site: "miri".into(),
                                what: format!("Miri rejects an enumerated execution of the in-place map: {}", tail.replace('\n', " | ")),
                                input: json!({"cmd": "cd harness-miri && C27_MAX_LEN=5 cargo +nightly miri run --offline", "stderr_tail": tail}),
                            });
                        } else {
                            rep.note("miri", json!(format!("miri replay did not run to completion (not a verdict): {}", tail)));
                        }
                    }
                }
            }
            Err(e) => rep.note("miri", json!(format!("cargo +nightly miri not available: {}", e))),
        }
    }
    rep.sample(json!({"pair": "vec/same-layout(u64->i64)", "len": 4, "mode": "ErrAt(2)", "expected": "ids 0,1 (already mapped) and 3 (unmapped) dropped by the cleanup, id 2 by the closure, storage freed, Err returned"}));
    rep.sample(json!({"pair": "vec/bigger(u32->[u64;2])", "len": 3, "mode": "PanicAt(0)", "expected": "fallback path (collect): every id dropped exactly once, panic propagates"}));
    rep.sample(json!({"pair": "box/same-layout", "mode": "PanicAt(0)", "expected": "the boxed value is dropped by the unwinding closure, the allocation is freed, nothing is dropped twice"}));
    crate::props::c01::vacuity(rep, &["mode_success", "mode_error_return", "mode_panic"]);
    let n = rep.get("executions");
    let nt = rep.get("mode_error_return") + rep.get("mode_panic");
    rep.finish(
        n,
        n,
        nt,
        "every vector length 0..6 (thorough 0..9) x spare capacity {0,3} x every outcome schedule (success, Err at position k, panic at position k, for every k) x 8 element layout pairs (same type, same layout, bigger, smaller, same size with other alignment both ways, zero-sized payload) plus ZST->ZST, ZST->non-ZST, boxes in 5 layout pairs, and the public route Vec<T>/Box<T>: TypeFoldable with a drop-logging T and a folder whose error is injected at element k; oracles: each element dropped exactly once (none during a successful call), panic/error propagated, and the thread's live heap bytes return to the starting value; non-trivial = executions with an injected failure",
        true,
        &[
            "drop logs and allocator counters are thread-local; the whole check runs on one thread",
            "undefined behaviour that neither double-drops, leaks nor corrupts the allocator's accounting is outside this oracle (a Miri replay of the same enumeration is the thorough-tier extension when available)",
        ],
    )
}
