//! C04: the two solvers never contradict each other (no reference semantics needed).

use super::*;
use crate::drive::{Caught, DArg, DSol, DSubst, SolverCfg};
use crate::report::Violation;
use std::collections::BTreeMap;

/// Shape of a goal given as text (quantifier prefix stripped): hyp-?(atom|conj|not|eq), as in
/// `ast::goal_shape` — part of the site so that a defect of one shape cannot absorb another.
pub fn text_shape(goal: &str) -> String {
    let mut g = goal.trim();
    let mut hyp = false;
    loop {
        let is_q = g.starts_with("exists<") || g.starts_with("forall<");
        let is_if = g.starts_with("if (") || g.starts_with("if(");
        if !(is_q || is_if) {
            break;
        }
        hyp |= is_if;
        match g.find('{') {
            Some(i) => g = g[i + 1..].trim(),
            None => break,
        }
    }
    let body = g.trim_end_matches(|c: char| c == '}' || c.is_whitespace());
    let mut depth = 0i32;
    let mut conj = false;
    let mut prev = ' ';
    for ch in body.chars() {
        match ch {
            '<' | '(' | '[' | '{' => depth += 1,
            '>' if prev == '-' => {}
            '>' | ')' | ']' | '}' => depth -= 1,
            ',' | ';' if depth == 0 => conj = true,
            _ => {}
        }
        prev = ch;
    }
    let shape = if conj {
        "conj"
    } else if body.starts_with("not") {
        "not"
    } else if body.contains(" = ") && !body.contains(": ") {
        "eq"
    } else {
        "atom"
    };
    format!("{}{}", if hyp { "hyp-" } else { "" }, shape)
}

/// Is `inst` an instance of pattern `pat` (pattern's bound variables are the unknowns)?
pub fn subst_instance(pat: &DSubst, inst: &DSubst) -> bool {
    if pat.args.len() != inst.args.len() {
        return false;
    }
    let mut s = BTreeMap::new();
    let mut ls: BTreeMap<String, String> = BTreeMap::new();
    for (p, i) in pat.args.iter().zip(&inst.args) {
        match (p, i) {
            (DArg::Ty(a), DArg::Ty(b)) => {
                if !a.match_into(b, &mut s) {
                    return false;
                }
            }
            (DArg::Lifetime(a), DArg::Lifetime(b)) | (DArg::Const(a), DArg::Const(b)) => {
                if a.starts_with("'^") || a.starts_with("c^") {
                    match ls.get(a) {
                        Some(prev) => {
                            if prev != b {
                                return false;
                            }
                        }
                        None => {
                            ls.insert(a.clone(), b.clone());
                        }
                    }
                } else if a != b {
                    return false;
                }
            }
            _ => return false,
        }
    }
    true
}

/// Compares two answers; returns (kind, detail) for each incompatibility.
pub fn compare(slg: &DSol, rec: &DSol, lifetimes_in_types: bool) -> Vec<(String, String)> {
    let mut out = vec![];
    match (slg, rec) {
        (DSol::NoSolution, DSol::Unique(_)) | (DSol::Unique(_), DSol::NoSolution) => {
            out.push(("none-vs-unique".into(), format!("slg={} recursive={}", slg.tag(), rec.tag())));
        }
        (DSol::Unique(a), DSol::Unique(b)) => {
            if !lifetimes_in_types && (a.args != b.args || a.binders != b.binders) {
                out.push((
                    "unique-substitutions-differ".into(),
                    format!("slg={:?} recursive={:?}", a.args, b.args),
                ));
            }
        }
        (DSol::Unique(u), DSol::Definite(d)) | (DSol::Definite(d), DSol::Unique(u)) => {
            if !lifetimes_in_types && !subst_instance(d, u) {
                out.push((
                    "unique-not-instance-of-definite".into(),
                    format!("unique={:?} definite={:?}", u.args, d.args),
                ));
            }
        }
        _ => {}
    }
    out
}

/// Is the incompatibility explained by a repeated variable alone (D1)?
fn nonlinear_only(d: &DSubst, u: &DSubst) -> bool {
    let pat: Vec<Ty> = d
        .args
        .iter()
        .filter_map(|a| match a {
            DArg::Ty(t) => Some(t.clone()),
            _ => None,
        })
        .collect();
    let inst: Vec<Ty> = u
        .args
        .iter()
        .filter_map(|a| match a {
            DArg::Ty(t) => Some(t.clone()),
            _ => None,
        })
        .collect();
    pat.len() == d.args.len() && inst.len() == u.args.len() && crate::refsem::is_linear_instance(&pat, &inst)
}

pub fn cross_check(
    rep: &Report,
    local: &mut BTreeMap<String, u64>,
    program: &std::sync::Arc<chalk_integration::program::Program>,
    peeled: &crate::drive::Peeled,
    class: &str,
    goal_text: &str,
    input: serde_json::Value,
) {
    let (s, _) = drive::solve_fresh(program, peeled, SolverCfg::SLG);
    let (r, _) = drive::solve_fresh(program, peeled, SolverCfg::REC);
    *local.entry("solver_calls".into()).or_insert(0) += 2;
    let (s, r) = match (s, r) {
        (Caught::Ok(s), Caught::Ok(r)) => (s, r),
        _ => {
            *local.entry("panics_or_budget(judged by C09)".into()).or_insert(0) += 1;
            return;
        }
    };
    *local.entry(format!("pair_{}_{}", s.tag(), r.tag())).or_insert(0) += 1;
    if !(matches!(s, DSol::Unknown | DSol::Suggested(_)) || matches!(r, DSol::Unknown | DSol::Suggested(_))) {
        *local.entry("comparable_pairs".into()).or_insert(0) += 1;
    }
    for (kind, detail) in compare(&s, &r, false) {
        let site = if kind == "unique-not-instance-of-definite" {
            let nl = match (&s, &r) {
                (DSol::Definite(d), DSol::Unique(u)) | (DSol::Unique(u), DSol::Definite(d)) => nonlinear_only(d, u),
                _ => false,
            };
            if nl {
                "nonlinear-only".to_string()
            } else {
                format!("structural/{}", class)
            }
        } else {
            format!("{}/{}", class, text_shape(goal_text))
        };
        rep.violation(Violation {
            property: "C04".into(),
            kind,
            site,
            what: format!("`{}`: {}", goal_text, detail),
            input: input.clone(),
        });
    }
}

pub fn run_c04(rep: &Report) -> i32 {
    let thorough = rep.is_thorough();
    let corpora = core_corpora(thorough, 0);
    for_each_program(rep, &corpora, |pc, goals| {
        let mut local = BTreeMap::new();
        for g in goals {
            *local.entry("cases".into()).or_insert(0) += 1;
            cross_check(rep, &mut local, &pc.chalk, &g.peeled, pc.class, &g.text, pc.input(g, "both"));
            if pc.pi % 1999 == 0 && g.gi % 9 == 0 {
                rep.sample(json!({"program": pc.text, "goal": g.text}));
            }
        }
        rep.merge_counts(&local);
    });
    // text-level corpora (associated types, auto traits, built-ins, lifetimes, custom clauses)
    let texts = super::textcorpus::all(thorough);
    rep.count("text_programs", texts.len() as u64);
    use rayon::prelude::*;
    texts.par_iter().for_each(|tc| {
        let mut local = BTreeMap::new();
        let program = match drive::load_program(&tc.program) {
            Ok(p) => p,
            Err(_) => {
                rep.count("text_programs_rejected_by_lowering", 1);
                return;
            }
        };
        for gt in &tc.goals {
            let peeled = match drive::peel(&program, gt) {
                Ok(p) => p,
                Err(_) => continue,
            };
            *local.entry("cases".into()).or_insert(0) += 1;
            *local.entry(format!("cases_{}", tc.family)).or_insert(0) += 1;
            cross_check(
                rep,
                &mut local,
                &program,
                &peeled,
                tc.family,
                gt,
                json!({"family": tc.family, "program": tc.program, "goal": gt, "solver": "both"}),
            );
        }
        rep.merge_counts(&local);
    });
    c01::vacuity(rep, &["comparable_pairs", "pair_Unique_Unique", "pair_None_None"]);
    let cases = rep.get("cases");
    let calls = rep.get("solver_calls");
    let nt = rep.get("comparable_pairs");
    rep.finish(
        cases,
        calls,
        nt,
        "every (program, goal) of the C01 corpus plus the text-level families (associated types, auto traits, built-in traits, lifetimes, custom clauses) solved by a fresh SLG and a fresh recursive solver; non-trivial = both answers make a claim (neither is Ambig(Unknown)/Suggested)",
        true,
        &["no reference semantics: the oracle is mutual consistency only; lifetime constraints are not compared"],
    )
}
