//! C24 — "Parsing and lowering never crash".
//!
//! For any input text, parsing a program / goal / type and lowering it either
//! succeeds or returns an error; it never panics.
//!
//! Three bounded-exhaustive families (smallest first):
//!  (a) ALL strings up to a length over a representative alphabet of single
//!      characters (letters, digit, every punctuation class of the lexer, space,
//!      NUL, a 2-byte char and U+FFFD). `&str` can only carry valid UTF-8, so
//!      invalid byte sequences cannot reach the API at all; U+FFFD is exactly
//!      what `String::from_utf8_lossy` turns every invalid byte into, and `é`
//!      exercises multi-byte offsets.
//!  (b) ALL token sequences up to a length over the grammar's vocabulary
//!      spliced into every "hole" of a valid skeleton (program holes and goal
//!      holes).
//!  (c) ~40 well-formed template programs (+ goals) with ONE edit applied at
//!      every possible position (replace a name by every other name of the
//!      program / an unknown name / a lifetime / a number, drop / duplicate /
//!      add generic arguments, delete / duplicate members, fields, items,
//!      inject every attribute, insert `!`/`const`/..., delete every token).
//!
//! Two observation levels.  `chalk_parse::parse_*` build a fresh lalrpop parser
//! (regex-set compile, ~3 ms) per call and then only format the error.  The
//! CORE level therefore drives persistent `chalk_parse::parser::{Program,Goal,
//! Ty}Parser` objects (the very same generated tables, lexer and grammar
//! actions) + the real `Lower::lower` / `lower_goal` on EVERY input; the API
//! level (`chalk_parse::parse_program|parse_goal|parse_ty`, `program_ir` and
//! `checked_program` through `ChalkDatabase::with`) runs on every input that
//! gets past the parser and on every input of a smaller sub-bound.
//!
//! Every shard of inputs runs in a CHILD PROCESS of this binary (selected by
//! the environment variable `VERIF_C24_SHARD`), so stack overflows / aborts
//! are observed as an abnormal child exit and attributed by bisection.

use crate::drive::{guarded, Caught};
use crate::report::{panic_site, Report, Violation};
use chalk_integration::db::ChalkDatabase;
use chalk_integration::lowering::{lower_goal, Lower};
use chalk_integration::program::Program;
use chalk_integration::query::LoweringDatabase;
use chalk_integration::SolverChoice;
use rayon::prelude::*;
use serde_json::{json, Value};
use std::collections::{BTreeMap, BTreeSet, HashMap, HashSet};
use std::io::Read;
use std::sync::Arc;
use std::time::{Duration, Instant};

const ENV_SHARD: &str = "VERIF_C24_SHARD";

// ---------------------------------------------------------------------------
// token-level helpers (used by families (b) and (c))

type Tok = &'static str;

/// tokens are interned (leaked once per distinct spelling; the set is small and bounded)
fn intern(s: &str) -> Tok {
    use std::sync::Mutex;
    static SET: Mutex<Option<HashSet<&'static str>>> = Mutex::new(None);
    let mut g = SET.lock().unwrap();
    let set = g.get_or_insert_with(HashSet::new);
    if let Some(t) = set.get(s) {
        return t;
    }
    let t: &'static str = Box::leak(s.to_string().into_boxed_str());
    set.insert(t);
    t
}

fn lex(s: &str) -> Vec<Tok> {
    let cs: Vec<char> = s.chars().collect();
    let mut out: Vec<Tok> = vec![];
    let mut i = 0;
    let idc = |c: char| c.is_ascii_alphanumeric() || c == '_';
    while i < cs.len() {
        let c = cs[i];
        if c.is_whitespace() {
            i += 1;
        } else if c.is_ascii_alphabetic() || c == '_' {
            let j = (i..cs.len()).find(|&j| !idc(cs[j])).unwrap_or(cs.len());
            out.push(intern(&cs[i..j].iter().collect::<String>()));
            i = j;
        } else if c == '\'' {
            let j = (i + 1..cs.len()).find(|&j| !idc(cs[j])).unwrap_or(cs.len());
            out.push(intern(&cs[i..j].iter().collect::<String>()));
            i = j;
        } else if c.is_ascii_digit() {
            let j = (i..cs.len()).find(|&j| !cs[j].is_ascii_digit()).unwrap_or(cs.len());
            out.push(intern(&cs[i..j].iter().collect::<String>()));
            i = j;
        } else if c == '-' && cs.get(i + 1) == Some(&'>') {
            out.push("->");
            i += 2;
        } else if c == ':' && cs.get(i + 1) == Some(&':') {
            out.push("::");
            i += 2;
        } else if c == '.' && cs.get(i + 1) == Some(&'.') && cs.get(i + 2) == Some(&'.') {
            out.push("...");
            i += 3;
        } else {
            out.push(intern(&c.to_string()));
            i += 1;
        }
    }
    out
}

fn render(t: &[Tok]) -> String {
    t.join(" ")
}

const KEYWORDS: &[&str] = &[
    "struct", "enum", "trait", "impl", "where", "for", "forall", "exists", "if", "not", "compatible", "type",
    "opaque", "fn", "extern", "closure", "coroutine", "dyn", "mut", "const", "unsafe", "as", "default", "static",
    "self", "resume", "yield", "upvars", "witnesses", "int", "float", "WellFormed", "FromEnv", "Normalize",
    "IsLocal", "IsUpstream", "IsFullyVisible", "LocalImplAllowed", "Compatible", "DownstreamType", "Reveal",
    "ObjectSafe", "Subtype",
];

fn is_name(t: &str) -> bool {
    let c = t.chars().next().unwrap_or(' ');
    (c.is_ascii_alphabetic() || c == '_' || c == '\'' || c.is_ascii_digit()) && !KEYWORDS.contains(&t)
}

/// tokens inside `# [ ... ]` are frozen for name-level edits
fn frozen(t: &[Tok]) -> Vec<bool> {
    let mut f = vec![false; t.len()];
    let mut i = 0;
    while i < t.len() {
        if t[i] == "#" && t.get(i + 1).map(|s| *s == "[").unwrap_or(false) {
            let mut d = 0i32;
            let mut j = i + 1;
            while j < t.len() {
                if t[j] == "[" {
                    d += 1;
                } else if t[j] == "]" {
                    d -= 1;
                    if d == 0 {
                        break;
                    }
                }
                j += 1;
            }
            let j = j.min(t.len() - 1);
            for k in i..=j {
                f[k] = true;
            }
            i = j + 1;
        } else {
            i += 1;
        }
    }
    f
}

fn opener(t: &str) -> Option<&'static str> {
    match t {
        "<" => Some(">"),
        "(" => Some(")"),
        "[" => Some("]"),
        "{" => Some("}"),
        _ => None,
    }
}

/// (open index, close index) of every well-nested bracket group
fn groups(t: &[Tok]) -> Vec<(usize, usize)> {
    let mut st: Vec<(usize, &'static str)> = vec![];
    let mut out = vec![];
    for (i, x) in t.iter().enumerate() {
        if let Some(c) = opener(x) {
            st.push((i, c));
        } else if matches!(*x, ">" | ")" | "]" | "}") {
            match st.pop() {
                Some((o, c)) if c == *x => out.push((o, i)),
                _ => return out, // unbalanced: stop
            }
        }
    }
    out.sort();
    out
}

/// splits the inside of a group into (element tokens, following separator or "")
fn elements(t: &[Tok], o: usize, c: usize) -> Vec<(Vec<Tok>, Tok)> {
    let mut out = vec![];
    let mut cur = vec![];
    let mut d = 0i32;
    for x in &t[o + 1..c] {
        if opener(x).is_some() {
            d += 1;
        } else if matches!(*x, ">" | ")" | "]" | "}") {
            d -= 1;
        }
        if d == 0 && (*x == "," || *x == ";") {
            out.push((std::mem::take(&mut cur), *x));
        } else {
            cur.push(*x);
        }
    }
    if !cur.is_empty() {
        out.push((cur, ""));
    }
    out
}

fn rebuild(t: &[Tok], o: usize, c: usize, els: &[(Vec<Tok>, Tok)]) -> Vec<Tok> {
    let mut v: Vec<Tok> = t[..=o].to_vec();
    for (e, s) in els {
        v.extend(e.iter().cloned());
        if !s.is_empty() {
            v.push(*s);
        }
    }
    v.extend(t[c..].iter().cloned());
    v
}

const EXTRA_ARGS: &[&str] = &["u8", "'static", "7", "Zz"];
const INSERTS: &[&str] = &["!", "const", "default", "static"];
const ATTRS: &[&str] = &[
    "#[auto]", "#[marker]", "#[upstream]", "#[fundamental]", "#[non_enumerable]", "#[coinductive]",
    "#[object_safe]", "#[phantom_data]", "#[one_zst]", "#[lang(sized)]", "#[lang(copy)]", "#[lang(fn_once)]",
    "#[repr(C)]", "#[repr(u8)]", "#[repr(Zz)]", "#[variance(Covariant)]", "#[variance(Invariant, Contravariant)]",
    "#[variance()]", "#[lang(async_fn_once_output)]",
];

/// Every single-edit variant of `t`; `items` = token ranges of top-level items (programs only).
fn mutants(t: &[Tok], pool: &[Tok], items: &[(usize, usize)], out: &mut Vec<(&'static str, Vec<Tok>)>) {
    let fr = frozen(t);
    // replace every name occurrence by every pool element
    for i in 0..t.len() {
        if fr[i] || !is_name(&t[i]) {
            continue;
        }
        for p in pool {
            if *p != t[i] {
                let mut v = t.to_vec();
                v[i] = *p;
                out.push(("replace-name", v));
            }
        }
    }
    // bracket groups: drop / duplicate elements, extra args, remove / empty group
    for (o, c) in groups(t) {
        if fr[o] {
            continue;
        }
        let els = elements(t, o, c);
        for k in 0..els.len() {
            let mut e = els.clone();
            e.remove(k);
            if k == els.len() - 1 && k > 0 && els[k].1.is_empty() {
                e[k - 1].1 = "";
            }
            out.push(("drop-element", rebuild(t, o, c, &e)));
            let mut e = els.clone();
            let sep = if !els[k].1.is_empty() {
                els[k].1
            } else if k > 0 {
                els[k - 1].1
            } else {
                ","
            };
            e[k].1 = sep;
            e.insert(k + 1, els[k].clone());
            out.push(("duplicate-element", rebuild(t, o, c, &e)));
        }
        if t[o] == "<" {
            for x in EXTRA_ARGS {
                let mut e = els.clone();
                if let Some(l) = e.last_mut() {
                    if l.1.is_empty() {
                        l.1 = ",";
                    }
                }
                e.push((vec![*x], ""));
                out.push(("extra-arg-last", rebuild(t, o, c, &e)));
                let mut e = els.clone();
                e.insert(0, (vec![*x], if els.is_empty() { "" } else { "," }));
                out.push(("extra-arg-first", rebuild(t, o, c, &e)));
            }
            let mut v = t[..o].to_vec();
            v.extend(t[c + 1..].iter().cloned());
            out.push(("remove-arg-list", v));
        }
        if !els.is_empty() {
            out.push(("empty-group", rebuild(t, o, c, &[])));
        }
    }
    // add an argument list to a name that has none
    for i in 0..t.len() {
        if fr[i] || !is_name(&t[i]) || t[i].starts_with('\'') || t.get(i + 1).map(|s| *s == "<").unwrap_or(false) {
            continue;
        }
        for x in ["u8", "'static", "7"] {
            let mut v = t[..=i].to_vec();
            v.extend(["<", x, ">"]);
            v.extend(t[i + 1..].iter().cloned());
            out.push(("add-arg-list", v));
        }
    }
    // delete every token; insert small tokens at every gap
    for i in 0..t.len() {
        let mut v = t.to_vec();
        v.remove(i);
        out.push(("delete-token", v));
    }
    for i in 0..=t.len() {
        for x in INSERTS {
            let mut v = t[..i].to_vec();
            v.push(*x);
            v.extend(t[i..].iter().cloned());
            out.push(("insert-token", v));
        }
    }
    // items: duplicate, duplicate under a fresh name, inject attributes
    for &(a, b) in items {
        let mut v = t.to_vec();
        v.extend(t[a..b].iter().cloned());
        out.push(("duplicate-item", v));
        let kw = (a..b).find(|&i| {
            !fr[i] && matches!(t[i], "struct" | "enum" | "trait" | "fn" | "closure" | "coroutine" | "type")
        });
        if let Some(k) = kw {
            let n = (k + 1..b).find(|&i| t[i] != "static");
            if let Some(n) = n {
                let mut v = t.to_vec();
                let mut it = t[a..b].to_vec();
                it[n - a] = "Zz";
                v.extend(it);
                out.push(("duplicate-item-renamed", v));
            }
        }
        // attribute at every gap of the item's attribute prefix (up to its first non-frozen token)
        let first = (a..b).find(|&i| !fr[i]).unwrap_or(a);
        let mut gaps = vec![a];
        for i in a..first {
            if t[i] == "]" {
                gaps.push(i + 1);
            }
        }
        gaps.dedup();
        for g in gaps {
            for at in ATTRS {
                let mut v = t[..g].to_vec();
                v.extend(lex(at));
                v.extend(t[g..].iter().cloned());
                out.push(("add-attribute", v));
            }
        }
    }
}

fn name_pool(toks: &[&[Tok]]) -> Vec<Tok> {
    let mut set = BTreeSet::new();
    for t in toks {
        let fr = frozen(t);
        for (i, x) in t.iter().enumerate() {
            if !fr[i] && is_name(x) && !x.chars().next().unwrap().is_ascii_digit() {
                set.insert(*x);
            }
        }
    }
    for x in ["Zz", "'zz", "u8", "7", "Self"] {
        set.insert(x);
    }
    set.into_iter().collect()
}

// ---------------------------------------------------------------------------
// family (c): templates

struct Template {
    name: &'static str,
    items: &'static [&'static str],
    goals: &'static [&'static str],
}

const TEMPLATES: &[Template] = &[
    Template { name: "struct-basic", items: &["struct Foo { }", "struct Bar<T> { f: T, g: Foo }"],
        goals: &["WellFormed(Bar<Foo>)", "Bar<Foo> = Bar<Foo>"] },
    Template { name: "struct-lifetime-const", items: &["struct Ref<'a, T> { r: &'a T }", "struct Arr<T, const N> { a: [T; N], b: [u8; 3] }"],
        goals: &["forall<'a> { WellFormed(Ref<'a, u8>) }", "exists<const N> { Arr<u8, N> = Arr<u8, 3> }"] },
    Template { name: "enum", items: &["enum Opt<T> { None, Some(T), Rec { x: T, y: Opt<T> } }"],
        goals: &["forall<T> { WellFormed(Opt<T>) }"] },
    Template { name: "trait-impl", items: &["trait Clone { }", "struct Foo { }", "impl Clone for Foo { }"],
        goals: &["Foo: Clone", "not { Foo: Clone }", "compatible { Foo: Clone }"] },
    Template { name: "trait-params-where", items: &["trait Eq<T> { }", "trait Ord<T> where Self: Eq<T> { }", "trait Sub where Self: Eq<u8> { }", "struct A { }", "impl Eq<A> for A { }", "impl Ord<A> for A { }"],
        goals: &["A: Ord<A>", "exists<T> { A: Eq<T> }", "WellFormed(A: Ord<A>)", "FromEnv(A: Eq<A>)"] },
    Template { name: "generic-impl", items: &["trait Tr { }", "struct Vec<T> { }", "impl<T> Tr for Vec<T> where T: Tr { }"],
        goals: &["forall<T> { if (T: Tr) { Vec<T>: Tr } }", "forall<T> { if (forall<U> { U: Tr :- U: Tr }) { Vec<T>: Tr } }"] },
    Template { name: "assoc-type", items: &["trait Iter { type Item; }", "struct V<T> { }", "impl<T> Iter for V<T> { type Item = T; }"],
        goals: &["exists<U> { Normalize(<V<u8> as Iter>::Item -> U) }", "<V<u8> as Iter>::Item = u8", "V<u8>: Iter<Item = u8>"] },
    Template { name: "gat-lifetime", items: &["trait Lend { type Out<'a>; }", "struct S { }", "impl Lend for S { type Out<'a> = &'a S; }"],
        goals: &["forall<'a> { exists<U> { Normalize(<S as Lend>::Out<'a> -> U) } }", "forall<'a> { S: Lend<Out<'a> = &'a S> }"] },
    Template { name: "gat-type", items: &["trait Fam { type M<T>; }", "struct VecFam { }", "struct Vec<T> { }", "impl Fam for VecFam { type M<T> = Vec<T>; }"],
        goals: &["forall<T> { <VecFam as Fam>::M<T> = Vec<T> }"] },
    Template { name: "assoc-bounds", items: &["trait Cl { }", "trait It { type Item: Cl where Self: Cl; }", "struct S { }", "impl Cl for S { }", "impl It for S { type Item = S; }"],
        goals: &["<S as It>::Item: Cl"] },
    Template { name: "assoc-bounds-quantified", items: &["trait Rf<'a> { }", "trait Iter { type Item; }", "trait It2 { type A: forall<'a> Rf<'a>; type B: Iter<Item = u8> + Iter; }"],
        goals: &["forall<T> { if (T: It2) { <T as It2>::B: Iter } }"] },
    Template { name: "projection-eq-where", items: &["trait It { type Item; }", "struct W<I> where I: It<Item = u8> { }", "struct X<I> where I: It { f: <I as It>::Item }"],
        goals: &["forall<I> { if (I: It<Item = u8>) { WellFormed(W<I>) } }"] },
    Template { name: "opaque", items: &["trait Cl { }", "struct Ty { }", "struct Vec<T> { }", "impl Cl for Ty { }", "opaque type T1: Cl = Ty;", "opaque type T2<U>: Cl = Vec<U>;"],
        goals: &["T1: Cl", "forall<U> { T2<U>: Cl }", "if (Reveal) { T1 = Ty }"] },
    Template { name: "opaque-bounds-where", items: &["trait Cl { }", "trait Iter { type Item; }", "struct Vec<T> { }", "opaque type O<T>: Iter<Item = T> + Cl where T: Cl = Vec<T>;"],
        goals: &["forall<T> { O<T>: Cl }"] },
    Template { name: "fn-def", items: &["trait Cl { }", "struct S { }", "fn foo<T>(a: T, b: u8) -> T where T: Cl;", "unsafe extern \"C\" fn bar<'a>(a: &'a u8, b: ...);"],
        goals: &["foo<S>: Cl", "forall<'a> { WellFormed(bar<'a>) }"] },
    Template { name: "fn-pointers", items: &["struct S<'a> { f: fn(u8) -> u8, g: for<'b> fn(&'b u8) -> &'b u8, h: unsafe extern \"C\" fn(u8, ...), i: fn(&'a u8) }"],
        goals: &["forall<'a> { WellFormed(S<'a>) }", "for<'b> fn(&'b u8) = fn(u8)"] },
    Template { name: "closure", items: &["struct S { }", "closure foo(self, a: u8) -> u8 { S; u8 }", "closure bar<'a, T>(&mut self, a: &'a T) { }", "closure baz(&self,) { }"],
        goals: &["WellFormed(foo)", "forall<'a, T> { WellFormed(bar<'a, T>) }"] },
    Template { name: "coroutine", items: &["struct S { }", "coroutine gen<T>[resume = (), yield = u8] -> S { upvars [T; S] witnesses exists<'a> [&'a T] }", "coroutine static sgen[resume = u8, yield = ()] { upvars [] witnesses [] }"],
        goals: &["forall<T> { WellFormed(gen<T>) }", "WellFormed(sgen)"] },
    Template { name: "foreign", items: &["extern type E;", "trait Tr { }", "impl Tr for E { }", "struct S { f: E }"],
        goals: &["E: Tr", "WellFormed(E)"] },
    Template { name: "dyn", items: &["trait Ob { }", "trait Ob2<T> { }", "#[auto] trait Send { }", "struct S<'a> { f: dyn Ob + 'a, g: dyn Ob + Ob2<u8> + Send + 'a, h: dyn forall<'b> Ob2<&'b u8> + 'a }"],
        goals: &["forall<'a> { dyn Ob + 'a: Ob }", "forall<'a> { dyn Ob + Send + 'a: Send }", "ObjectSafe(Ob)"] },
    Template { name: "auto-negative", items: &["#[auto] trait Send { }", "struct A { }", "struct B { a: A }", "impl !Send for A { }"],
        goals: &["B: Send", "not { A: Send }"] },
    Template { name: "lang-items", items: &["#[lang(sized)] trait Sized { }", "#[lang(copy)] trait Copy { }", "#[lang(clone)] trait Clone { }", "struct S { }", "impl Copy for S { }"],
        goals: &["S: Sized", "(S, S): Copy", "[S; 2]: Clone"] },
    Template { name: "trait-flags", items: &["#[marker] trait M { }", "#[coinductive] trait C { }", "#[non_enumerable] trait NE { }", "#[object_safe] trait OS { }", "#[upstream] #[fundamental] struct Box<T> { }", "#[upstream] trait UT { }", "#[upstream] impl UT for Box<u8> { }", "#[marker] #[upstream] #[fundamental] #[non_enumerable] #[coinductive] #[object_safe] trait All { }"],
        goals: &["IsLocal(Box<u8>)", "IsUpstream(Box<u8>)", "IsFullyVisible(Box<u8>)", "LocalImplAllowed(Box<u8>: UT)", "DownstreamType(Box<u8>)", "exists<T> { T: NE }"] },
    Template { name: "adt-attrs", items: &["#[variance(Covariant)] struct Co<T> { }", "#[variance(Invariant, Contravariant)] struct Two<'a, T> { }", "#[repr(C)] #[repr(packed)] struct P { }", "#[repr(u8)] enum En { A, B }", "#[phantom_data] struct PhantomData<T> { }", "#[one_zst] struct Z { }", "#[variance(Contravariant)] fn f<T>(a: T);"],
        goals: &["Subtype(Co<u8>, Co<u8>)", "forall<'a, 'b> { Subtype(Two<'a, u8>, Two<'b, u8>) }"] },
    Template { name: "clauses", items: &["trait Tr { }", "struct S { }", "forall<T> { T: Tr if T: Tr, WellFormed(T) }", "forall<> { S: Tr }", "forall<T> { FromEnv(T: Tr) if FromEnv(T) }", "forall<'a, T> { T: 'a }"],
        goals: &["S: Tr", "forall<'a> { S: 'a }"] },
    Template { name: "outlives", items: &["struct R<'a, 'b, T> where 'a: 'b, T: 'a { f: &'a &'b T }"],
        goals: &["forall<'a, 'b, T> { if ('a: 'b; T: 'a) { WellFormed(R<'a, 'b, T>) } }", "forall<'a> { 'a: 'static }", "u8: 'erased"] },
    Template { name: "higher-ranked-where", items: &["trait Tr<'a> { }", "struct S<T> where forall<'a> T: Tr<'a> { }", "impl<'a, T> Tr<'a> for S<T> where forall<'b> T: Tr<'b> { }"],
        goals: &["forall<T> { if (forall<'a> { T: Tr<'a> }) { forall<'b> { S<T>: Tr<'b> } } }"] },
    Template { name: "builtin-types", items: &["struct S<'a> { a: *const u8, b: *mut S<'a>, c: (u8, i32), d: [u8], e: !, f: &'a str, g: &'a mut [bool; 2], h: (), i: (u8,), j: f64, k: char, l: usize, m: i128, n: f16 }"],
        goals: &["forall<'a> { WellFormed(S<'a>) }", "exists<int I, float F> { (I, F) = (u8, f32) }", "exists<T> { *const T = *mut u8 }"] },
    Template { name: "const-generics", items: &["trait Tr<const N> { }", "struct A<const N> { }", "impl<const N> Tr<N> for A<N> { }", "impl Tr<3> for u8 { }"],
        goals: &["A<3>: Tr<3>", "exists<const N> { u8: Tr<N> }", "forall<const N> { A<N>: Tr<N> }"] },
    Template { name: "default-assoc", items: &["trait Tr { type X; }", "struct S { }", "impl<T> Tr for T { default type X = u8; }", "impl Tr for S { type X = S; }"],
        goals: &["<S as Tr>::X = S"] },
    Template { name: "big-trait", items: &["trait Big<'a, T, const N> { type Out<'b, U, const M>; }", "struct S { }", "impl<'a, T, const N> Big<'a, T, N> for S { type Out<'b, U, const M> = (&'a T, &'b U, [u8; N], [u8; M]); }"],
        goals: &["forall<'a, 'b, T, U> { exists<V> { Normalize(<S as Big<'a, T, 1>>::Out<'b, U, 2> -> V) } }", "forall<'a, 'b> { S: Big<'a, u8, 1, Out<'b, u8, 2> = u8> }"] },
    Template { name: "async-fn-lang", items: &["#[lang(async_fn_once)] trait AsyncFnOnce<Args> { #[lang(async_fn_once_output)] type Output; }", "#[lang(future)] trait Future { type Output; }"],
        goals: &["forall<T, A> { if (T: AsyncFnOnce<A>) { exists<O> { Normalize(<T as AsyncFnOnce<A>>::Output -> O) } } }"] },
    Template { name: "fn-traits", items: &["#[lang(fn_once)] trait FnOnce<Args> { type Output; }", "#[lang(fn_mut)] trait FnMut<Args> where Self: FnOnce<Args> { }", "#[lang(fn)] trait Fn<Args> where Self: FnMut<Args> { }", "fn foo(a: u8) -> u8;"],
        goals: &["foo: Fn<(u8,)>", "fn(u8) -> u8: FnOnce<(u8,)>", "Normalize(<foo as FnOnce<(u8,)>>::Output -> u8)"] },
    Template { name: "impl-shapes", items: &["trait Tr { }", "trait Ob { }", "impl<'a, T> Tr for &'a T { }", "impl<T> Tr for [T] { }", "impl Tr for fn(u8) { }", "impl<T> Tr for (T, T) { }", "impl Tr for dyn Ob + 'static { }", "impl<T, const N> Tr for [T; N] { }", "impl Tr for ! { }", "impl<T> Tr for *mut T { }"],
        goals: &["forall<'a> { &'a u8: Tr }", "[u8; 3]: Tr", "(u8, u8): Tr"] },
    Template { name: "unsize-coerce", items: &["#[lang(unsize)] trait Unsize<T> { }", "#[lang(coerce_unsized)] trait CoerceUnsized<T> { }", "#[lang(sized)] trait Sized { }", "#[lang(discriminant_kind)] trait DiscriminantKind { type Discriminant; }", "#[lang(tuple_trait)] trait Tuple { }", "#[lang(pointee_trait)] trait Pointee { type Metadata; }", "#[lang(drop)] trait Drop { }", "#[lang(unpin)] trait Unpin { }", "#[lang(coroutine)] trait Coroutine<R> { type Yield; type Return; }", "#[lang(dispatch_from_dyn)] trait DispatchFromDyn<T> { }", "#[lang(fn_ptr_trait)] trait FnPtr { }"],
        goals: &["[u8; 3]: Unsize<[u8]>", "(u8,): Tuple", "fn(): FnPtr", "exists<M> { Normalize(<[u8] as Pointee>::Metadata -> M) }"] },
    Template { name: "shadowing", items: &["trait Tr<T> { type A<U>; }", "struct S<T> where forall<U> T: Tr<U> { f: for<'a> fn(&'a T) }", "impl<T> Tr<T> for S<T> where forall<V> T: Tr<V> { type A<U> = (T, U); }"],
        goals: &["forall<T> { exists<U> { forall<V> { S<T>: Tr<V, A<U> = V> } } }"] },
];

// ---------------------------------------------------------------------------
// inputs

#[derive(Clone, Debug)]
enum Input {
    /// family (a): through the three parsers (+ lower_goal against A_PROGRAM when it is a goal)
    Text { text: String, small: bool },
    /// a program: parse, lower, (checked_program), then lower `goals` against it
    Prog { text: String, goals: Arc<Vec<String>>, small: bool, what: String },
    /// a goal against a valid program
    Goal { program: String, goal: String, small: bool, what: String },
}

impl Input {
    fn json(&self) -> Value {
        match self {
            Input::Text { text, .. } => json!({"family": "a", "text": text}),
            Input::Prog { text, goals, what, .. } => json!({"program": text, "goals": **goals, "origin": what}),
            Input::Goal { program, goal, what, .. } => json!({"program": program, "goal": goal, "origin": what}),
        }
    }
    fn size(&self) -> usize {
        match self {
            Input::Text { text, .. } => text.len(),
            Input::Prog { text, .. } => text.len(),
            Input::Goal { program, goal, .. } => program.len() + goal.len(),
        }
    }
}

const A_PROGRAM: &str = "struct a { } trait b { }";
const ALPHA_QUICK: &[&str] = &[
    "a", "b", "0", "'", "<", ">", "(", ")", "[", "]", ":", ";", ",", "=", "&", "!", "-", "/", "#", " ", "\u{e9}",
    "\u{fffd}", "\0",
];
const ALPHA_MORE: &[&str] = &["{", "}", "*", "\"", "."];

/// the fixed declarations every hole sees; placed AFTER the hole item (lowering is order
/// independent) so that sequences the parser rejects inside the hole are rejected early
const SK: &str = " trait Tr { type A ; } trait Tq < T > { } struct S { } struct G < T > { }";

#[derive(Clone, Copy, PartialEq, Eq)]
enum Voc {
    Ty,
    Item,
    Goal,
    Attr,
}

/// (name, program text, goal text or "", vocabulary); exactly one `@` in program or goal
const HOLES: &[(&str, &str, &str, Voc)] = &[
    ("adt-params", "struct H < @ > { }", "", Voc::Ty),
    ("field-list", "struct H < T , 'a , const N > { @ }", "", Voc::Ty),
    ("field-type", "struct H < T , 'a , const N > { f : @ }", "", Voc::Ty),
    ("where-clause", "struct H < T , 'a , const N > where @ { }", "", Voc::Ty),
    ("where-bound", "struct H < T , 'a , const N > where T : @ { }", "", Voc::Ty),
    ("generic-args", "struct H < T , 'a , const N > { f : G < @ > }", "", Voc::Ty),
    ("trait-args", "struct H < T , 'a , const N > where T : Tq < @ > { }", "", Voc::Ty),
    ("array-len", "struct H < T , 'a , const N > { f : [ u8 ; @ ] }", "", Voc::Ty),
    ("impl-params", "impl < @ > Tq < S > for G < S > { }", "", Voc::Ty),
    ("impl-trait", "impl < T > @ for G < T > { }", "", Voc::Ty),
    ("impl-self", "impl < T > Tq < T > for @ { }", "", Voc::Ty),
    ("impl-body", "impl < T > Tr for G < T > { @ }", "", Voc::Item),
    ("assoc-value", "impl < T > Tr for G < T > { type A = @ ; }", "", Voc::Ty),
    ("trait-body", "trait H < T > { @ }", "", Voc::Item),
    ("assoc-bounds", "trait H < T > { type B : @ ; }", "", Voc::Ty),
    ("item", "@", "", Voc::Item),
    ("attrs-trait", "@ trait H < T > { }", "", Voc::Item),
    ("attrs-struct", "@ struct H < T > { }", "", Voc::Item),
    ("attr-words-trait", "# [ @ ] trait H { }", "", Voc::Attr),
    ("attr-words-struct", "# [ @ ] struct H < T > { }", "", Voc::Attr),
    ("enum-variants", "enum H < T > { @ }", "", Voc::Ty),
    ("fn-args", "fn h < T , 'a > ( @ ) ;", "", Voc::Ty),
    ("fn-ret", "fn h < T , 'a > ( ) -> @ ;", "", Voc::Ty),
    ("closure-args", "closure h < T > ( @ ) { }", "", Voc::Ty),
    ("closure-upvars", "closure h < T > ( self , ) { @ }", "", Voc::Ty),
    ("coroutine-resume", "coroutine h < T > [ resume = @ , yield = u8 ] { upvars [ ] witnesses [ ] }", "", Voc::Ty),
    ("coroutine-witnesses", "coroutine h < T > [ resume = u8 , yield = u8 ] { upvars [ T ] witnesses @ [ T ] }", "", Voc::Ty),
    ("opaque-bounds", "opaque type H < T > : @ = S ;", "", Voc::Ty),
    ("opaque-hidden", "opaque type H < T > : Tr = @ ;", "", Voc::Ty),
    ("dyn-bounds", "struct H < T , 'a > { f : dyn @ + 'a }", "", Voc::Ty),
    ("fn-ptr-args", "struct H < T , 'a > { f : fn ( @ ) }", "", Voc::Ty),
    ("projection-trait-ref", "struct H < T , 'a > { f : < @ > :: A }", "", Voc::Ty),
    ("projection-name", "struct H < T , 'a > { f : < S as Tr > :: @ }", "", Voc::Ty),
    ("clause", "forall < T > { @ }", "", Voc::Goal),
    ("goal", "", "@", Voc::Goal),
    ("goal-forall-body", "", "forall < T , 'a , const N > { @ }", Voc::Goal),
    ("goal-binders", "", "exists < @ > { S : Tr }", Voc::Goal),
    ("goal-if", "", "if ( @ ) { S : Tr }", Voc::Goal),
    ("goal-trait-args", "", "forall < T , 'a , const N > { S : Tq < @ > }", Voc::Ty),
    ("goal-eq", "", "forall < T , 'a , const N > { exists < U > { @ = U } }", Voc::Ty),
    ("goal-wf", "", "forall < T , 'a , const N > { WellFormed ( @ ) }", Voc::Ty),
];

fn vocab(v: Voc, thorough: bool) -> Vec<&'static str> {
    let mut out: Vec<&'static str> = vec![];
    match v {
        Voc::Ty => {
            out.extend(["S", "G", "Tr", "Tq", "T", "N", "A", "X", "'a", "'x", "0", "4294967296", "u8"]);
            out.extend(["<", ">", "(", ")", "[", "]", ",", ":", ";", "=", "&", "*", "!", "+", "->", "::"]);
            out.extend(["as", "dyn", "for", "fn", "mut", "const", "forall"]);
            if thorough {
                out.extend(["'static"]);
            }
        }
        Voc::Item => {
            out.extend(["struct", "enum", "trait", "impl", "type", "opaque", "fn", "extern", "closure", "coroutine", "forall", "where", "for", "const", "default"]);
            out.extend(["#[auto]", "#[marker]", "#[upstream]", "#[fundamental]", "#[coinductive]", "#[non_enumerable]", "#[object_safe]", "#[lang(sized)]", "#[repr(C)]", "#[variance(Covariant)]", "#[phantom_data]", "#[one_zst]"]);
            out.extend(["H", "S", "Tr", "A", "T", "u8"]);
            out.extend(["<", ">", "{", "}", "(", ")", ";", ",", ":", "=", "!"]);
            if thorough {
                out.extend(["unsafe", "\""]);
            }
        }
        Voc::Goal => {
            out.extend(["S", "G", "Tr", "Tq", "T", "N", "A", "X", "'a", "0", "4294967296", "u8"]);
            out.extend(["<", ">", "(", ")", "{", "}", ",", ":", ";", "=", "&", "!", "-", "->", "::", "as", "[", "]"]);
            out.extend(["forall", "exists", "if", "not", "compatible", "WellFormed", "FromEnv", "Normalize", "IsLocal", "Compatible", "Reveal", "ObjectSafe", "Subtype", "const"]);
            if thorough {
                out.extend(["int"]);
            }
        }
        Voc::Attr => {
            out.extend(["auto", "marker", "upstream", "fundamental", "non_enumerable", "coinductive", "object_safe", "phantom_data", "one_zst", "lang", "repr", "variance"]);
            out.extend(["(", ")", ",", "]", "[", "#", "sized", "copy", "async_fn_once_output", "C", "packed", "u8", "Zz", "Covariant", "Invariant"]);
        }
    }
    out
}

fn pow_sum(v: u64, l: usize) -> u64 {
    (0..=l).map(|k| v.pow(k as u32)).sum()
}

/// idx -> digit sequence (length-major, most significant digit first)
fn decode_seq(mut idx: u64, v: u64) -> Vec<usize> {
    let mut len = 0usize;
    loop {
        let c = v.pow(len as u32);
        if idx < c {
            break;
        }
        idx -= c;
        len += 1;
    }
    let mut d = vec![0usize; len];
    for k in (0..len).rev() {
        d[k] = (idx % v) as usize;
        idx /= v;
    }
    d
}

struct Space {
    alpha: Vec<&'static str>,
    a_len: usize,
    a_small: usize,
    b_len: usize,
    b_small: usize,
    /// per hole: (vocabulary, first index)
    b_holes: Vec<(Vec<&'static str>, u64)>,
    b_total: u64,
    b_goals: Arc<Vec<String>>,
    c_inputs: Vec<Input>,
    c_ops: BTreeMap<String, u64>,
}

impl Space {
    fn new(thorough: bool, with_c: bool) -> Space {
        let mut alpha: Vec<&'static str> = ALPHA_QUICK.to_vec();
        if thorough {
            alpha.extend(ALPHA_MORE);
        }
        let b_len = if thorough { 4 } else { 3 };
        let mut b_holes = vec![];
        let mut off = 0u64;
        for h in HOLES {
            let v = vocab(h.3, thorough);
            let n = pow_sum(v.len() as u64, b_len);
            b_holes.push((v, off));
            off += n;
        }
        let mut sp = Space {
            alpha,
            a_len: if thorough { 5 } else { 4 },
            a_small: if thorough { 3 } else { 2 },
            b_len,
            b_small: if thorough { 2 } else { 1 },
            b_holes,
            b_total: off,
            b_goals: Arc::new(vec!["S : Tr".into(), "forall < T > { H < T > : Tq < T > }".into()]),
            c_inputs: vec![],
            c_ops: BTreeMap::new(),
        };
        if with_c {
            sp.build_c();
        }
        sp
    }

    fn build_c(&mut self) {
        let mut seen: HashSet<String> = HashSet::new();
        for t in TEMPLATES {
            let item_toks: Vec<Vec<Tok>> = t.items.iter().map(|s| lex(s)).collect();
            let mut toks: Vec<Tok> = vec![];
            let mut ranges = vec![];
            for it in &item_toks {
                ranges.push((toks.len(), toks.len() + it.len()));
                toks.extend(it.iter().cloned());
            }
            let goals: Arc<Vec<String>> = Arc::new(t.goals.iter().map(|g| render(&lex(g))).collect());
            let goal_toks: Vec<Vec<Tok>> = t.goals.iter().map(|g| lex(g)).collect();
            let ptext = render(&toks);
            // the unmodified template itself
            if seen.insert(ptext.clone()) {
                self.c_inputs.push(Input::Prog { text: ptext.clone(), goals: goals.clone(), small: true, what: format!("{}:original", t.name) });
            }
            let mut all: Vec<&[Tok]> = vec![&toks];
            for g in &goal_toks {
                all.push(g);
            }
            let pool = name_pool(&all);
            let mut ms = vec![];
            mutants(&toks, &pool, &ranges, &mut ms);
            for (op, m) in ms {
                let text = render(&m);
                if seen.insert(text.clone()) {
                    *self.c_ops.entry(format!("program:{}", op)).or_insert(0) += 1;
                    self.c_inputs.push(Input::Prog { text, goals: goals.clone(), small: false, what: format!("{}:{}", t.name, op) });
                }
            }
            for (gi, g) in goal_toks.iter().enumerate() {
                let mut ms = vec![];
                mutants(g, &pool, &[], &mut ms);
                let key0 = format!("{}\u{1}{}", ptext, goals[gi]);
                seen.insert(key0);
                for (op, m) in ms {
                    let goal = render(&m);
                    if seen.insert(format!("{}\u{1}{}", ptext, goal)) {
                        *self.c_ops.entry(format!("goal:{}", op)).or_insert(0) += 1;
                        self.c_inputs.push(Input::Goal { program: ptext.clone(), goal, small: false, what: format!("{}:goal{}:{}", t.name, gi, op) });
                    }
                }
            }
        }
    }

    fn size(&self, fam: char) -> u64 {
        match fam {
            'a' => pow_sum(self.alpha.len() as u64, self.a_len),
            'b' => self.b_total,
            _ => self.c_inputs.len() as u64,
        }
    }

    fn input_at(&self, fam: char, idx: u64) -> Input {
        match fam {
            'a' => {
                let d = decode_seq(idx, self.alpha.len() as u64);
                let text: String = d.iter().map(|&k| self.alpha[k]).collect();
                Input::Text { text, small: d.len() <= self.a_small }
            }
            'b' => {
                let hi = match self.b_holes.binary_search_by(|(_, off)| off.cmp(&idx)) {
                    Ok(i) => i,
                    Err(i) => i - 1,
                };
                let (v, off) = &self.b_holes[hi];
                let d = decode_seq(idx - off, v.len() as u64);
                let seq: Vec<&str> = d.iter().map(|&k| v[k]).collect();
                let seq_text = seq.join(" ");
                let h = &HOLES[hi];
                let small = d.len() <= self.b_small;
                let what = format!("hole {} <- [{}]", h.0, seq_text);
                if h.2.is_empty() {
                    Input::Prog {
                        text: format!("{}{}", h.1.replace('@', &seq_text), SK),
                        goals: self.b_goals.clone(),
                        small,
                        what,
                    }
                } else {
                    Input::Goal { program: format!("{}{}", h.1, SK), goal: h.2.replace('@', &seq_text), small, what }
                }
            }
            _ => self.c_inputs[idx as usize].clone(),
        }
    }
}

// ---------------------------------------------------------------------------
// child side: run inputs against the real code

struct Parsers {
    p: chalk_parse::parser::ProgramParser,
    g: chalk_parse::parser::GoalParser,
    t: chalk_parse::parser::TyParser,
}

impl Parsers {
    fn new() -> Parsers {
        Parsers {
            p: chalk_parse::parser::ProgramParser::new(),
            g: chalk_parse::parser::GoalParser::new(),
            t: chalk_parse::parser::TyParser::new(),
        }
    }
}

/// `chalk-parse-<hash>/out/parser.rs:LINE` -> `chalk-parse/out/parser.rs:LINE` (the generated
/// parser lives in a hashed build directory; keep sites stable across builds)
fn norm_loc(loc: &str) -> String {
    if let Some(rest) = loc.strip_prefix("chalk-parse-") {
        if let Some((h, tail)) = rest.split_once('/') {
            if h.len() == 16 && h.chars().all(|c| c.is_ascii_hexdigit()) {
                return format!("chalk-parse/{}", tail);
            }
        }
    }
    loc.to_string()
}

/// digit runs -> `N`, so that one root cause ("index out of bounds: the len is 2 ...") is one site
fn norm_msg(msg: &str) -> String {
    let mut out = String::new();
    let mut in_digits = false;
    for c in msg.chars() {
        if c.is_ascii_digit() {
            if !in_digits {
                out.push('N');
            }
            in_digits = true;
        } else {
            in_digits = false;
            out.push(c);
        }
    }
    out
}

fn err_class<E: std::fmt::Debug>(e: &E) -> String {
    format!("{:?}", e).chars().take_while(|c| c.is_ascii_alphanumeric()).collect()
}

struct St {
    thorough: bool,
    trace: bool,
    emit: bool,
    counts: BTreeMap<String, u64>,
    printed: HashMap<String, u32>,
    cache: HashMap<String, Option<Arc<Program>>>,
    samples_left: u32,
    lines: Vec<String>,
}

impl St {
    fn new(thorough: bool, trace: bool, emit: bool) -> St {
        St { thorough, trace, emit, counts: BTreeMap::new(), printed: HashMap::new(), cache: HashMap::new(), samples_left: 2, lines: vec![] }
    }
    fn out(&mut self, line: String) {
        if self.emit {
            println!("{}", line);
        } else {
            self.lines.push(line);
        }
    }
    fn bump(&mut self, k: String) {
        *self.counts.entry(k).or_insert(0) += 1;
    }
    /// runs one call into chalk under catch_unwind; None = it panicked (recorded)
    fn stage<T>(&mut self, idx: u64, input: &Input, name: &str, f: impl FnOnce() -> T) -> Option<T> {
        if self.trace {
            println!("STAGE\t{}", name);
        }
        self.bump(format!("calls|{}", name));
        match guarded(f) {
            Caught::Ok(v) => Some(v),
            Caught::Panic(loc, msg) => {
                let loc = norm_loc(&loc);
                let site = panic_site(&loc, &norm_msg(&msg));
                self.bump(format!("panic|{}|{}", name, site));
                let n = self.printed.entry(format!("{}|{}", name, site)).or_insert(0);
                *n += 1;
                if *n <= 6 {
                    let j = json!({"idx": idx, "stage": name, "loc": loc, "msg": msg, "site": site, "size": input.size(), "input": input.json()});
                    self.out(format!("PANIC\t{}", j));
                }
                None
            }
            _ => {
                self.out(format!("MACHINERY\tunexpected budget/injected outcome in {} on {}", name, input.json()));
                None
            }
        }
    }
    fn tally<T, E>(&mut self, name: &str, r: &Option<Result<T, E>>) -> bool {
        match r {
            Some(Ok(_)) => {
                self.bump(format!("ok|{}", name));
                true
            }
            Some(Err(_)) => {
                self.bump(format!("err|{}", name));
                false
            }
            None => false,
        }
    }
    fn mismatch(&mut self, what: &str, core: bool, api: bool, input: &Input) {
        if core != api {
            self.out(format!("MACHINERY\tcore/api disagree on {} (core ok={}, api ok={}) for {}", what, core, api, input.json()));
        }
    }
    fn valid_program(&mut self, ps: &Parsers, text: &str) -> Option<Arc<Program>> {
        if let Some(p) = self.cache.get(text) {
            return p.clone();
        }
        let r = match guarded(|| ps.p.parse(text).ok().and_then(|a| a.lower().ok())) {
            Caught::Ok(Some(p)) => Some(Arc::new(p)),
            _ => None,
        };
        if r.is_none() {
            self.out(format!("MACHINERY\tbase program does not lower: {}", text));
        }
        self.cache.insert(text.to_string(), r.clone());
        r
    }

    fn goal_against(&mut self, ps: &Parsers, idx: u64, input: &Input, prog: &Program, goal: &str, api: bool) -> bool {
        let ast = self.stage(idx, input, "core.parse_goal", || ps.g.parse(goal).map_err(|_| ()));
        let accepted = self.tally("core.parse_goal", &ast);
        let mut core_ok = false;
        let mut core_done = false;
        if let Some(Ok(ast)) = &ast {
            let r = self.stage(idx, input, "core.lower_goal", || lower_goal(ast, prog).map(|_| ()));
            core_done = r.is_some();
            core_ok = self.tally("core.lower_goal", &r);
            if let Some(Err(e)) = &r {
                self.bump(format!("lower_goal_error|{}", err_class(e)));
            }
        }
        if api && (accepted || matches!(input, Input::Goal { small: true, .. } | Input::Text { small: true, .. })) {
            let r = self.stage(idx, input, "api.parse_goal", || chalk_parse::parse_goal(goal).map_err(|e| e.to_string()));
            let a_ok = self.tally("api.parse_goal", &r);
            if r.is_some() && ast.is_some() {
                self.mismatch("parse_goal", accepted, a_ok, input);
            }
            if let Some(Ok(a)) = &r {
                let r2 = self.stage(idx, input, "api.lower_goal", || lower_goal(a, prog).map(|_| ()));
                let l_ok = self.tally("api.lower_goal", &r2);
                if r2.is_some() && core_done {
                    self.mismatch("lower_goal", core_ok, l_ok, input);
                }
            }
        }
        accepted
    }

    fn run(&mut self, ps: &Parsers, idx: u64, input: &Input) {
        self.bump("inputs".into());
        let mut nontrivial = false;
        let mut outcome = String::new();
        match input {
            Input::Text { text, small } => {
                let r = self.stage(idx, input, "core.parse_program", || ps.p.parse(text).map(|_| ()).map_err(|_| ()));
                let p_ok = self.tally("core.parse_program", &r);
                let r = self.stage(idx, input, "core.parse_ty", || ps.t.parse(text).map(|_| ()).map_err(|_| ()));
                let t_ok = self.tally("core.parse_ty", &r);
                let g_ok = match self.valid_program(ps, A_PROGRAM) {
                    Some(prog) => self.goal_against(ps, idx, input, &prog, text, true),
                    None => false,
                };
                if *small || p_ok {
                    let r = self.stage(idx, input, "api.parse_program", || chalk_parse::parse_program(text).map(|_| ()).map_err(|e| e.to_string()));
                    let ok = self.tally("api.parse_program", &r);
                    if r.is_some() {
                        self.mismatch("parse_program", p_ok, ok, input);
                    }
                }
                if *small || t_ok {
                    let r = self.stage(idx, input, "api.parse_ty", || chalk_parse::parse_ty(text).map(|_| ()).map_err(|e| e.to_string()));
                    let ok = self.tally("api.parse_ty", &r);
                    if r.is_some() {
                        self.mismatch("parse_ty", t_ok, ok, input);
                    }
                }
                nontrivial = p_ok || t_ok || g_ok;
                outcome = format!("program:{} ty:{} goal:{}", p_ok, t_ok, g_ok);
            }
            Input::Prog { text, goals, small, .. } => {
                let ast = self.stage(idx, input, "core.parse_program", || ps.p.parse(text).map_err(|_| ()));
                let p_ok = self.tally("core.parse_program", &ast);
                let mut lowered: Option<Program> = None;
                let mut core_done = ast.is_some();
                if let Some(Ok(ast)) = &ast {
                    let r = self.stage(idx, input, "core.lower", || ast.lower());
                    core_done = r.is_some();
                    self.tally("core.lower", &r);
                    match r {
                        Some(Ok(p)) => lowered = Some(p),
                        Some(Err(e)) => {
                            outcome = format!("lowering error {}", err_class(&e));
                            self.bump(format!("lower_error|{}", err_class(&e)));
                            self.bump("rejected_at_lowering".into());
                        }
                        None => {}
                    }
                }
                nontrivial = p_ok;
                if *small || p_ok {
                    let db = ChalkDatabase::with(text, SolverChoice::default());
                    let r = self.stage(idx, input, "api.program_ir", || db.program_ir().map(|_| ()).map_err(|e| e.to_string()));
                    let ok = self.tally("api.program_ir", &r);
                    if r.is_some() && core_done {
                        self.mismatch("program_ir", lowered.is_some(), ok, input);
                    }
                    if ok {
                        let r = self.stage(idx, input, "api.checked_program.slg", || db.checked_program().map(|_| ()).map_err(|e| e.to_string()));
                        self.tally("api.checked_program.slg", &r);
                        if self.thorough {
                            let db2 = ChalkDatabase::with(text, SolverChoice::recursive_default());
                            let r = self.stage(idx, input, "api.checked_program.recursive", || db2.checked_program().map(|_| ()).map_err(|e| e.to_string()));
                            self.tally("api.checked_program.recursive", &r);
                        }
                    }
                }
                if let Some(prog) = &lowered {
                    outcome = "lowered".into();
                    for g in goals.iter() {
                        self.goal_against(ps, idx, input, prog, g, false);
                    }
                }
            }
            Input::Goal { program, goal, .. } => {
                if let Some(prog) = self.valid_program(ps, program) {
                    nontrivial = self.goal_against(ps, idx, input, &prog, goal, true);
                    outcome = format!("goal parsed:{}", nontrivial);
                }
            }
        }
        if nontrivial {
            self.bump("nontrivial".into());
            if self.samples_left > 0 && idx % 7 == 3 {
                self.samples_left -= 1;
                self.out(format!("SAMPLE\t{}", json!({"input": input.json(), "outcome": outcome})));
            }
        }
    }
}

/// `<fam>:<index>/<total>:<lo>-<hi>[:trace]`; positions p in lo..hi map to idx = p*total+index
fn child_main(spec: &str, thorough: bool) -> ! {
    let parts: Vec<&str> = spec.split(':').collect();
    let fam = parts[0].chars().next().unwrap();
    let (index, total) = parts[1].split_once('/').map(|(a, b)| (a.parse::<u64>().unwrap(), b.parse::<u64>().unwrap())).unwrap();
    let (lo, hi) = parts[2].split_once('-').map(|(a, b)| (a.parse::<u64>().unwrap(), b.parse::<u64>().unwrap())).unwrap();
    let trace = parts.get(3) == Some(&"trace");
    // a moderate stack: a runaway recursion overflows it quickly (the process aborts and the
    // parent attributes the input), while every legitimate tiny input fits easily
    let work = move || {
        let space = Space::new(thorough, fam == 'c');
        let n = space.size(fam);
        let ps = Parsers::new();
        let mut st = St::new(thorough, trace, true);
        let step = at_step(fam);
        for p in lo..hi {
            let idx = p * total + index;
            if idx >= n {
                break;
            }
            if (p - lo) % step == 0 {
                println!("AT\t{}", p);
            }
            let input = space.input_at(fam, idx);
            st.run(&ps, idx, &input);
        }
        println!("DONE\t{}", json!(st.counts));
    };
    let h = std::thread::Builder::new().stack_size(128 << 20).spawn(work).expect("spawn child worker");
    let ok = h.join().is_ok();
    std::process::exit(if ok { 0 } else { 3 })
}

/// progress line every `at_step` positions (lets the parent narrow an abnormal exit cheaply)
fn at_step(fam: char) -> u64 {
    if fam == 'c' {
        32
    } else {
        2048
    }
}

// ---------------------------------------------------------------------------
// parent side: shards in child processes, bisection of abnormal exits

#[derive(Default)]
struct ShardOut {
    counts: BTreeMap<String, u64>,
    panics: Vec<Value>,
    samples: Vec<Value>,
    machinery: Vec<String>,
    /// (idx, exit status, last stage, stderr tail)
    aborts: Vec<(u64, String, String, String)>,
    child_runs: u64,
}

impl ShardOut {
    fn merge(&mut self, o: ShardOut) {
        for (k, v) in o.counts {
            *self.counts.entry(k).or_insert(0) += v;
        }
        self.panics.extend(o.panics);
        if self.samples.len() < 16 {
            self.samples.extend(o.samples);
        }
        self.machinery.extend(o.machinery);
        self.aborts.extend(o.aborts);
        self.child_runs += o.child_runs;
    }
}

struct ChildRun {
    stdout: String,
    stderr: String,
    status: String,
    clean: bool,
}

fn spawn_child(tier: &str, spec: &str, limit: Duration, capture_err: bool) -> Result<ChildRun, String> {
    use std::process::{Command, Stdio};
    let exe = std::env::current_exe().map_err(|e| e.to_string())?;
    let mut child = Command::new(exe)
        .args(["check", "C24", "--tier", tier])
        .env(ENV_SHARD, spec)
        .env("VERIF_THREADS", "1")
        .env_remove("VERIF_TRACE")
        .stdin(Stdio::null())
        .stdout(Stdio::piped())
        .stderr(if capture_err { Stdio::piped() } else { Stdio::null() })
        .spawn()
        .map_err(|e| format!("spawn: {}", e))?;
    let mut out = child.stdout.take().unwrap();
    let err = child.stderr.take();
    let child = Arc::new(std::sync::Mutex::new(child));
    let (tx, rx) = std::sync::mpsc::channel::<()>();
    let c2 = child.clone();
    let wd = std::thread::spawn(move || {
        if let Err(std::sync::mpsc::RecvTimeoutError::Timeout) = rx.recv_timeout(limit) {
            let _ = c2.lock().unwrap().kill();
            true
        } else {
            false
        }
    });
    let mut stdout = String::new();
    let mut buf = vec![];
    let _ = out.read_to_end(&mut buf);
    stdout.push_str(&String::from_utf8_lossy(&buf));
    let mut stderr = String::new();
    if let Some(mut e) = err {
        let mut b = vec![];
        let _ = e.read_to_end(&mut b);
        stderr = String::from_utf8_lossy(&b).into_owned();
    }
    let status = child.lock().unwrap().wait().map_err(|e| e.to_string())?;
    let _ = tx.send(());
    let timed_out = wd.join().unwrap_or(false);
    let st = if timed_out {
        "timeout".to_string()
    } else {
        use std::os::unix::process::ExitStatusExt;
        match (status.code(), status.signal()) {
            (Some(c), _) => format!("exit-{}", c),
            (None, Some(s)) => format!("signal-{}", s),
            _ => "unknown".into(),
        }
    };
    let clean = status.success() && stdout.lines().any(|l| l.starts_with("DONE\t"));
    Ok(ChildRun { stdout, stderr, status: st, clean })
}

fn absorb(out: &mut ShardOut, stdout: &str) {
    for line in stdout.lines() {
        if let Some(j) = line.strip_prefix("PANIC\t") {
            match serde_json::from_str::<Value>(j) {
                Ok(v) => out.panics.push(v),
                Err(e) => out.machinery.push(format!("bad PANIC line ({}): {}", e, line)),
            }
        } else if let Some(j) = line.strip_prefix("SAMPLE\t") {
            if let Ok(v) = serde_json::from_str::<Value>(j) {
                out.samples.push(v);
            }
        } else if let Some(m) = line.strip_prefix("MACHINERY\t") {
            out.machinery.push(m.to_string());
        } else if let Some(j) = line.strip_prefix("DONE\t") {
            if let Ok(m) = serde_json::from_str::<BTreeMap<String, u64>>(j) {
                for (k, v) in m {
                    *out.counts.entry(k).or_insert(0) += v;
                }
            }
        }
    }
}

/// Runs positions lo..hi of one shard; an abnormal child exit is bisected down to single inputs.
fn resolve(tier: &str, fam: char, index: u64, total: u64, lo: u64, hi: u64, limit: Duration, out: &mut ShardOut) {
    if lo >= hi {
        return;
    }
    if out.aborts.len() >= 4 {
        *out.counts.entry("positions_not_run_after_4_aborts_in_shard".into()).or_insert(0) += hi - lo;
        return;
    }
    let single = hi - lo == 1;
    let spec = format!("{}:{}/{}:{}-{}{}", fam, index, total, lo, hi, if single { ":trace" } else { "" });
    out.child_runs += 1;
    match spawn_child(tier, &spec, limit, single) {
        Err(e) => out.machinery.push(format!("child {}: {}", spec, e)),
        Ok(r) if r.clean => absorb(out, &r.stdout),
        Ok(r) => {
            if single {
                let stage = r.stdout.lines().filter_map(|l| l.strip_prefix("STAGE\t")).last().unwrap_or("?").to_string();
                let tail: String = r.stderr.lines().rev().take(4).collect::<Vec<_>>().into_iter().rev().collect::<Vec<_>>().join(" | ");
                out.aborts.push((lo * total + index, r.status, stage, tail));
                *out.counts.entry("inputs".into()).or_insert(0) += 1;
            } else {
                // the child reported progress: everything before the last AT mark ran without
                // dying (re-run it to get its results), the culprit is in the window after it
                let step = at_step(fam);
                let at = r.stdout.lines().filter_map(|l| l.strip_prefix("AT\t")).filter_map(|x| x.parse::<u64>().ok()).last().unwrap_or(lo).clamp(lo, hi - 1);
                let win_end = (at + step).min(hi);
                if at > lo || win_end < hi {
                    resolve(tier, fam, index, total, lo, at, limit, out);
                    resolve(tier, fam, index, total, at, win_end, limit, out);
                    resolve(tier, fam, index, total, win_end, hi, limit, out);
                } else {
                    let mid = lo + (hi - lo) / 2;
                    resolve(tier, fam, index, total, lo, mid, limit, out);
                    resolve(tier, fam, index, total, mid, hi, limit, out);
                }
            }
        }
    }
}

fn stage_kind(stage: &str, loc: &str) -> &'static str {
    if stage.contains("checked_program") {
        "panic-in-checked-program"
    } else if stage.contains("parse_") || (stage == "api.program_ir" && loc.starts_with("chalk-parse")) {
        "panic-parse"
    } else if stage.contains("lower_goal") {
        "panic-lower-goal"
    } else {
        "panic-lower-program"
    }
}

fn in_parse_or_lowering(loc: &str) -> bool {
    loc.starts_with("chalk-parse") || loc.starts_with("chalk-integration/src/lowering")
}

pub fn run_c24(rep: &Report) -> i32 {
    let thorough = rep.is_thorough();
    if let Ok(spec) = std::env::var(ENV_SHARD) {
        child_main(&spec, thorough);
    }
    let tier = if thorough { "thorough" } else { "quick" };
    let t0 = Instant::now();
    let space = Space::new(thorough, true);

    // the templates themselves must be valid programs with valid goals (in-process; they are tame)
    {
        let ps = Parsers::new();
        let mut st = St::new(thorough, false, false);
        for t in TEMPLATES {
            let text = render(&t.items.iter().flat_map(|s| lex(s)).collect::<Vec<_>>());
            match guarded(|| ps.p.parse(&text).map_err(|e| e.to_string()).and_then(|a| a.lower().map_err(|e| e.to_string()))) {
                Caught::Ok(Ok(prog)) => {
                    for g in t.goals {
                        let g = render(&lex(g));
                        let r = guarded(|| ps.g.parse(&g).map_err(|e| e.to_string()).and_then(|a| lower_goal(&a, &prog).map(|_| ()).map_err(|e| e.to_string())));
                        if !matches!(r, Caught::Ok(Ok(()))) {
                            rep.machinery_error(format!("template {} goal `{}` is not valid: {:?}", t.name, g, r));
                        }
                    }
                }
                r => rep.machinery_error(format!("template {} is not a valid program: {:?}", t.name, r.is_ok())),
            }
        }
        match st.valid_program(&ps, &format!("{}{}", "struct H < T > { }", SK)) {
            Some(_) => {}
            None => rep.machinery_error("skeleton does not lower".into()),
        }
        for (name, p, g, _) in HOLES {
            if p.matches('@').count() + g.matches('@').count() != 1 {
                rep.machinery_error(format!("hole {} must contain exactly one @", name));
            }
            if !g.is_empty() && st.valid_program(&ps, &format!("{}{}", p, SK)).is_none() {
                rep.machinery_error(format!("hole {}: base program invalid", name));
            }
        }
    }

    // jobs: strided shards of every family, all run concurrently on the pool (one child each)
    let limit = Duration::from_secs(if thorough { 1500 } else { 150 });
    let mut jobs: Vec<(char, u64, u64, u64)> = vec![];
    for fam in ['a', 'b', 'c'] {
        let n = space.size(fam);
        rep.count(&format!("inputs_family_{}", fam), n);
        let per = if fam == 'c' { 1500 } else { 40_000 };
        let total = ((n + per - 1) / per).clamp(1, if thorough { 256 } else { 64 });
        for i in 0..total {
            let m = (n + total - 1 - i) / total; // positions p with p*total+i < n
            jobs.push((fam, i, total, m));
        }
    }
    // interleave the families (shard k of each in turn) so that every pool thread gets a mix
    jobs.sort_by_key(|j| (j.1 * 1000 / j.2, j.0));
    let outs: Vec<(char, ShardOut)> = jobs
        .par_iter()
        .with_max_len(1)
        .map(|&(fam, i, total, m)| {
            let mut o = ShardOut::default();
            resolve(tier, fam, i, total, 0, m, limit, &mut o);
            (fam, o)
        })
        .collect();
    let mut all = ShardOut::default();
    let mut nontrivial_by_fam: BTreeMap<char, u64> = BTreeMap::new();
    let mut panics_by_fam: BTreeMap<char, Vec<Value>> = BTreeMap::new();
    let mut aborts: Vec<(char, u64, String, String, String)> = vec![];
    for (fam, o) in outs {
        *nontrivial_by_fam.entry(fam).or_insert(0) += o.counts.get("nontrivial").copied().unwrap_or(0);
        panics_by_fam.entry(fam).or_default().extend(o.panics.iter().cloned());
        for a in &o.aborts {
            aborts.push((fam, a.0, a.1.clone(), a.2.clone(), a.3.clone()));
        }
        all.merge(o);
    }
    for m in all.machinery.iter().take(10) {
        rep.machinery_error(m.clone());
    }

    // counters
    let mut transitions = 0u64;
    let mut site_totals: BTreeMap<String, u64> = BTreeMap::new();
    for (k, v) in &all.counts {
        if let Some(rest) = k.strip_prefix("panic|") {
            let site = rest.split_once('|').map(|x| x.1).unwrap_or(rest);
            *site_totals.entry(site.to_string()).or_insert(0) += v;
            continue;
        }
        if k.starts_with("calls|") {
            transitions += v;
        }
        rep.count(k, *v);
    }
    rep.count("child_processes", all.child_runs);
    for (f, n) in &nontrivial_by_fam {
        rep.count(&format!("nontrivial_family_{}", f), *n);
    }
    rep.note("family_c_edit_operators", json!(space.c_ops));
    rep.note("panicking_calls_by_site", json!(site_totals));
    rep.note(
        "bounds",
        json!({"a": {"alphabet": space.alpha, "max_len": space.a_len, "api_level_all_up_to_len": space.a_small},
               "b": {"holes": HOLES.len(), "max_tokens": space.b_len, "api_level_all_up_to_tokens": space.b_small,
                     "vocabulary_sizes": {"ty": vocab(Voc::Ty, thorough).len(), "item": vocab(Voc::Item, thorough).len(), "goal": vocab(Voc::Goal, thorough).len(), "attr": vocab(Voc::Attr, thorough).len()}},
               "c": {"templates": TEMPLATES.len(), "inputs": space.c_inputs.len()}}),
    );

    // panics -> violations (smallest inputs first, a few per root cause)
    let mut groups: BTreeMap<(String, String), Vec<Value>> = BTreeMap::new();
    for fam in ['a', 'b', 'c'] {
        for p in panics_by_fam.remove(&fam).unwrap_or_default() {
            let stage = p["stage"].as_str().unwrap_or("?").to_string();
            let loc = p["loc"].as_str().unwrap_or("?").to_string();
            let kind = stage_kind(&stage, &loc);
            let mut site = p["site"].as_str().unwrap_or("?").to_string();
            if kind == "panic-in-checked-program" && !in_parse_or_lowering(&loc) {
                // notes only: group by source location (assertion messages carry varying numbers)
                site = loc.clone();
            }
            groups.entry((kind.to_string(), site)).or_default().push(p);
        }
    }
    let mut outside: Vec<Value> = vec![];
    for ((kind, site), mut ps) in groups {
        ps.sort_by_key(|p| (p["size"].as_u64().unwrap_or(0), p["idx"].as_u64().unwrap_or(0)));
        let mut seen_inputs: HashSet<String> = HashSet::new();
        ps.retain(|p| seen_inputs.insert(p["input"].to_string()));
        let loc = ps[0]["loc"].as_str().unwrap_or("?").to_string();
        if kind == "panic-in-checked-program" && !in_parse_or_lowering(&loc) {
            // coherence / WF / solver code: C19/C21 territory, reported separately, not a C24 violation
            rep.count("panics_in_checked_program_outside_parse_and_lowering", ps.len() as u64);
            println!("NOTE panic-in-checked-program (not counted for C24) site={} at {} :: {} :: input {}", site, loc, ps[0]["msg"], ps[0]["input"]);
            outside.push(json!({"kind": kind, "site": site, "loc": loc, "msg": ps[0]["msg"], "stage": ps[0]["stage"], "input": ps[0]["input"], "inputs_seen": ps.len()}));
            continue;
        }
        for p in ps.iter().take(3) {
            rep.violation(Violation {
                property: "C24".into(),
                kind: kind.clone(),
                site: site.clone(),
                what: format!("{} panicked at {} ({})", p["stage"].as_str().unwrap_or("?"), p["loc"].as_str().unwrap_or("?"), p["msg"].as_str().unwrap_or("?")),
                input: json!({"input": p["input"], "stage": p["stage"], "loc": p["loc"], "msg": p["msg"]}),
            });
        }
    }
    rep.note("panics_in_checked_program_outside_lowering", json!(outside));
    for (fam, idx, status, stage, tail) in aborts {
        let input = space.input_at(fam, idx);
        if stage.contains("checked_program") {
            rep.count("aborts_in_checked_program", 1);
            println!("NOTE abort-in-checked-program (not counted for C24) {} in {} :: input {}", status, stage, input.json());
            continue;
        }
        rep.violation(Violation {
            property: "C24".into(),
            kind: if status == "timeout" { "hang".into() } else { "abort".into() },
            site: format!("abort:{}:{}", stage, status),
            what: format!("child process died ({}) during {}; stderr: {}", status, stage, tail),
            input: json!({"input": input.json(), "stage": stage, "status": status}),
        });
    }

    // samples: one concrete input of each family + what the children sampled
    for (fam, idx) in [('a', space.size('a') / 3), ('b', space.size('b') / 2), ('c', space.size('c') / 2)] {
        rep.sample(json!({"family": fam.to_string(), "index": idx, "input": space.input_at(fam, idx).json()}));
    }
    for s in all.samples.into_iter().take(5) {
        rep.sample(s);
    }
    rep.note("wall_s_total", json!(t0.elapsed().as_secs_f64()));

    crate::props::c01::vacuity(
        rep,
        &[
            "ok|core.parse_program", "err|core.parse_program", "ok|core.parse_ty", "ok|core.parse_goal", "ok|core.lower",
            "err|core.lower", "ok|core.lower_goal", "err|core.lower_goal", "ok|api.parse_program", "err|api.parse_program",
            "ok|api.parse_goal", "err|api.parse_goal", "ok|api.parse_ty", "err|api.parse_ty", "ok|api.program_ir",
            "err|api.program_ir", "ok|api.checked_program.slg", "err|api.checked_program.slg", "ok|api.lower_goal",
            "nontrivial_family_a", "nontrivial_family_b", "nontrivial_family_c",
        ],
    );
    for v in REQUIRED_LOWER_ERRORS {
        if rep.get(&format!("lower_error|{}", v)) == 0 && rep.get(&format!("lower_goal_error|{}", v)) == 0 {
            rep.machinery_error(format!("vacuity: lowering error `{}` was never provoked", v));
        }
    }
    let skipped = rep.get("positions_not_run_after_4_aborts_in_shard");
    let states = space.size('a') + space.size('b') + space.size('c');
    let nontrivial: u64 = nontrivial_by_fam.values().sum();
    rep.finish(
        states,
        transitions,
        nontrivial,
        "inputs = (a) every string up to the length bound over the character alphabet, (b) every token sequence up to the bound over the per-hole vocabulary spliced into every hole of the skeleton, (c) every single-edit variant of every template program and goal (texts deduplicated); each goes through the generated parsers and the real Lower::lower / lower_goal, and through the public chalk_parse::parse_*, program_ir and checked_program when it gets past the parser or lies in the small sub-bound; non-trivial = at least one parser accepted the input (it was accepted, or rejected only at lowering)",
        skipped == 0,
        &[
            "&str cannot carry invalid UTF-8: invalid byte sequences are represented by U+FFFD (what from_utf8_lossy yields) and a 2-byte character",
            "inputs rejected by the parser beyond the small sub-bound exercise the generated parser through persistent parser objects only; the public wrappers additionally construct the parser and format the error",
            "panics raised inside checked_program by coherence / WF / solver code (location outside chalk-parse and chalk-integration/src/lowering) are listed in the evidence but belong to C19/C21",
        ],
    )
}

/// `RustIrError` variants that the edit operators of family (c) must provoke at least once
const REQUIRED_LOWER_ERRORS: &[&str] = &[
    "InvalidParameterName", "InvalidTraitName", "NotTrait", "NotStruct", "DuplicateOrShadowedParameters",
    "AutoTraitAssociatedTypes", "AutoTraitParameters", "AutoTraitWhereClauses", "InvalidFundamentalTypesParameters",
    "NegativeImplAssociatedValues", "MissingAssociatedType", "IncorrectNumberOfVarianceParameters",
    "IncorrectNumberOfTypeParameters", "IncorrectNumberOfAssociatedTypeParameters", "IncorrectParameterKind",
    "IncorrectTraitParameterKind", "IncorrectAssociatedTypeParameterKind", "CannotApplyTypeParameter", "InvalidExternAbi",
];
