//! C21: well-formedness checking guarantees the bounds it lets code assume.

use crate::ast::*;
use crate::drive::{guarded, Caught};
use crate::gen::{at, x};
use crate::refsem::{Ref, Tri};
use crate::report::{panic_site, Report, Violation};
use chalk_integration::db::ChalkDatabase;
use chalk_integration::query::LoweringDatabase;
use chalk_integration::SolverChoice;
use rayon::prelude::*;
use serde_json::json;
use std::collections::BTreeMap;

fn a() -> Ty {
    Ty::app0("A")
}
fn b() -> Ty {
    Ty::app0("B")
}
fn w(t: Ty) -> Ty {
    Ty::app("W", vec![t])
}
fn w2(t: Ty) -> Ty {
    Ty::app("W2", vec![t])
}

struct Decl {
    text: String,
    /// trait -> where-clauses over Self = Var(0)
    trait_wcs: BTreeMap<&'static str, Vec<Atom>>,
    /// struct -> (where-clauses over T = Var(0), field types over T)
    structs: BTreeMap<&'static str, (Vec<Atom>, Vec<Ty>)>,
}

fn wc_text(wcs: &[Atom], name: &str) -> String {
    if wcs.is_empty() {
        String::new()
    } else {
        format!(" where {}", wcs.iter().map(|w| atom_str(w).replace("X0", name)).collect::<Vec<_>>().join(", "))
    }
}

fn decls() -> Vec<Decl> {
    let mut out = vec![];
    let mid_opts: Vec<Vec<Atom>> = vec![vec![], vec![at(x(0), "Base")]];
    let w_opts: Vec<(Vec<Atom>, Vec<Ty>)> = vec![
        (vec![], vec![x(0)]),
        (vec![at(x(0), "Base")], vec![x(0)]),
        (vec![], vec![w2(x(0))]),
        (vec![at(x(0), "Mid")], vec![w2(x(0))]),
        (vec![at(x(0), "Base")], vec![w2(x(0))]),
        (vec![], vec![]),
        // several fields, a parameterless struct before / after the field that needs the bound
        (vec![], vec![a(), w2(x(0))]),
        (vec![], vec![w2(x(0)), a()]),
        (vec![at(x(0), "Mid")], vec![a(), w2(x(0))]),
    ];
    let w2_opts: Vec<Vec<Atom>> = vec![vec![], vec![at(x(0), "Mid")]];
    for mid in &mid_opts {
        for (wwc, wf) in &w_opts {
            for w2wc in &w2_opts {
                let text = format!(
                    "struct A {{}} struct B {{}} trait Base {{}} trait Mid{} {{}} struct W2<T>{} {{}} struct W<T>{} {{ {} }}",
                    wc_text(mid, "Self"),
                    wc_text(w2wc, "T"),
                    wc_text(wwc, "T"),
                    wf.iter().enumerate().map(|(i, t)| format!("f{}: {}", i, ty_str(t).replace("X0", "T"))).collect::<Vec<_>>().join(", ")
                );
                let mut trait_wcs = BTreeMap::new();
                trait_wcs.insert("Base", vec![]);
                trait_wcs.insert("Mid", mid.clone());
                let mut structs = BTreeMap::new();
                structs.insert("W", (wwc.clone(), wf.clone()));
                structs.insert("W2", (w2wc.clone(), vec![]));
                out.push(Decl { text, trait_wcs, structs });
            }
        }
    }
    out
}

fn impl_menu() -> Vec<Rule> {
    vec![
        Rule { nvars: 0, head: at(a(), "Base"), body: vec![] },
        Rule { nvars: 0, head: at(a(), "Mid"), body: vec![] },
        Rule { nvars: 0, head: at(b(), "Mid"), body: vec![] },
        Rule { nvars: 1, head: at(w(x(0)), "Base"), body: vec![] },
        Rule { nvars: 1, head: at(w(x(0)), "Base"), body: vec![at(x(0), "Base")] },
        Rule { nvars: 1, head: at(w(x(0)), "Mid"), body: vec![at(x(0), "Mid")] },
        Rule { nvars: 1, head: at(w2(x(0)), "Base"), body: vec![at(x(0), "Mid")] },
        Rule { nvars: 1, head: at(w2(x(0)), "Mid"), body: vec![] },
    ]
}

pub fn run_c21(rep: &Report) -> i32 {
    let thorough = rep.is_thorough();
    let decls = decls();
    let menu = impl_menu();
    let nm = menu.len();
    // impl subsets; items 3 and 4 overlap (same header), never both
    let subsets: Vec<Vec<usize>> = (0..(1usize << nm))
        .filter(|m| !(m >> 3 & 1 == 1 && m >> 4 & 1 == 1))
        .filter(|m| thorough || m.count_ones() <= 4)
        .map(|m| (0..nm).filter(|i| m >> i & 1 == 1).collect())
        .collect();
    rep.note("declaration_variants", json!(decls.len()));
    rep.note("impl_subsets", json!(subsets.len()));
    // every program also with all its impls marked `#[upstream]` (impls of other crates are
    // turned into clauses all the same, so they have to be well-formed too)
    let jobs: Vec<(usize, usize, bool)> = (0..decls.len())
        .flat_map(|d| (0..subsets.len()).flat_map(move |s| [false, true].into_iter().map(move |u| (d, s, u))))
        .filter(|(_, s, u)| !*u || !subsets[*s].is_empty())
        .collect();
    jobs.par_iter().for_each(|&(di, si, upstream)| {
        let d = &decls[di];
        let rules: Vec<Rule> = subsets[si].iter().map(|i| menu[*i].clone()).collect();
        let mut text = d.text.clone();
        for r in &rules {
            let mut s = String::new();
            render_impl(r, &mut s);
            text.push(' ');
            if upstream {
                text.push_str("#[upstream] ");
            }
            text.push_str(s.trim());
        }
        rep.count("programs", 1);
        for choice in [SolverChoice::slg_default(), SolverChoice::recursive_default()] {
            let sname = if matches!(choice, SolverChoice::SLG { .. }) { "slg" } else { "recursive" };
            let t2 = text.clone();
            let r = guarded(move || {
                let db = ChalkDatabase::with(&t2, choice);
                db.checked_program().map(|_| ())
            });
            rep.count("checked_program_calls", 1);
            let input = || json!({"program": text, "solver": sname});
            match r {
                Caught::Ok(Ok(())) => {}
                Caught::Ok(Err(_)) => {
                    rep.count("rejected(not judged)", 1);
                    continue;
                }
                Caught::Panic(loc, msg) => {
                    rep.violation(Violation {
                        property: "C21".into(),
                        kind: "panic".into(),
                        site: panic_site(&loc, &msg),
                        what: format!("checked_program ({}) panics: {} :: {}", sname, msg, text),
                        input: input(),
                    });
                    continue;
                }
                _ => continue,
            }
            rep.count("accepted", 1);
            // REF over ground types
            let refm = Ref::new(rules.clone(), vec![], vec![("A".into(), 0), ("B".into(), 0), ("W".into(), 1), ("W2".into(), 1)]);
            let universe = refm.universe(if thorough { 4 } else { 3 }, &[]);
            let holds = |atom: &Atom| refm.prove(&[], atom).0;
            // WF(type): the ADT's where-clauses hold and all arguments are WF
            fn wf(t: &Ty, d: &Decl, holds: &dyn Fn(&Atom) -> Tri) -> bool {
                match t {
                    Ty::App(n, args) => {
                        if !args.iter().all(|x| wf(x, d, holds)) {
                            return false;
                        }
                        match d.structs.get(n.as_str()) {
                            Some((wcs, _)) => {
                                let s: BTreeMap<u32, Ty> = args.iter().enumerate().map(|(i, t)| (i as u32, t.clone())).collect();
                                wcs.iter().all(|wc| holds(&wc.subst(&s)) == Tri::True)
                            }
                            None => true,
                        }
                    }
                    _ => true,
                }
            }
            let mut nontrivial = false;
            for t in &universe {
                if !wf(t, d, &holds) {
                    continue;
                }
                // (1) trait where-clauses / supertraits hold for implementing WF types
                for (tr, wcs) in &d.trait_wcs {
                    if holds(&at(t.clone(), tr)) != Tri::True {
                        continue;
                    }
                    nontrivial = true;
                    let mut s = BTreeMap::new();
                    s.insert(0u32, t.clone());
                    for wc in wcs {
                        let inst = wc.subst(&s);
                        if holds(&inst) == Tri::False {
                            rep.violation(Violation {
                                property: "C21".into(),
                                kind: "accepted-but-supertrait-bound-fails".into(),
                                site: format!("{}/trait-where-clause", sname),
                                what: format!("accepted ({}): `{}` is well-formed and implements {}, but `{}` does not hold", sname, ty_str(t), tr, atom_str(&inst)),
                                input: input(),
                            });
                        }
                    }
                }
                // (2) field types of WF struct instances are WF
                if let Ty::App(n, args) = t {
                    if let Some((_, fields)) = d.structs.get(n.as_str()) {
                        let s: BTreeMap<u32, Ty> = args.iter().enumerate().map(|(i, t)| (i as u32, t.clone())).collect();
                        for f in fields {
                            let ft = f.subst(&s);
                            nontrivial = true;
                            if !wf(&ft, d, &holds) {
                                rep.violation(Violation {
                                    property: "C21".into(),
                                    kind: "accepted-but-field-type-ill-formed".into(),
                                    site: format!("{}/field", sname),
                                    what: format!("accepted ({}): `{}` is well-formed but its field type `{}` is not", sname, ty_str(t), ty_str(&ft)),
                                    input: input(),
                                });
                            }
                        }
                    }
                }
            }
            if nontrivial {
                rep.count("accepted_with_obligations", 1);
            }
            if (di * 1000 + si) % 977 == 0 {
                rep.sample(json!({"program": text, "solver": sname, "accepted": true}));
            }
        }
    });
    crate::props::c01::vacuity(rep, &["accepted", "rejected(not judged)", "accepted_with_obligations"]);
    let states = rep.get("programs");
    let tr = rep.get("checked_program_calls");
    let nt = rep.get("accepted_with_obligations");
    rep.finish(
        states,
        tr,
        nt,
        "every program from 36 declaration variants (supertrait on/off; struct W<T> with 9 where-clause/field combinations incl. two-field structs in both field orders, W2<T> with/without a where-clause) x every subset (quick: of size <= 4) of 8 impls with sound or missing bounds, each program with its impls local and with all of them `#[upstream]`, through checked_program (coherence + orphan + WF) with both solvers; for each ACCEPTED program, over all ground types of depth <= 3 (4 thorough): every well-formed type implementing a trait must satisfy the trait's where-clauses, and every field type of a well-formed struct instance must be well-formed; rejected programs are counted, not judged; non-trivial = accepted programs for which at least one obligation was evaluated",
        true,
        &["REF: WF(type) = the ADT's where-clauses hold and all arguments are WF; Impl by least fixed point over the impls"],
    )
}
