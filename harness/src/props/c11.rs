//! C11: interrupted solving is a safe approximation. Deviation-bounded
//! enumeration of interruption schedules (the continue-callback answers
//! `false` at chosen invocations), followed by continuations on the same solver.

use super::*;
use crate::drive::{decode_caught, AnySolver, Caught, DSol, SolverCfg};
use crate::props::c04::subst_instance;
use crate::report::{panic_site, Violation};
use std::cell::Cell;
use std::collections::BTreeMap;

/// An interruption schedule over callback invocations 1..
#[derive(Clone, Debug, PartialEq, Eq)]
pub enum Sched {
    Never,
    /// false exactly at invocation k
    At(usize),
    /// false from invocation k on
    From(usize),
    /// false exactly at k and j
    At2(usize, usize),
}

impl Sched {
    fn answer(&self, n: usize) -> bool {
        match self {
            Sched::Never => true,
            Sched::At(k) => n != *k,
            Sched::From(k) => n < *k,
            Sched::At2(k, j) => n != *k && n != *j,
        }
    }
    fn name(&self) -> String {
        format!("{:?}", self)
    }
}

fn limited(
    solver: &mut AnySolver,
    pc: &ProgCtx,
    g: &GoalCtx,
    s: &Sched,
) -> (Caught<DSol>, usize) {
    let n = Cell::new(0usize);
    let cb = || {
        n.set(n.get() + 1);
        s.answer(n.get())
    };
    let (r, _) = solver.solve_limited(&*pc.chalk, &g.peeled.ugoal, &cb);
    (decode_caught(&pc.chalk, &g.peeled, r), n.get())
}

/// Does the limited result `l` contradict the full answer `f`?
fn contradicts(l: &DSol, f: &DSol) -> Option<&'static str> {
    if l == f {
        return None;
    }
    match l {
        DSol::NoSolution => Some("limited-says-none"),
        DSol::Unique(_) => Some("limited-says-unique"),
        DSol::Definite(d) => match f {
            DSol::Unique(u) => {
                if subst_instance(d, u) {
                    None
                } else {
                    Some("limited-definite-excludes-full-answer")
                }
            }
            DSol::NoSolution => None,
            _ => None,
        },
        DSol::Suggested(_) | DSol::Unknown => None,
    }
}

pub fn run_c11(rep: &Report) -> i32 {
    let thorough = rep.is_thorough();
    let mut corpora = core_corpora(thorough, 1);
    // multi-answer programs: three ground impls of T0 in EVERY order (the SLG solver merges answers
    // one by one, so an interruption between the k-th and (k+1)-th answer is order sensitive)
    {
        use crate::gen::{a, at, b, s};
        let heads = [a(), b(), s(a()), s(b()), s(s(a()))];
        let mut programs = vec![];
        for i in 0..heads.len() {
            for j in 0..heads.len() {
                for k in 0..heads.len() {
                    if i == j || j == k || i == k {
                        continue;
                    }
                    programs.push(Program {
                        structs: vec![
                            StructDecl { name: "A".into(), arity: 0 },
                            StructDecl { name: "B".into(), arity: 0 },
                            StructDecl { name: "S".into(), arity: 1 },
                        ],
                        traits: vec![
                            TraitDecl { name: "T0".into(), arity: 0, coinductive: false },
                            TraitDecl { name: "T1".into(), arity: 0, coinductive: false },
                        ],
                        impls: [i, j, k].iter().map(|h| Rule { nvars: 0, head: at(heads[*h].clone(), "T0"), body: vec![] }).collect(),
                    });
                }
            }
        }
        corpora.push(Corpus { frag: "f1multi", programs, goals: gen::goals_f1a(false) });
    }
    let max_n = if thorough { 60 } else { 16 };
    let cfgs = [SolverCfg::SLG, SolverCfg::REC, SolverCfg::REC_NOCACHE];
    for_each_program(rep, &corpora, |pc, goals| {
        let mut local: BTreeMap<String, u64> = BTreeMap::new();
        let alpha = super::c10::alphabet(pc.frag, goals, if thorough { 6 } else { 3 });
        for g in &alpha {
            for cfg in cfgs {
                // full answer on a fresh solver
                let (full, _) = drive::solve_fresh(&pc.chalk, &g.peeled, cfg);
                let full = match full {
                    Caught::Ok(f) => f,
                    _ => continue, // C09
                };
                // clean limited run counts the callback invocations
                let mut s0 = AnySolver::new(cfg);
                let (clean, n_calls) = limited(&mut s0, pc, g, &Sched::Never);
                *local.entry("limited_calls".into()).or_insert(0) += 1;
                if clean != Caught::Ok(full.clone()) {
                    rep.violation(Violation {
                        property: "C11".into(),
                        kind: "uninterrupted-limited-differs-from-solve".into(),
                        site: format!("{}/{}", cfg.short(), pc.class),
                        what: format!("{} `{}`: solve_limited(always continue) = {:?}, solve = {:?}", cfg.name(), g.text, clean, full),
                        input: pc.input(g, &cfg.name()),
                    });
                }
                rep.max("max_callback_invocations", n_calls as u64);
                if n_calls == 0 {
                    *local.entry("goals_with_no_callback_invocation".into()).or_insert(0) += 1;
                    continue;
                }
                *local.entry("goals_with_interruption_points".into()).or_insert(0) += 1;
                let n = n_calls.min(max_n);
                if n_calls > max_n {
                    *local.entry("goals_with_truncated_schedule_space".into()).or_insert(0) += 1;
                }
                // deviation-bounded schedules: 1 deviation, then 2
                let mut scheds = vec![];
                for k in 1..=n {
                    scheds.push(Sched::At(k));
                }
                for k in 1..=n {
                    scheds.push(Sched::From(k));
                }
                let pair_limit = if thorough { n.min(24) } else { n.min(4) };
                for k in 1..=pair_limit {
                    for j in (k + 1)..=(pair_limit + 1) {
                        scheds.push(Sched::At2(k, j));
                    }
                }
                // continuations on the same solver (0 = solve, 1 = limited/always, 2 = limited/false at 1)
                let conts: Vec<Vec<u8>> = if thorough {
                    vec![vec![0], vec![1, 0], vec![2, 0], vec![0, 0], vec![2, 2, 0]]
                } else {
                    vec![vec![0], vec![2, 0]]
                };
                for s in &scheds {
                    for cont in &conts {
                        let mut solver = AnySolver::new(cfg);
                        let (l, _) = limited(&mut solver, pc, g, s);
                        *local.entry("limited_calls".into()).or_insert(0) += 1;
                        *local.entry("schedules".into()).or_insert(0) += 1;
                        let input = || {
                            json!({"fragment": pc.frag, "program_index": pc.pi, "program": pc.text, "goal": g.text,
                                "solver": cfg.name(), "schedule": s.name(), "continuation": cont,
                                "callback_invocations_of_clean_run": n_calls})
                        };
                        match &l {
                            Caught::Ok(l) => {
                                if l != &full {
                                    *local.entry("interrupted_results_weaker_than_full".into()).or_insert(0) += 1;
                                }
                                // definite guidance produced by an interrupted solve is a claim of its own
                                // ("every solution has this shape"): it must not exclude a solution,
                                // whatever the (possibly weaker) full answer says
                                if let (DSol::Definite(_), true) = (l, l != &full) {
                                    let ac = crate::oracle::AnswerCheck {
                                        refm: &pc.refm,
                                        pa: &g.pa,
                                        peeled: &g.peeled,
                                        depth: 3,
                                        solver: cfg.short(),
                                        class: pc.class,
                                    };
                                    for is in ac.check(l).0 {
                                        rep.violation(Violation {
                                            property: "C11".into(),
                                            kind: format!("limited-{}", is.kind),
                                            site: is.site.clone(),
                                            what: format!(
                                                "{} `{}` interrupted by {}: {:?} (full answer {:?}) :: {}",
                                                cfg.name(), g.text, s.name(), l, full, is.detail
                                            ),
                                            input: input(),
                                        });
                                    }
                                }
                                if let Some(kind) = contradicts(l, &full) {
                                    rep.violation(Violation {
                                        property: "C11".into(),
                                        kind: kind.into(),
                                        site: format!("{}/{}", cfg.short(), pc.class),
                                        what: format!("{} `{}` interrupted by {}: {:?} contradicts the full answer {:?}", cfg.name(), g.text, s.name(), l, full),
                                        input: input(),
                                    });
                                }
                            }
                            Caught::Panic(loc, msg) => {
                                rep.violation(Violation {
                                    property: "C11".into(),
                                    kind: "panic-when-interrupted".into(),
                                    site: panic_site(loc, msg),
                                    what: format!("{} `{}` interrupted by {} panics at {}: {}", cfg.name(), g.text, s.name(), loc, msg),
                                    input: input(),
                                });
                                continue;
                            }
                            _ => continue,
                        }
                        // continuations
                        for (ci, c) in cont.iter().enumerate() {
                            let r = match c {
                                0 => {
                                    let (r, _) = solver.solve(&*pc.chalk, &g.peeled.ugoal);
                                    decode_caught(&pc.chalk, &g.peeled, r)
                                }
                                1 => limited(&mut solver, pc, g, &Sched::Never).0,
                                _ => limited(&mut solver, pc, g, &Sched::At(1)).0,
                            };
                            *local.entry("continuation_calls".into()).or_insert(0) += 1;
                            match r {
                                Caught::Ok(a) => {
                                    let must_equal = *c == 0 || *c == 1;
                                    if must_equal && a != full {
                                        rep.violation(Violation {
                                            property: "C11".into(),
                                            kind: "later-solve-differs-from-fresh".into(),
                                            // the order in which (tabled) answers reach the aggregator decides D1's
                                            // non-linear guidance and D22's trivial answer; keep those apart
                                            site: if super::c13::trivial_unique_vs_unknown(&a, &full) {
                                                format!("{}/trivial-unique-vs-unknown", cfg.short())
                                            } else if cfg.is_slg() && super::c13::nonlinear_only(&a, &full) {
                                                format!("{}/nonlinear-only", cfg.short())
                                            } else {
                                                format!("{}/{}", cfg.short(), pc.class)
                                            },
                                            what: format!(
                                                "{} `{}`: after an interruption by {} (continuation step {}), {} = {:?}, fresh solver = {:?}",
                                                cfg.name(), g.text, s.name(), ci,
                                                if *c == 0 { "solve" } else { "solve_limited(always continue)" }, a, full
                                            ),
                                            input: input(),
                                        });
                                        break;
                                    }
                                    if !must_equal {
                                        if let Some(kind) = contradicts(&a, &full) {
                                            rep.violation(Violation {
                                                property: "C11".into(),
                                                kind: kind.into(),
                                                site: format!("{}/{}", cfg.short(), pc.class),
                                                what: format!("{} `{}`: second interruption gives {:?}, full answer {:?}", cfg.name(), g.text, a, full),
                                                input: input(),
                                            });
                                        }
                                    }
                                }
                                Caught::Panic(loc, msg) => {
                                    rep.violation(Violation {
                                        property: "C11".into(),
                                        kind: "panic-after-interruption".into(),
                                        site: panic_site(&loc, &msg),
                                        what: format!("{} `{}`: after an interruption by {}, the next call panics at {}: {}", cfg.name(), g.text, s.name(), loc, msg),
                                        input: input(),
                                    });
                                    break;
                                }
                                _ => break,
                            }
                        }
                    }
                }
                if pc.pi % 300 == 0 {
                    rep.sample(json!({"program": pc.text, "goal": g.text, "solver": cfg.name(),
                        "callback_invocations": n_calls, "schedules": scheds.len(), "full_answer": full.tag()}));
                }
            }
        }
        rep.merge_counts(&local);
    });
    c01::vacuity(rep, &["schedules", "interrupted_results_weaker_than_full", "goals_with_interruption_points"]);
    let states = rep.get("schedules");
    let tr = rep.get("limited_calls") + rep.get("continuation_calls");
    let nt = rep.get("interrupted_results_weaker_than_full");
    rep.finish(
        states,
        tr,
        nt,
        "for every program of the reduced C01 corpus, every goal of its history alphabet and each of SLG / recursive / recursive-without-cache: a clean solve_limited counts the N callback invocations, then every interruption schedule with <= 2 deviations (false exactly at k, false from k on, false at k and j; k,j <= N capped at the tier's bound) x every continuation sequence ({solve}, {interrupted again, solve}, ...) on the same solver; non-trivial = schedules whose interrupted result really differs from the full answer",
        rep.get("goals_with_truncated_schedule_space") == 0,
        &["the full answer is the fresh-solver `solve` answer; 'does not contradict' = equal, or ambiguous with guidance the full Unique answer is an instance of"],
    )
}
