//! C12: a panic in a database callback leaves the solver usable.
//! Crash-point enumeration: the n-th database call of a solve panics, for every
//! n up to the number of calls a clean solve makes; optionally a second injected
//! panic in the retry.

use super::*;
use crate::drive::{decode_caught, AnySolver, Caught, DSol, SolverCfg};
use crate::faultdb::FaultDb;
use crate::report::{panic_site, Violation};
use rustc_hash::FxHashSet;
use std::collections::BTreeMap;

pub fn run_c12(rep: &Report) -> i32 {
    let thorough = rep.is_thorough();
    let corpora = core_corpora(false, 1);
    let cfgs = [SolverCfg::SLG, SolverCfg::REC];
    // programs with at least one where-clause, thinned deterministically
    let stride = if thorough { 6 } else { 40 };
    let second_fault_limit = if thorough { 25 } else { 0 };
    for_each_program(rep, &corpora, |pc, goals| {
        if pc.ast.impls.iter().all(|r| r.body.is_empty()) || pc.pi % stride != 0 {
            return;
        }
        let mut local: BTreeMap<String, u64> = BTreeMap::new();
        let alpha = super::c10::alphabet(pc.frag, goals, if thorough { 4 } else { 3 });
        if alpha.is_empty() {
            return;
        }
        *local.entry("programs".into()).or_insert(0) += 1;
        let db = FaultDb::new(pc.chalk.clone());
        for cfg in cfgs {
            // fresh answers through the (unarmed) fault db
            let mut fresh: Vec<Option<DSol>> = vec![];
            for g in &alpha {
                db.reset(None, false);
                let mut s = AnySolver::new(cfg);
                let (r, _) = s.solve(&db, &g.peeled.ugoal);
                fresh.push(match decode_caught(&pc.chalk, &g.peeled, r) {
                    Caught::Ok(a) => Some(a),
                    _ => None,
                });
            }
            for (gi, g) in alpha.iter().enumerate() {
                let Some(full) = fresh[gi].clone() else { continue };
                // clean run: number of calls and their names
                db.reset(None, true);
                let mut s = AnySolver::new(cfg);
                let _ = s.solve(&db, &g.peeled.ugoal);
                let n_calls = db.calls();
                let log = db.take_log();
                rep.max("max_db_calls_of_a_clean_solve", n_calls as u64);
                *local.entry("goals".into()).or_insert(0) += 1;
                let mut crash_states: FxHashSet<String> = FxHashSet::default();
                for n in 1..=n_calls {
                    // (second injected crash, order of the clean retries: 0 = same goal first, 1 = the other goals first)
                    // order 2 (SLG only): the first call after the crash is `solve_multiple`
                    let firsts: Vec<(Option<usize>, u8)> = if cfg.is_slg() && !g.peeled.var_creation.is_empty() {
                        vec![(None, 0u8), (None, 1u8), (None, 2u8)]
                    } else {
                        vec![(None, 0u8), (None, 1u8)]
                    };
                    let variants: Vec<(Option<usize>, u8)> = firsts
                        .into_iter()
                        .chain((1..=second_fault_limit.min(n_calls)).map(|m| (Some(m), 0u8)))
                        .collect();
                    for (second, retry_order) in variants {
                        let mut solver = AnySolver::new(cfg);
                        db.reset(Some(n), false);
                        let (r, _) = solver.solve(&db, &g.peeled.ugoal);
                        *local.entry("solve_calls".into()).or_insert(0) += 1;
                        match r {
                            Caught::Injected => {}
                            other => {
                                rep.machinery_error(format!(
                                    "crash point {} of {} was not reached deterministically ({:?}) on `{}`",
                                    n, n_calls, other.is_ok(), g.text
                                ));
                                continue;
                            }
                        }
                        if second.is_none() && retry_order == 1 {
                            *local.entry("crash_schedules_other_goals_first".into()).or_insert(0) += 1;
                        } else if second.is_none() {
                            *local.entry("crash_points".into()).or_insert(0) += 1;
                            *local.entry(format!("crash_in_{}", log[n - 1])).or_insert(0) += 1;
                            crash_states.insert(solver.fingerprint());
                        } else {
                            *local.entry("double_crash_schedules".into()).or_insert(0) += 1;
                        }
                        let input = || {
                            json!({"fragment": pc.frag, "program_index": pc.pi, "program": pc.text, "goal": g.text,
                                "solver": cfg.name(), "crash_at_db_call": n, "db_method": log[n - 1],
                                "second_crash_at": second, "retry_order": if retry_order == 0 { "same goal first" } else { "other goals first" }, "db_calls_of_clean_solve": n_calls})
                        };
                        // optional second injected panic during the retry
                        if let Some(m) = second {
                            db.reset(Some(m), false);
                            let (r2, _) = solver.solve(&db, &g.peeled.ugoal);
                            *local.entry("solve_calls".into()).or_insert(0) += 1;
                            match r2 {
                                Caught::Injected | Caught::Ok(_) => {}
                                Caught::Panic(loc, msg) => {
                                    rep.violation(Violation {
                                        property: "C12".into(),
                                        kind: "panic-in-retry".into(),
                                        site: panic_site(&loc, &msg),
                                        what: format!("{} `{}`: after a callback panic at db call {} ({}), the retry (itself to be crashed at call {}) panics at {}: {}", cfg.name(), g.text, n, log[n - 1], m, loc, msg),
                                        input: input(),
                                    });
                                    continue;
                                }
                                Caught::Budget => continue,
                            }
                        }
                        // clean retries of the same goal and of the other goals
                        db.reset(None, false);
                        if retry_order == 2 {
                            // enumeration right after the crash must equal a fresh solver's enumeration
                            let enumerate = |solver: &mut AnySolver| -> Option<Vec<String>> {
                                let dec = crate::drive::Decoder::with_universes(&pc.chalk, &g.peeled.universes);
                                let mut out = vec![];
                                let (r, _) = solver.solve_multiple(&db, &g.peeled.ugoal, &mut |a, next| {
                                    out.push(match &a {
                                        chalk_solve::SubstitutionResult::Definite(c) => format!("Definite {:?} next={}", dec.constrained(c), next),
                                        chalk_solve::SubstitutionResult::Ambiguous(c) => format!("Ambiguous {:?} next={}", dec.constrained(c), next),
                                        chalk_solve::SubstitutionResult::Floundered => format!("Floundered next={}", next),
                                    });
                                    out.len() < 6
                                });
                                match r {
                                    Caught::Ok(ended) => {
                                        out.push(format!("returned {}", ended));
                                        Some(out)
                                    }
                                    Caught::Panic(loc, msg) => Some(vec![format!("PANIC {} {}", loc, msg)]),
                                    _ => None,
                                }
                            };
                            let got = enumerate(&mut solver);
                            let want = enumerate(&mut AnySolver::new(cfg));
                            *local.entry("solve_calls".into()).or_insert(0) += 2;
                            *local.entry("crash_schedules_enumeration_first".into()).or_insert(0) += 1;
                            if got != want {
                                rep.violation(Violation {
                                    property: "C12".into(),
                                    kind: "wrong-enumeration-after-panic".into(),
                                    site: format!("{}/solve_multiple", cfg.short()),
                                    what: format!(
                                        "{}: after a callback panic at db call {}/{} ({}) while solving `{}`, solve_multiple yields {:?}, a fresh solver {:?}",
                                        cfg.name(), n, n_calls, log[n - 1], g.text, got, want
                                    ),
                                    input: input(),
                                });
                                continue;
                            }
                        }
                        let mut order: Vec<usize> = (0..alpha.len()).filter(|k| *k != gi).collect();
                        if retry_order == 0 {
                            order.insert(0, gi);
                        } else {
                            order.push(gi);
                        }
                        for (oi, &k) in order.iter().enumerate() {
                            let Some(want) = &fresh[k] else { continue };
                            let (r, _) = solver.solve(&db, &alpha[k].peeled.ugoal);
                            *local.entry("solve_calls".into()).or_insert(0) += 1;
                            match decode_caught(&pc.chalk, &alpha[k].peeled, r) {
                                Caught::Ok(a) => {
                                    // state invariant: once a later solve has returned, nothing of the unwound
                                    // solve may be left on the recursive solver's stack or in its search graph
                                    // (leftovers shrink the overflow budget of every later solve for good)
                                    if let Some((stack, graph)) = solver.rec_residue() {
                                        if stack != 0 || graph != 0 {
                                            rep.violation(Violation {
                                                property: "C12".into(),
                                                kind: "solver-state-not-restored-after-panic".into(),
                                                site: format!("recursive/residue-stack-{}-graph-{}", (stack != 0) as u8, (graph != 0) as u8),
                                                what: format!(
                                                    "{}: after a callback panic at db call {}/{} ({}) while solving `{}` and a later successful solve of `{}`, the solver keeps stack depth {} and {} search-graph nodes",
                                                    cfg.name(), n, n_calls, log[n - 1], g.text, alpha[k].text, stack, graph
                                                ),
                                                input: input(),
                                            });
                                            break;
                                        }
                                    }
                                    if &a != want {
                                        // is the panic needed at all? the same goals in the same order on a solver
                                        // that never saw a panic: if the answer deviates there too, this is the
                                        // history dependence C10 reports (D16), reached through the retry sequence
                                        let without_panic = {
                                            let mut clean = AnySolver::new(cfg);
                                            let mut last = None;
                                            for &j in &order[..=oi] {
                                                let (rj, _) = clean.solve(&*pc.chalk, &alpha[j].peeled.ugoal);
                                                last = match decode_caught(&pc.chalk, &alpha[j].peeled, rj) {
                                                    Caught::Ok(x) => Some(x),
                                                    _ => None,
                                                };
                                            }
                                            last
                                        };
                                        let same_without = without_panic.as_ref() == Some(&a);
                                        rep.violation(Violation {
                                            property: "C12".into(),
                                            kind: "wrong-answer-after-panic".into(),
                                            site: if same_without {
                                                format!("{}/same-answer-without-the-panic", cfg.short())
                                            } else {
                                                format!("{}/{}", cfg.short(), if k == gi { "same-goal" } else { "other-goal" })
                                            },
                                            what: format!(
                                                "{}: after a callback panic at db call {}/{} ({}) while solving `{}`, `{}` -> {:?}, fresh solver -> {:?}",
                                                cfg.name(), n, n_calls, log[n - 1], g.text, alpha[k].text, a, want
                                            ),
                                            input: input(),
                                        });
                                        break;
                                    }
                                }
                                Caught::Panic(loc, msg) => {
                                    rep.violation(Violation {
                                        property: "C12".into(),
                                        kind: "panic-in-retry".into(),
                                        site: panic_site(&loc, &msg),
                                        what: format!(
                                            "{}: after a callback panic at db call {}/{} ({}) while solving `{}`, solving `{}` panics at {}: {}",
                                            cfg.name(), n, n_calls, log[n - 1], g.text, alpha[k].text, loc, msg
                                        ),
                                        input: input(),
                                    });
                                    break;
                                }
                                _ => break,
                            }
                        }
                    }
                }
                *local.entry("distinct_solver_states_at_crash".into()).or_insert(0) += crash_states.len() as u64;
                if pc.pi % (stride * 5) == 0 && gi == 0 {
                    rep.sample(json!({"program": pc.text, "goal": g.text, "solver": cfg.name(), "db_calls": n_calls,
                        "first_calls": log.iter().take(12).collect::<Vec<_>>(), "distinct_states_at_crash": crash_states.len(),
                        "full_answer": full.tag()}));
                }
            }
        }
        rep.merge_counts(&local);
    });
    c01::vacuity(rep, &["crash_points", "distinct_solver_states_at_crash"]);
    let states = rep.get("distinct_solver_states_at_crash");
    let tr = rep.get("solve_calls");
    let nt = rep.get("crash_points") + rep.get("crash_schedules_other_goals_first") + rep.get("crash_schedules_enumeration_first") + rep.get("double_crash_schedules");
    rep.finish(
        states,
        tr,
        nt,
        "for a deterministic thinning of the reduced C01 corpus (programs with where-clauses), every goal of the history alphabet and both solvers: a clean solve through the counting database gives N calls; then EVERY crash point n = 1..N is injected (the n-th call panics, whichever method it is), caught, optionally followed by a second injected panic in the retry (thorough), then the same goal and every other alphabet goal are solved on the same solver in both orders (same goal first / other goals first) and compared with fresh-solver answers; evaluations = solve calls, non-trivial = injected crash schedules (every one is a distinct (goal, n[, m]) triple)",
        true,
        &["the database wrapper forwards all RustIrDatabase/UnificationDatabase methods of chalk-integration's Program", "panics are injected only from database callbacks, as the property states"],
    )
}
