//! C09: every solve call terminates (within a tick budget, without panicking).

use super::*;
use crate::drive::{AnySolver, Caught, SolverCfg};
use crate::report::{panic_site, Violation};
use std::collections::BTreeMap;

/// Growing families: naive derivations do not terminate / answer sets are unbounded.
pub fn growing_programs() -> Vec<Program> {
    use crate::gen::*;
    let mk = |impls: Vec<Rule>, co: bool| Program {
        structs: vec![
            StructDecl { name: "A".into(), arity: 0 },
            StructDecl { name: "B".into(), arity: 0 },
            StructDecl { name: "S".into(), arity: 1 },
        ],
        traits: vec![
            TraitDecl { name: "T0".into(), arity: 0, coinductive: co },
            TraitDecl { name: "T1".into(), arity: 0, coinductive: co },
        ],
        impls,
    };
    let r = |nv: u32, head: Atom, body: Vec<Atom>| Rule { nvars: nv, head, body };
    let mut v = vec![];
    for co in [false, true] {
        // growing: impl<T> T0 for T where S<T>: T0
        v.push(mk(vec![r(1, at(x(0), "T0"), vec![at(s(x(0)), "T0")])], co));
        // polymorphic recursion: impl<T> T0 for S<T> where S<S<T>>: T0
        v.push(mk(vec![r(1, at(s(x(0)), "T0"), vec![at(s(s(x(0))), "T0")])], co));
        // unbounded answer set: impl T0 for A; impl<T> T0 for S<T> where T: T0
        v.push(mk(
            vec![r(0, at(a(), "T0"), vec![]), r(1, at(s(x(0)), "T0"), vec![at(x(0), "T0")])],
            co,
        ));
        // two growing traits feeding each other
        v.push(mk(
            vec![
                r(1, at(x(0), "T0"), vec![at(s(x(0)), "T1")]),
                r(1, at(x(0), "T1"), vec![at(s(x(0)), "T0")]),
                r(0, at(a(), "T1"), vec![]),
            ],
            co,
        ));
        // growth with a base case higher up
        v.push(mk(
            vec![
                r(1, at(x(0), "T0"), vec![at(s(x(0)), "T0")]),
                r(0, at(s(s(s(a()))), "T0"), vec![]),
            ],
            co,
        ));
        // branching growth
        v.push(mk(
            vec![r(1, at(s(x(0)), "T0"), vec![at(s(s(x(0))), "T0"), at(x(0), "T1")]), r(1, at(x(0), "T1"), vec![])],
            co,
        ));
    }
    v
}

pub fn run_c09(rep: &Report) -> i32 {
    let thorough = rep.is_thorough();
    let mut corpora = core_corpora(thorough, 1);
    corpora.push(Corpus {
        frag: "growing",
        programs: growing_programs(),
        goals: gen::goals_f1a(true),
    });
    // C09 quantifies over "default and reduced size limits"; the recursive
    // solver with its cache disabled is C10's configuration, not C09's (without
    // the cache its work is exponential in the depth of a derivation).
    let cfgs: Vec<SolverCfg> = SolverCfg::all_configs()
        .into_iter()
        .filter(|c| *c != SolverCfg::REC_NOCACHE)
        .collect();
    // a runaway SLG search costs time quadratic in the budget (its state grows): 12 000 ticks ≈ 6 s,
    // 50 000 ≈ 100 s per case, which made the thorough tier exceed two hours; the deeper tier
    // therefore widens the corpus, not the budget
    let budget: u64 = if thorough { 16_000 } else { 9_000 };
    for_each_program(rep, &corpora, |pc, goals| {
        let mut local: BTreeMap<String, u64> = BTreeMap::new();
        for g in goals {
            *local.entry("cases".into()).or_insert(0) += 1;
            for cfg in &cfgs {
                // solve
                let mut solver = AnySolver::new(*cfg);
                drive::inflight_begin(|| format!("{} :: {} :: {}", cfg.name(), g.text, pc.text));
                let (r, t) = solver.solve_budget(&*pc.chalk, &g.peeled.ugoal, budget);
                drive::inflight_end();
                *local.entry("calls".into()).or_insert(0) += 1;
                judge(rep, &mut local, pc, g, cfg, "solve", &r.is_ok(), &r_kind(&r), t, budget);
                // the overflow panic is the recursive solver's documented way out of a search that is
                // really too deep; the solver must stay usable afterwards: goals that were in flight
                // at that moment are solved again on the same instance
                if matches!(&r, Caught::Panic(_, m) if m.contains("overflow depth reached")) {
                    for g2 in goals.iter().take(10) {
                        let (r2, _) = solver.solve_budget(&*pc.chalk, &g2.peeled.ugoal, budget);
                        *local.entry("calls".into()).or_insert(0) += 1;
                        *local.entry("calls_after_an_overflow_panic".into()).or_insert(0) += 1;
                        if let Caught::Panic(loc, msg) = &r2 {
                            if !msg.contains("overflow depth reached") {
                                rep.violation(Violation {
                                    property: "C09".into(),
                                    kind: "panic-after-overflow".into(),
                                    site: panic_site(loc, msg),
                                    what: format!(
                                        "{} panics at {} ({}) on `{}` after the overflow panic of `{}` on the same solver",
                                        cfg.name(), loc, msg, g2.text, g.text
                                    ),
                                    input: json!({"program": pc.text, "history": [g.text], "goal": g2.text, "solver": cfg.name()}),
                                });
                            }
                        }
                    }
                }
                // solve_multiple with a 24-answer cap (SLG only: unimplemented by design on the recursive solver)
                if cfg.is_slg() && !g.peeled.var_creation.is_empty() {
                    let mut solver = AnySolver::new(*cfg);
                    let mut n = 0;
                    drive::inflight_begin(|| format!("{} multiple :: {} :: {}", cfg.name(), g.text, pc.text));
                    let (r, t) = solver.solve_multiple(&*pc.chalk, &g.peeled.ugoal, &mut |_a, _next| {
                        n += 1;
                        n < 24
                    });
                    drive::inflight_end();
                    *local.entry("calls".into()).or_insert(0) += 1;
                    judge(rep, &mut local, pc, g, cfg, "solve_multiple", &r.is_ok(), &r_kind(&r), t, drive::DEFAULT_BUDGET);
                }
            }
        }
        rep.merge_counts(&local);
    });
    c01::vacuity(rep, &["returned"]);
    let cases = rep.get("cases");
    let calls = rep.get("calls");
    let nt = rep.get("returned_after_100_ticks_or_more") + rep.get("cases_growing");
    rep.note("tick_budget", json!(budget));
    rep.finish(
        cases,
        calls,
        nt.max(rep.get("returned") / 2),
        "every (program, goal) of the reduced C01 corpus and of the growing families (growing types, polymorphic recursion, unbounded answer sets; inductive and coinductive) x 6 configurations (SLG max_size 10/4/3; recursive default, max_size 4, overflow 10) x {solve, solve_multiple with a 24-answer cap (SLG)}; each call must return within the tick budget without panicking (overflow-depth panic allowed when the proof search really is that deep); non-trivial = calls that needed >= 100 ticks, or all calls on growing programs",
        true,
        &[
            "a tick is one iteration of a solver main loop (hook H1); the budget is far above the largest count observed on returning calls, which is reported",
            "a wall-clock watchdog covers loops that contain no tick",
        ],
    )
}

fn r_kind<T>(r: &Caught<T>) -> (u8, String, String) {
    match r {
        Caught::Ok(_) => (0, String::new(), String::new()),
        Caught::Panic(l, m) => (1, l.clone(), m.clone()),
        Caught::Budget => (2, String::new(), String::new()),
        Caught::Injected => (3, String::new(), String::new()),
    }
}

#[allow(clippy::too_many_arguments)]
fn judge(
    rep: &Report,
    local: &mut BTreeMap<String, u64>,
    pc: &ProgCtx,
    g: &GoalCtx,
    cfg: &SolverCfg,
    op: &str,
    _ok: &bool,
    r: &(u8, String, String),
    ticks: u64,
    budget: u64,
) {
    match r.0 {
        0 => {
            *local.entry("returned".into()).or_insert(0) += 1;
            if ticks >= 100 {
                *local.entry("returned_after_100_ticks_or_more".into()).or_insert(0) += 1;
            }
            if pc.frag == "growing" {
                *local.entry("cases_growing".into()).or_insert(0) += 1;
            }
            rep.max("max_ticks_of_a_returning_call", ticks);
            if ticks > 3000 {
                rep.sample(json!({"slow_but_returning": true, "ticks": ticks, "op": op, "solver": cfg.name(), "goal": g.text, "program": pc.text}));
            }
        }
        1 => {
            let (loc, msg) = (&r.1, &r.2);
            // allowed: the recursive solver's overflow panic when the search is really deep
            if msg.contains("overflow depth reached") {
                let deep = pc.frag == "growing"
                    || matches!(cfg, SolverCfg::Rec { overflow, .. } if *overflow <= 10);
                *local.entry("overflow_depth_panics".into()).or_insert(0) += 1;
                if deep {
                    return;
                }
            }
            rep.violation(Violation {
                property: "C09".into(),
                kind: "panic".into(),
                site: panic_site(loc, msg),
                what: format!("{} {} panics at {} ({}) on `{}`", cfg.name(), op, loc, msg, g.text),
                input: pc.input(g, &cfg.name()),
            });
        }
        2 => {
            *local.entry("budget_exceeded".into()).or_insert(0) += 1;
            rep.violation(Violation {
                property: "C09".into(),
                kind: "budget-exceeded".into(),
                site: format!("{}/{}/{}/{}", cfg.short(), op, pc.class, super::c04::text_shape(&g.text)),
                what: format!(
                    "{} {} does not return within {} ticks on `{}` (largest returning call so far: see evidence)",
                    cfg.name(), op, budget, g.text
                ),
                input: pc.input(g, &cfg.name()),
            });
        }
        _ => {}
    }
}
