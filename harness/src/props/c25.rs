//! C25: binder operations obey the substitution laws.
//!
//! Bounded-exhaustive: every term (types, lifetimes, consts, goals, program
//! clauses, substitutions) of a small grammar up to a rank bound, with bound
//! variables of all three kinds at every de Bruijn depth that is either bound
//! by a binder of the term or free at depths 0..2, indices 0..1; every
//! substitution of length <= 2 from explicit parameter pools. The real chalk
//! operations (`Shift::*`, `Subst::apply`, `Binders::substitute`,
//! `Binders::identity_substitution`, `Substitution::apply`, no-op folders) run
//! on the chalk-ir image of each term and are compared with textbook de Bruijn
//! operations implemented on the module's own AST; the laws of the statement
//! are additionally checked on the real values with chalk's `==`.

use crate::drive::{self, Caught};
use crate::report::{panic_site, Report, Violation};
use chalk_integration::interner::{ChalkFnAbi, ChalkIr};
use chalk_ir::fold::{FallibleTypeFolder, Shift, Subst, TypeFoldable, TypeFolder};
use chalk_ir::interner::HasInterner;
use chalk_ir::*;
use rayon::prelude::*;
use serde_json::json;
use std::cell::{Cell, RefCell};
use std::collections::{BTreeMap, HashMap, HashSet};
use std::convert::Infallible;
use std::sync::Arc;

// ---------------------------------------------------------------------------
// the module's own term language

#[derive(Copy, Clone, Debug, PartialEq, Eq, Hash, PartialOrd, Ord)]
pub enum K {
    Ty,
    Lt,
    Ct,
}

#[derive(Copy, Clone, Debug, PartialEq, Eq, Hash, PartialOrd, Ord)]
pub enum Tag {
    // types
    A,
    S,
    Tuple,
    Ref,
    Array,
    PhTy,
    /// `Bind(FnPtr, [Lt; n], argument types)`: `for<n lifetimes> fn(..)`
    FnPtr,
    /// `Node(Dyn, [Bind(DynBounds, [Ty], qwcs), lifetime])`
    Dyn,
    DynBounds,
    /// `Bind(Qwc, kinds, [Node(Impl, args)])`
    Qwc,
    // lifetimes
    Static,
    PhLt,
    // consts
    CVal,
    PhCt,
    // goals
    Forall,
    Exists,
    /// `Node(Implies, [clause.., goal])`
    Implies,
    All,
    Not,
    EqG,
    /// `Tr<a>` (one argument) or `Tr2<a, b>` (two arguments)
    Impl,
    /// `Bind(Clause, kinds, [Node(Impl, args), condition goals..])`
    Clause,
    /// a substitution, as a list of generic arguments
    SubstList,
    /// produced only by the back-conversion when chalk returns something outside the grammar
    Bad,
}

/// A term. `Bind` puts its children under ONE additional binder level that
/// declares variables of the given kinds.
#[derive(Clone, Debug, PartialEq, Eq, Hash, PartialOrd, Ord)]
pub enum T {
    /// (kind, de Bruijn depth, index within the binder)
    Var(K, usize, usize),
    Node(Tag, Vec<T>),
    Bind(Tag, Vec<K>, Vec<T>),
}

#[derive(Copy, Clone, Debug, PartialEq, Eq)]
enum Sort {
    Ty,
    Lt,
    Ct,
    Goal,
    Clause,
    Subst,
    Other,
}

fn sort_of(t: &T) -> Sort {
    match t {
        T::Var(K::Ty, ..) => Sort::Ty,
        T::Var(K::Lt, ..) => Sort::Lt,
        T::Var(K::Ct, ..) => Sort::Ct,
        T::Node(tag, _) | T::Bind(tag, _, _) => match tag {
            Tag::A | Tag::S | Tag::Tuple | Tag::Ref | Tag::Array | Tag::PhTy | Tag::FnPtr | Tag::Dyn => Sort::Ty,
            Tag::Static | Tag::PhLt => Sort::Lt,
            Tag::CVal | Tag::PhCt => Sort::Ct,
            Tag::Forall | Tag::Exists | Tag::Implies | Tag::All | Tag::Not | Tag::EqG | Tag::Impl => Sort::Goal,
            Tag::Clause => Sort::Clause,
            Tag::SubstList => Sort::Subst,
            Tag::DynBounds | Tag::Qwc | Tag::Bad => Sort::Other,
        },
    }
}

fn kinds_str(ks: &[K]) -> String {
    ks.iter().map(|k| match k { K::Ty => "T", K::Lt => "'l", K::Ct => "C" }).collect::<Vec<_>>().join(",")
}

fn list(ts: &[T]) -> String {
    ts.iter().map(show).collect::<Vec<_>>().join(", ")
}

pub fn show(t: &T) -> String {
    match t {
        T::Var(K::Ty, d, i) => format!("^{}.{}", d, i),
        T::Var(K::Lt, d, i) => format!("'^{}.{}", d, i),
        T::Var(K::Ct, d, i) => format!("c^{}.{}", d, i),
        T::Node(tag, c) => match tag {
            Tag::A => "A".into(),
            Tag::S => format!("S<{}>", list(c)),
            Tag::Tuple => format!("({})", list(c)),
            Tag::Ref => format!("&{} {}", show(&c[0]), show(&c[1])),
            Tag::Array => format!("[{}; {}]", show(&c[0]), show(&c[1])),
            Tag::PhTy => "!1_0".into(),
            Tag::Static => "'static".into(),
            Tag::PhLt => "'!1_1".into(),
            Tag::CVal => "3".into(),
            Tag::PhCt => "c!1_2".into(),
            Tag::Dyn => format!("dyn {} + {}", show(&c[0]), show(&c[1])),
            Tag::Implies => format!("if ({}) {{ {} }}", c[..c.len() - 1].iter().map(show).collect::<Vec<_>>().join("; "), show(&c[c.len() - 1])),
            Tag::All => format!("all({})", list(c)),
            Tag::Not => format!("not {{ {} }}", list(c)),
            Tag::EqG => format!("{} = {}", show(&c[0]), show(&c[1])),
            Tag::Impl => format!("{}<{}>", if c.len() == 1 { "Tr" } else { "Tr2" }, list(c)),
            Tag::SubstList => format!("[{}]", list(c)),
            o => format!("{:?}({})", o, list(c)),
        },
        T::Bind(tag, ks, c) => match tag {
            Tag::FnPtr => format!("for<{}> fn({})", ks.len(), list(c)),
            Tag::DynBounds => format!("exists<Self> {{ {} }}", list(c)),
            Tag::Qwc => format!("for<{}> {}", kinds_str(ks), list(c)),
            Tag::Forall => format!("forall<{}> {{ {} }}", kinds_str(ks), list(c)),
            Tag::Exists => format!("exists<{}> {{ {} }}", kinds_str(ks), list(c)),
            Tag::Clause => {
                if c.len() == 1 {
                    format!("for<{}> {{ {} }}", kinds_str(ks), show(&c[0]))
                } else {
                    format!("for<{}> {{ {} :- {} }}", kinds_str(ks), show(&c[0]), list(&c[1..]))
                }
            }
            o => format!("{:?}<{}>({})", o, kinds_str(ks), list(c)),
        },
    }
}

fn node(tag: Tag, c: Vec<T>) -> T {
    T::Node(tag, c)
}
fn leaf(tag: Tag) -> T {
    T::Node(tag, vec![])
}

/// Generation rank: the smallest n such that the term belongs to the level-n
/// set of its sort (see `Gen`).
fn rank(t: &T) -> usize {
    fn mx(c: &[T]) -> usize {
        c.iter().map(rank).max().unwrap_or(0)
    }
    match t {
        T::Var(..) => 1,
        T::Node(Tag::Dyn, c) => {
            // Dyn -> DynBounds -> Qwc -> Impl -> args: one level for the whole trait object
            let mut m = 0;
            if let T::Bind(_, _, qs) = &c[0] {
                for q in qs {
                    if let T::Bind(_, _, i) = q {
                        if let T::Node(_, args) = &i[0] {
                            m = m.max(mx(args));
                        }
                    }
                }
            }
            1 + m.max(rank(&c[1]))
        }
        T::Bind(Tag::Clause, _, c) => {
            let head = rank(&c[0]);
            let conds = if c.len() > 1 { 1 + mx(&c[1..]) } else { 0 };
            head.max(conds).max(2)
        }
        T::Node(_, c) | T::Bind(_, _, c) => 1 + mx(c),
    }
}

fn size(t: &T) -> usize {
    match t {
        T::Var(..) => 1,
        T::Node(_, c) | T::Bind(_, _, c) => 1 + c.iter().map(size).sum::<usize>(),
    }
}

// ---------------------------------------------------------------------------
// REFERENCE operations (textbook de Bruijn, on the module's own AST)

/// Adds `k` to every variable that is free at cutoff `c`.
fn r_shift_in(t: &T, k: usize, c: usize) -> T {
    match t {
        T::Var(kind, d, i) => T::Var(*kind, if *d >= c { *d + k } else { *d }, *i),
        T::Node(tag, ch) => T::Node(*tag, ch.iter().map(|x| r_shift_in(x, k, c)).collect()),
        T::Bind(tag, ks, ch) => T::Bind(*tag, ks.clone(), ch.iter().map(|x| r_shift_in(x, k, c + 1)).collect()),
    }
}

/// Subtracts `k` from every free variable; `None` when a free variable refers
/// to one of the `k` binders being left (it would escape).
fn r_shift_out(t: &T, k: usize, c: usize) -> Option<T> {
    Some(match t {
        T::Var(kind, d, i) => {
            if *d >= c {
                if *d - c < k {
                    return None;
                }
                T::Var(*kind, *d - k, *i)
            } else {
                t.clone()
            }
        }
        T::Node(tag, ch) => T::Node(*tag, ch.iter().map(|x| r_shift_out(x, k, c)).collect::<Option<Vec<_>>>()?),
        T::Bind(tag, ks, ch) => T::Bind(*tag, ks.clone(), ch.iter().map(|x| r_shift_out(x, k, c + 1)).collect::<Option<Vec<_>>>()?),
    })
}

/// Eliminates the innermost enclosing binder: its variable `i` becomes
/// `params[i]` (shifted under the binders passed on the way), every other free
/// variable moves one level out. `None` = ill-formed request (index or kind).
fn r_subst(t: &T, params: &[T], c: usize) -> Option<T> {
    Some(match t {
        T::Var(kind, d, i) => {
            if *d < c {
                t.clone()
            } else if *d == c {
                let p = params.get(*i)?;
                let ok = matches!((kind, sort_of(p)), (K::Ty, Sort::Ty) | (K::Lt, Sort::Lt) | (K::Ct, Sort::Ct));
                if !ok {
                    return None;
                }
                r_shift_in(p, c, 0)
            } else {
                T::Var(*kind, *d - 1, *i)
            }
        }
        T::Node(tag, ch) => T::Node(*tag, ch.iter().map(|x| r_subst(x, params, c)).collect::<Option<Vec<_>>>()?),
        T::Bind(tag, ks, ch) => T::Bind(*tag, ks.clone(), ch.iter().map(|x| r_subst(x, params, c + 1)).collect::<Option<Vec<_>>>()?),
    })
}

/// What the variables of a term look like.
#[derive(Default, Clone, Debug)]
struct Info {
    any_var: bool,
    /// some variable is bound by a binder inside the term
    bound_inner: bool,
    /// largest free depth (relative to the whole term), if any variable is free
    max_free: Option<usize>,
    /// some free variable occurs under a binder of the term
    free_under_binder: bool,
    /// kinds (bit 1 = Ty, 2 = Lt, 4 = Ct) used for the innermost free index 0 and 1
    usage: [u8; 2],
    /// a free-depth-0 variable occurs under a binder of the term
    level0_under_binder: bool,
    /// binder tags enclosing free variables ("top" for none)
    under: Vec<&'static str>,
}

fn analyze(t: &T) -> Info {
    fn go(t: &T, c: usize, path: &mut Vec<&'static str>, o: &mut Info) {
        match t {
            T::Var(k, d, i) => {
                o.any_var = true;
                if *d < c {
                    o.bound_inner = true;
                } else {
                    let fd = *d - c;
                    o.max_free = Some(o.max_free.map_or(fd, |m| m.max(fd)));
                    if c > 0 {
                        o.free_under_binder = true;
                    }
                    let cls = path.last().copied().unwrap_or("top");
                    if !o.under.contains(&cls) {
                        o.under.push(cls);
                    }
                    if fd == 0 {
                        if *i < 2 {
                            o.usage[*i] |= match k { K::Ty => 1, K::Lt => 2, K::Ct => 4 };
                        }
                        if c > 0 {
                            o.level0_under_binder = true;
                        }
                    }
                }
            }
            T::Node(_, ch) => ch.iter().for_each(|x| go(x, c, path, o)),
            T::Bind(tag, _, ch) => {
                path.push(match tag {
                    Tag::FnPtr => "fn-ptr",
                    Tag::DynBounds => "dyn",
                    Tag::Qwc => "dyn-where-clause",
                    Tag::Forall | Tag::Exists => "quantified-goal",
                    Tag::Clause => "clause",
                    _ => "binder",
                });
                ch.iter().for_each(|x| go(x, c + 1, path, o));
                path.pop();
            }
        }
    }
    let mut o = Info::default();
    go(t, 0, &mut vec![], &mut o);
    o.under.sort();
    o
}

fn class_of(info: &Info) -> String {
    if info.max_free.is_none() {
        if info.bound_inner { "closed-with-inner-bound-vars".into() } else { "no-vars".into() }
    } else {
        if info.free_under_binder { "free-var-under-inner-binder".into() } else { "free-vars-at-top-only".into() }
    }
}

// ---------------------------------------------------------------------------
// AST <-> chalk-ir

struct Cx {
    adt_a: AdtId<ChalkIr>,
    adt_s: AdtId<ChalkIr>,
    tr: TraitId<ChalkIr>,
    tr2: TraitId<ChalkIr>,
    _program: Arc<chalk_integration::program::Program>,
}

fn usize_ty() -> Ty<ChalkIr> {
    TyKind::Scalar(Scalar::Uint(UintTy::Usize)).intern(ChalkIr)
}

fn bv(d: usize, i: usize) -> BoundVar {
    BoundVar::new(DebruijnIndex::new(d as u32), i)
}

fn ph(idx: usize) -> PlaceholderIndex {
    PlaceholderIndex { ui: UniverseIndex { counter: 1 }, idx }
}

fn vkind(k: K) -> VariableKind<ChalkIr> {
    match k {
        K::Ty => VariableKind::Ty(TyVariableKind::General),
        K::Lt => VariableKind::Lifetime,
        K::Ct => VariableKind::Const(usize_ty()),
    }
}

fn vkinds(ks: &[K]) -> VariableKinds<ChalkIr> {
    VariableKinds::from_iter(ChalkIr, ks.iter().map(|k| vkind(*k)))
}

fn back_kinds(v: &VariableKinds<ChalkIr>) -> Vec<K> {
    v.iter(ChalkIr)
        .map(|k| match k {
            VariableKind::Ty(_) => K::Ty,
            VariableKind::Lifetime => K::Lt,
            VariableKind::Const(_) => K::Ct,
        })
        .collect()
}

fn bad() -> T {
    leaf(Tag::Bad)
}

impl Cx {
    fn new() -> Result<Cx, String> {
        let program = drive::load_program("struct A {} struct S<T> {} trait Tr {} trait Tr2<T> {}")?;
        let adt = |n: &str| program.adt_ids.iter().find(|(k, _)| k.to_string() == n).map(|x| *x.1).ok_or_else(|| format!("no adt {}", n));
        let tr = |n: &str| program.trait_ids.iter().find(|(k, _)| k.to_string() == n).map(|x| *x.1).ok_or_else(|| format!("no trait {}", n));
        Ok(Cx { adt_a: adt("A")?, adt_s: adt("S")?, tr: tr("Tr")?, tr2: tr("Tr2")?, _program: program.clone() })
    }

    fn lt(&self, t: &T) -> Lifetime<ChalkIr> {
        let i = ChalkIr;
        match t {
            T::Var(K::Lt, d, x) => LifetimeData::BoundVar(bv(*d, *x)).intern(i),
            T::Node(Tag::Static, _) => LifetimeData::Static.intern(i),
            T::Node(Tag::PhLt, _) => LifetimeData::Placeholder(ph(1)).intern(i),
            o => panic!("c25: not a lifetime: {:?}", o),
        }
    }

    fn ct(&self, t: &T) -> Const<ChalkIr> {
        let i = ChalkIr;
        let value = match t {
            T::Var(K::Ct, d, x) => ConstValue::BoundVar(bv(*d, *x)),
            T::Node(Tag::CVal, _) => ConstValue::Concrete(ConcreteConst { interned: 3 }),
            T::Node(Tag::PhCt, _) => ConstValue::Placeholder(ph(2)),
            o => panic!("c25: not a const: {:?}", o),
        };
        ConstData { ty: usize_ty(), value }.intern(i)
    }

    fn ty(&self, t: &T) -> Ty<ChalkIr> {
        let i = ChalkIr;
        match t {
            T::Var(K::Ty, d, x) => TyKind::BoundVar(bv(*d, *x)).intern(i),
            T::Node(Tag::A, _) => TyKind::Adt(self.adt_a, Substitution::empty(i)).intern(i),
            T::Node(Tag::S, c) => TyKind::Adt(self.adt_s, Substitution::from1(i, self.ty(&c[0]))).intern(i),
            T::Node(Tag::Tuple, c) => TyKind::Tuple(c.len(), Substitution::from_iter(i, c.iter().map(|x| self.ty(x)))).intern(i),
            T::Node(Tag::Ref, c) => TyKind::Ref(Mutability::Not, self.lt(&c[0]), self.ty(&c[1])).intern(i),
            T::Node(Tag::Array, c) => TyKind::Array(self.ty(&c[0]), self.ct(&c[1])).intern(i),
            T::Node(Tag::PhTy, _) => TyKind::Placeholder(ph(0)).intern(i),
            T::Bind(Tag::FnPtr, ks, c) => TyKind::Function(FnPointer {
                num_binders: ks.len(),
                sig: FnSig { abi: ChalkFnAbi::Rust, safety: Safety::Safe, variadic: false },
                substitution: FnSubst(Substitution::from_iter(i, c.iter().map(|x| self.ty(x)))),
            })
            .intern(i),
            T::Node(Tag::Dyn, c) => {
                let T::Bind(Tag::DynBounds, ks, qs) = &c[0] else { panic!("c25: dyn bounds: {:?}", c[0]) };
                let qwcs = QuantifiedWhereClauses::from_iter(i, qs.iter().map(|q| self.qwc(q)));
                TyKind::Dyn(DynTy { bounds: Binders::new(vkinds(ks), qwcs), lifetime: self.lt(&c[1]) }).intern(i)
            }
            o => panic!("c25: not a type: {:?}", o),
        }
    }

    fn trait_ref(&self, t: &T) -> TraitRef<ChalkIr> {
        let T::Node(Tag::Impl, args) = t else { panic!("c25: not a trait ref: {:?}", t) };
        TraitRef {
            trait_id: if args.len() == 1 { self.tr } else { self.tr2 },
            substitution: Substitution::from_iter(ChalkIr, args.iter().map(|a| self.arg(a))),
        }
    }

    fn qwc(&self, t: &T) -> QuantifiedWhereClause<ChalkIr> {
        let T::Bind(Tag::Qwc, ks, c) = t else { panic!("c25: not a qwc: {:?}", t) };
        Binders::new(vkinds(ks), WhereClause::Implemented(self.trait_ref(&c[0])))
    }

    fn arg(&self, t: &T) -> GenericArg<ChalkIr> {
        let i = ChalkIr;
        match sort_of(t) {
            Sort::Ty => GenericArgData::Ty(self.ty(t)).intern(i),
            Sort::Lt => GenericArgData::Lifetime(self.lt(t)).intern(i),
            Sort::Ct => GenericArgData::Const(self.ct(t)).intern(i),
            _ => panic!("c25: not a generic argument: {:?}", t),
        }
    }

    fn goal(&self, t: &T) -> Goal<ChalkIr> {
        let i = ChalkIr;
        match t {
            T::Bind(tag @ (Tag::Forall | Tag::Exists), ks, c) => {
                let q = if *tag == Tag::Forall { QuantifierKind::ForAll } else { QuantifierKind::Exists };
                GoalData::Quantified(q, Binders::new(vkinds(ks), self.goal(&c[0]))).intern(i)
            }
            T::Node(Tag::Implies, c) => {
                let n = c.len() - 1;
                GoalData::Implies(ProgramClauses::from_iter(i, c[..n].iter().map(|x| self.clause(x))), self.goal(&c[n])).intern(i)
            }
            T::Node(Tag::All, c) => GoalData::All(Goals::from_iter(i, c.iter().map(|x| self.goal(x)))).intern(i),
            T::Node(Tag::Not, c) => GoalData::Not(self.goal(&c[0])).intern(i),
            T::Node(Tag::EqG, c) => GoalData::EqGoal(EqGoal { a: self.arg(&c[0]), b: self.arg(&c[1]) }).intern(i),
            T::Node(Tag::Impl, _) => GoalData::DomainGoal(DomainGoal::Holds(WhereClause::Implemented(self.trait_ref(t)))).intern(i),
            o => panic!("c25: not a goal: {:?}", o),
        }
    }

    fn clause(&self, t: &T) -> ProgramClause<ChalkIr> {
        let i = ChalkIr;
        let T::Bind(Tag::Clause, ks, c) = t else { panic!("c25: not a clause: {:?}", t) };
        ProgramClauseData(Binders::new(
            vkinds(ks),
            ProgramClauseImplication {
                consequence: DomainGoal::Holds(WhereClause::Implemented(self.trait_ref(&c[0]))),
                conditions: Goals::from_iter(i, c[1..].iter().map(|x| self.goal(x))),
                constraints: Constraints::empty(i),
                priority: ClausePriority::High,
            },
        ))
        .intern(i)
    }

    fn subst(&self, t: &T) -> Substitution<ChalkIr> {
        let T::Node(Tag::SubstList, c) = t else { panic!("c25: not a substitution: {:?}", t) };
        Substitution::from_iter(ChalkIr, c.iter().map(|a| self.arg(a)))
    }

    // ---- back

    fn back_lt(&self, l: &Lifetime<ChalkIr>) -> T {
        match l.data(ChalkIr) {
            LifetimeData::BoundVar(b) => T::Var(K::Lt, b.debruijn.depth() as usize, b.index),
            LifetimeData::Static => leaf(Tag::Static),
            LifetimeData::Placeholder(p) if *p == ph(1) => leaf(Tag::PhLt),
            _ => bad(),
        }
    }

    fn back_ct(&self, c: &Const<ChalkIr>) -> T {
        let d = c.data(ChalkIr);
        if d.ty != usize_ty() {
            return bad();
        }
        match &d.value {
            ConstValue::BoundVar(b) => T::Var(K::Ct, b.debruijn.depth() as usize, b.index),
            ConstValue::Concrete(c) if c.interned == 3 => leaf(Tag::CVal),
            ConstValue::Placeholder(p) if *p == ph(2) => leaf(Tag::PhCt),
            _ => bad(),
        }
    }

    fn back_ty(&self, t: &Ty<ChalkIr>) -> T {
        let i = ChalkIr;
        match t.kind(i) {
            TyKind::BoundVar(b) => T::Var(K::Ty, b.debruijn.depth() as usize, b.index),
            TyKind::Placeholder(p) if *p == ph(0) => leaf(Tag::PhTy),
            TyKind::Adt(id, s) if *id == self.adt_a && s.len(i) == 0 => leaf(Tag::A),
            TyKind::Adt(id, s) if *id == self.adt_s && s.len(i) == 1 => node(Tag::S, s.iter(i).map(|a| self.back_arg(a)).collect()),
            TyKind::Tuple(n, s) if *n == s.len(i) => node(Tag::Tuple, s.iter(i).map(|a| self.back_arg(a)).collect()),
            TyKind::Ref(Mutability::Not, l, x) => node(Tag::Ref, vec![self.back_lt(l), self.back_ty(x)]),
            TyKind::Array(x, c) => node(Tag::Array, vec![self.back_ty(x), self.back_ct(c)]),
            TyKind::Function(f) => {
                if f.sig.abi != ChalkFnAbi::Rust || f.sig.safety != Safety::Safe || f.sig.variadic {
                    return bad();
                }
                T::Bind(Tag::FnPtr, vec![K::Lt; f.num_binders], f.substitution.0.iter(i).map(|a| self.back_arg(a)).collect())
            }
            TyKind::Dyn(d) => {
                let qs = d.bounds.skip_binders().iter(i).map(|q| self.back_qwc(q)).collect();
                node(Tag::Dyn, vec![T::Bind(Tag::DynBounds, back_kinds(&d.bounds.binders), qs), self.back_lt(&d.lifetime)])
            }
            _ => bad(),
        }
    }

    fn back_trait_ref(&self, tr: &TraitRef<ChalkIr>) -> T {
        let n = tr.substitution.len(ChalkIr);
        if !((n == 1 && tr.trait_id == self.tr) || (n == 2 && tr.trait_id == self.tr2)) {
            return bad();
        }
        node(Tag::Impl, tr.substitution.iter(ChalkIr).map(|a| self.back_arg(a)).collect())
    }

    fn back_qwc(&self, q: &QuantifiedWhereClause<ChalkIr>) -> T {
        match q.skip_binders() {
            WhereClause::Implemented(tr) => T::Bind(Tag::Qwc, back_kinds(&q.binders), vec![self.back_trait_ref(tr)]),
            _ => bad(),
        }
    }

    fn back_arg(&self, a: &GenericArg<ChalkIr>) -> T {
        match a.data(ChalkIr) {
            GenericArgData::Ty(t) => self.back_ty(t),
            GenericArgData::Lifetime(l) => self.back_lt(l),
            GenericArgData::Const(c) => self.back_ct(c),
        }
    }

    fn back_goal(&self, g: &Goal<ChalkIr>) -> T {
        let i = ChalkIr;
        match g.data(i) {
            GoalData::Quantified(q, b) => T::Bind(
                if *q == QuantifierKind::ForAll { Tag::Forall } else { Tag::Exists },
                back_kinds(&b.binders),
                vec![self.back_goal(b.skip_binders())],
            ),
            GoalData::Implies(cs, g) => {
                let mut v: Vec<T> = cs.iter(i).map(|c| self.back_clause(c)).collect();
                v.push(self.back_goal(g));
                node(Tag::Implies, v)
            }
            GoalData::All(gs) => node(Tag::All, gs.iter(i).map(|x| self.back_goal(x)).collect()),
            GoalData::Not(g) => node(Tag::Not, vec![self.back_goal(g)]),
            GoalData::EqGoal(e) => node(Tag::EqG, vec![self.back_arg(&e.a), self.back_arg(&e.b)]),
            GoalData::DomainGoal(DomainGoal::Holds(WhereClause::Implemented(tr))) => self.back_trait_ref(tr),
            _ => bad(),
        }
    }

    fn back_clause(&self, c: &ProgramClause<ChalkIr>) -> T {
        let i = ChalkIr;
        let b = &c.data(i).0;
        let imp = b.skip_binders();
        if !imp.constraints.is_empty(i) || imp.priority != ClausePriority::High {
            return bad();
        }
        let DomainGoal::Holds(WhereClause::Implemented(tr)) = &imp.consequence else { return bad() };
        let mut v = vec![self.back_trait_ref(tr)];
        v.extend(imp.conditions.iter(i).map(|g| self.back_goal(g)));
        T::Bind(Tag::Clause, back_kinds(&b.binders), v)
    }

    fn back_subst(&self, s: &Substitution<ChalkIr>) -> T {
        node(Tag::SubstList, s.iter(ChalkIr).map(|a| self.back_arg(a)).collect())
    }
}

/// One sort of top-level term: how to build the real value and read it back.
trait Realm {
    type R: TypeFoldable<ChalkIr> + HasInterner<Interner = ChalkIr> + Clone + PartialEq + std::fmt::Debug;
    const NAME: &'static str;
    fn to(cx: &Cx, t: &T) -> Self::R;
    fn back(cx: &Cx, r: &Self::R) -> T;
}

macro_rules! realm {
    ($name:ident, $r:ty, $label:expr, $to:ident, $back:ident) => {
        struct $name;
        impl Realm for $name {
            type R = $r;
            const NAME: &'static str = $label;
            fn to(cx: &Cx, t: &T) -> $r {
                cx.$to(t)
            }
            fn back(cx: &Cx, r: &$r) -> T {
                cx.$back(r)
            }
        }
    };
}
realm!(TyRealm, Ty<ChalkIr>, "ty", ty, back_ty);
realm!(LtRealm, Lifetime<ChalkIr>, "lifetime", lt, back_lt);
realm!(CtRealm, Const<ChalkIr>, "const", ct, back_ct);
realm!(GoalRealm, Goal<ChalkIr>, "goal", goal, back_goal);
realm!(ClauseRealm, ProgramClause<ChalkIr>, "clause", clause, back_clause);
realm!(SubstRealm, Substitution<ChalkIr>, "substitution", subst, back_subst);

// ---------------------------------------------------------------------------
// folders that change nothing

/// Implements nothing but the two mandatory methods of `FallibleTypeFolder`:
/// every callback is the trait's default.
struct NoopFallible;
impl FallibleTypeFolder<ChalkIr> for NoopFallible {
    type Error = Infallible;
    fn as_dyn(&mut self) -> &mut dyn FallibleTypeFolder<ChalkIr, Error = Infallible> {
        self
    }
    fn interner(&self) -> ChalkIr {
        ChalkIr
    }
}

/// Implements nothing but the two mandatory methods of `TypeFolder`; the
/// `FallibleTypeFolder` impl forwards each callback to the `TypeFolder` one,
/// exactly as `#[derive(FallibleTypeFolder)]` does (chalk-derive is not a
/// dependency of the harness, so the forwarding is spelled out).
struct NoopInfallible;
impl TypeFolder<ChalkIr> for NoopInfallible {
    fn as_dyn(&mut self) -> &mut dyn TypeFolder<ChalkIr> {
        self
    }
    fn interner(&self) -> ChalkIr {
        ChalkIr
    }
}
type Db = DebruijnIndex;
impl FallibleTypeFolder<ChalkIr> for NoopInfallible {
    type Error = Infallible;
    fn as_dyn(&mut self) -> &mut dyn FallibleTypeFolder<ChalkIr, Error = Infallible> {
        self
    }
    fn try_fold_ty(&mut self, ty: Ty<ChalkIr>, ob: Db) -> Result<Ty<ChalkIr>, Infallible> {
        Ok(TypeFolder::fold_ty(self, ty, ob))
    }
    fn try_fold_lifetime(&mut self, l: Lifetime<ChalkIr>, ob: Db) -> Result<Lifetime<ChalkIr>, Infallible> {
        Ok(TypeFolder::fold_lifetime(self, l, ob))
    }
    fn try_fold_const(&mut self, c: Const<ChalkIr>, ob: Db) -> Result<Const<ChalkIr>, Infallible> {
        Ok(TypeFolder::fold_const(self, c, ob))
    }
    fn try_fold_program_clause(&mut self, c: ProgramClause<ChalkIr>, ob: Db) -> Result<ProgramClause<ChalkIr>, Infallible> {
        Ok(TypeFolder::fold_program_clause(self, c, ob))
    }
    fn try_fold_goal(&mut self, g: Goal<ChalkIr>, ob: Db) -> Result<Goal<ChalkIr>, Infallible> {
        Ok(TypeFolder::fold_goal(self, g, ob))
    }
    fn forbid_free_vars(&self) -> bool {
        TypeFolder::forbid_free_vars(self)
    }
    fn try_fold_free_var_ty(&mut self, b: BoundVar, ob: Db) -> Result<Ty<ChalkIr>, Infallible> {
        Ok(TypeFolder::fold_free_var_ty(self, b, ob))
    }
    fn try_fold_free_var_lifetime(&mut self, b: BoundVar, ob: Db) -> Result<Lifetime<ChalkIr>, Infallible> {
        Ok(TypeFolder::fold_free_var_lifetime(self, b, ob))
    }
    fn try_fold_free_var_const(&mut self, ty: Ty<ChalkIr>, b: BoundVar, ob: Db) -> Result<Const<ChalkIr>, Infallible> {
        Ok(TypeFolder::fold_free_var_const(self, ty, b, ob))
    }
    fn forbid_free_placeholders(&self) -> bool {
        TypeFolder::forbid_free_placeholders(self)
    }
    fn try_fold_free_placeholder_ty(&mut self, u: PlaceholderIndex, ob: Db) -> Result<Ty<ChalkIr>, Infallible> {
        Ok(TypeFolder::fold_free_placeholder_ty(self, u, ob))
    }
    fn try_fold_free_placeholder_lifetime(&mut self, u: PlaceholderIndex, ob: Db) -> Result<Lifetime<ChalkIr>, Infallible> {
        Ok(TypeFolder::fold_free_placeholder_lifetime(self, u, ob))
    }
    fn try_fold_free_placeholder_const(&mut self, ty: Ty<ChalkIr>, u: PlaceholderIndex, ob: Db) -> Result<Const<ChalkIr>, Infallible> {
        Ok(TypeFolder::fold_free_placeholder_const(self, ty, u, ob))
    }
    fn forbid_inference_vars(&self) -> bool {
        TypeFolder::forbid_inference_vars(self)
    }
    fn try_fold_inference_ty(&mut self, v: InferenceVar, k: TyVariableKind, ob: Db) -> Result<Ty<ChalkIr>, Infallible> {
        Ok(TypeFolder::fold_inference_ty(self, v, k, ob))
    }
    fn try_fold_inference_lifetime(&mut self, v: InferenceVar, ob: Db) -> Result<Lifetime<ChalkIr>, Infallible> {
        Ok(TypeFolder::fold_inference_lifetime(self, v, ob))
    }
    fn try_fold_inference_const(&mut self, ty: Ty<ChalkIr>, v: InferenceVar, ob: Db) -> Result<Const<ChalkIr>, Infallible> {
        Ok(TypeFolder::fold_inference_const(self, ty, v, ob))
    }
    fn interner(&self) -> ChalkIr {
        TypeFolder::interner(self)
    }
}

// ---------------------------------------------------------------------------
// enumeration

/// Free variables range over de Bruijn depths 0..FREE relative to the whole term.
const FREE: usize = 3;
/// Indices within a binder.
const IDX: usize = 2;

type Emit<'a> = &'a mut dyn FnMut(T);
type Mk = Arc<dyn Fn(&T, &T) -> T + Send + Sync>;

/// A family of terms: for every `x` in `xs`, `f(x, emit)` emits the terms built from `x`.
/// Families are what the driver parallelises over; collecting all families of a
/// level gives the (memoised) list used for the children of the next level.
struct Family {
    xs: Arc<Vec<T>>,
    f: Box<dyn Fn(&T, Emit) + Send + Sync>,
}

fn fam(xs: Arc<Vec<T>>, f: impl Fn(&T, Emit) + Send + Sync + 'static) -> Family {
    Family { xs, f: Box::new(f) }
}

fn collect(fs: &[Family]) -> Vec<T> {
    let mut out = vec![];
    for f in fs {
        for x in f.xs.iter() {
            (f.f)(x, &mut |t| out.push(t));
        }
    }
    out
}

fn var_leaves(k: K, b: usize) -> Vec<T> {
    let mut v = vec![];
    for d in 0..b + FREE {
        for i in 0..IDX {
            v.push(T::Var(k, d, i));
        }
    }
    v
}
fn ty_leaves(b: usize) -> Vec<T> {
    let mut v = vec![leaf(Tag::A), leaf(Tag::PhTy)];
    v.extend(var_leaves(K::Ty, b));
    v
}
fn lt_leaves(b: usize) -> Vec<T> {
    let mut v = vec![leaf(Tag::Static), leaf(Tag::PhLt)];
    v.extend(var_leaves(K::Lt, b));
    v
}
fn ct_leaves(b: usize) -> Vec<T> {
    let mut v = vec![leaf(Tag::CVal), leaf(Tag::PhCt)];
    v.extend(var_leaves(K::Ct, b));
    v
}
fn arg_leaves(b: usize) -> Vec<T> {
    let mut v = ty_leaves(b);
    v.extend(lt_leaves(b));
    v.extend(ct_leaves(b));
    v
}

fn mk_dyn(kinds: Vec<K>, args: Vec<T>, lt: T) -> T {
    node(Tag::Dyn, vec![T::Bind(Tag::DynBounds, vec![K::Ty], vec![T::Bind(Tag::Qwc, kinds, vec![node(Tag::Impl, args)])]), lt])
}
fn mk_clause(kinds: Vec<K>, head: T, conds: Vec<T>) -> T {
    let mut c = vec![head];
    c.extend(conds);
    T::Bind(Tag::Clause, kinds, c)
}

/// The term sets. `level(n, b)` = terms of rank <= n placed under `b` binders of
/// the enclosing term (so variables range over depths 0..b+FREE). Constructors
/// with two term children take the full product of the children lists when
/// `n <= full_pair_depth` and the "spine" product (at least one of the two
/// children is a simple term) above that.
struct Gen {
    full_pair_depth: usize,
    memo: RefCell<HashMap<(&'static str, usize, usize), Arc<Vec<T>>>>,
}

impl Gen {
    fn new(full_pair_depth: usize) -> Gen {
        Gen { full_pair_depth, memo: RefCell::new(HashMap::new()) }
    }

    fn memo(&self, key: (&'static str, usize, usize), f: impl FnOnce() -> Vec<T>) -> Arc<Vec<T>> {
        if let Some(v) = self.memo.borrow().get(&key) {
            return v.clone();
        }
        let v = Arc::new(f());
        self.memo.borrow_mut().insert(key, v.clone());
        v
    }

    /// product of two children lists
    #[allow(clippy::too_many_arguments)]
    fn pairs(&self, n: usize, xs: Arc<Vec<T>>, xs_simple: Arc<Vec<T>>, ys: Arc<Vec<T>>, ys_simple: Arc<Vec<T>>, ys_rest: Arc<Vec<T>>, mk: Mk) -> Vec<Family> {
        if n <= self.full_pair_depth {
            let mk1 = mk.clone();
            vec![fam(xs, move |x, e| ys.iter().for_each(|y| e(mk1(x, y))))]
        } else {
            let (mk1, mk2) = (mk.clone(), mk.clone());
            vec![
                fam(xs, move |x, e| ys_simple.iter().for_each(|y| e(mk1(x, y)))),
                fam(ys_rest, move |y, e| xs_simple.iter().for_each(|x| e(mk2(x, y)))),
            ]
        }
    }

    // ---- types

    fn tys_nonleaf(&self, n: usize, b: usize) -> Arc<Vec<T>> {
        self.memo(("ty-nonleaf", n, b), || if n <= 1 { vec![] } else { collect(&self.ty_families(n, b)) })
    }
    fn tys(&self, n: usize, b: usize) -> Arc<Vec<T>> {
        self.memo(("ty", n, b), || {
            let mut v = ty_leaves(b);
            v.extend(self.tys_nonleaf(n, b).iter().cloned());
            v
        })
    }
    fn args(&self, n: usize, b: usize) -> Arc<Vec<T>> {
        self.memo(("arg", n, b), || {
            let mut v = arg_leaves(b);
            v.extend(self.tys_nonleaf(n, b).iter().cloned());
            v
        })
    }

    /// all types of rank 2..=n (root is a constructor), n >= 2
    fn ty_families(&self, n: usize, b: usize) -> Vec<Family> {
        let sub = self.tys(n - 1, b);
        let leaves = Arc::new(ty_leaves(b));
        let rest = self.tys_nonleaf(n - 1, b);
        let lts = lt_leaves(b);
        let lts2 = lts.clone();
        let lts3 = lts.clone();
        let cts = ct_leaves(b);
        let mut v = vec![];
        v.push(fam(sub.clone(), |x, e| e(node(Tag::S, vec![x.clone()]))));
        v.extend(self.pairs(n, sub.clone(), leaves.clone(), sub.clone(), leaves.clone(), rest, Arc::new(|x, y| node(Tag::Tuple, vec![x.clone(), y.clone()]))));
        v.push(fam(sub.clone(), move |x, e| lts.iter().for_each(|l| e(node(Tag::Ref, vec![l.clone(), x.clone()])))));
        v.push(fam(sub.clone(), move |x, e| cts.iter().for_each(|c| e(node(Tag::Array, vec![x.clone(), c.clone()])))));
        // fn pointers: children live under one more binder
        let sub1 = self.tys(n - 1, b + 1);
        let leaves1 = Arc::new(ty_leaves(b + 1));
        let rest1 = self.tys_nonleaf(n - 1, b + 1);
        v.push(fam(sub1.clone(), |x, e| {
            e(T::Bind(Tag::FnPtr, vec![K::Lt], vec![x.clone()]));
            e(T::Bind(Tag::FnPtr, vec![K::Lt, K::Lt], vec![x.clone()]));
        }));
        v.extend(self.pairs(n, sub1.clone(), leaves1.clone(), sub1, leaves1, rest1, Arc::new(|x, y| T::Bind(Tag::FnPtr, vec![K::Lt], vec![x.clone(), y.clone()]))));
        // trait objects: the where clause lives under two more binders (Self, then the clause's own for<>)
        let sub2 = self.tys(n - 1, b + 2);
        v.push(fam(sub2, move |x, e| {
            for l in &lts2 {
                e(mk_dyn(vec![], vec![x.clone()], l.clone()));
                e(mk_dyn(vec![K::Lt], vec![x.clone()], l.clone()));
            }
        }));
        let args2 = self.args(n - 1, b + 2);
        v.push(fam(args2, move |a, e| {
            for l in &lts3 {
                e(mk_dyn(vec![K::Lt], vec![T::Var(K::Ty, 1, 0), a.clone()], l.clone()));
            }
        }));
        v
    }

    // ---- goals

    fn simple_goals(b: usize) -> Vec<T> {
        let mut v = vec![node(Tag::All, vec![])];
        v.extend(ty_leaves(b).into_iter().map(|x| node(Tag::Impl, vec![x])));
        v
    }
    fn simple_clauses(b: usize) -> Vec<T> {
        ty_leaves(b + 1).into_iter().map(|x| mk_clause(vec![K::Ty], node(Tag::Impl, vec![x]), vec![])).collect()
    }
    fn minus(all: &[T], simple: &[T]) -> Vec<T> {
        let s: HashSet<&T> = simple.iter().collect();
        all.iter().filter(|x| !s.contains(x)).cloned().collect()
    }

    fn goals(&self, n: usize, b: usize) -> Arc<Vec<T>> {
        self.memo(("goal", n, b), || {
            let mut v = vec![node(Tag::All, vec![])];
            if n >= 2 {
                v.extend(collect(&self.goal_families(n, b)));
            }
            v
        })
    }
    fn goals_rest(&self, n: usize, b: usize) -> Arc<Vec<T>> {
        self.memo(("goal-rest", n, b), || Gen::minus(&self.goals(n, b), &Gen::simple_goals(b)))
    }

    /// `Tr<x>` and `Tr2<x, a>` with arguments of rank <= n-1
    fn impl_families(&self, n: usize, b: usize) -> Vec<Family> {
        let sub = self.tys(n - 1, b);
        let mut v = vec![fam(sub.clone(), |x, e| e(node(Tag::Impl, vec![x.clone()])))];
        v.extend(self.pairs(
            n,
            sub,
            Arc::new(ty_leaves(b)),
            self.args(n - 1, b),
            Arc::new(arg_leaves(b)),
            self.tys_nonleaf(n - 1, b),
            Arc::new(|x, y| node(Tag::Impl, vec![x.clone(), y.clone()])),
        ));
        v
    }

    /// all goals of rank 2..=n, n >= 2
    fn goal_families(&self, n: usize, b: usize) -> Vec<Family> {
        let mut v = vec![];
        let sub = self.tys(n - 1, b);
        let leaves = Arc::new(ty_leaves(b));
        let eq: Mk = Arc::new(|x, y| node(Tag::EqG, vec![x.clone(), y.clone()]));
        v.extend(self.pairs(n, sub.clone(), leaves.clone(), sub, leaves, self.tys_nonleaf(n - 1, b), eq));
        let (l1, l2) = (lt_leaves(b), ct_leaves(b));
        let l1b = l1.clone();
        let l2b = l2.clone();
        v.push(fam(Arc::new(l1), move |x, e| l1b.iter().for_each(|y| e(node(Tag::EqG, vec![x.clone(), y.clone()])))));
        v.push(fam(Arc::new(l2), move |x, e| l2b.iter().for_each(|y| e(node(Tag::EqG, vec![x.clone(), y.clone()])))));
        v.extend(self.impl_families(n, b));
        if n >= 3 {
            let g = self.goals(n - 1, b);
            let sg = Arc::new(Gen::simple_goals(b));
            let grest = self.goals_rest(n - 1, b);
            v.push(fam(g.clone(), |x, e| e(node(Tag::Not, vec![x.clone()]))));
            v.push(fam(g.clone(), |x, e| e(node(Tag::All, vec![x.clone()]))));
            v.extend(self.pairs(n, g.clone(), sg.clone(), g.clone(), sg.clone(), grest.clone(), Arc::new(|x, y| node(Tag::All, vec![x.clone(), y.clone()]))));
            v.push(fam(self.goals(n - 1, b + 1), |x, e| {
                e(T::Bind(Tag::Forall, vec![K::Ty], vec![x.clone()]));
                e(T::Bind(Tag::Exists, vec![K::Lt, K::Ct], vec![x.clone()]));
            }));
            let cl = self.clauses(n - 1, b);
            let sc = Arc::new(Gen::simple_clauses(b));
            v.extend(self.pairs(n, cl, sc, g, sg, grest, Arc::new(|c, g| node(Tag::Implies, vec![c.clone(), g.clone()]))));
        }
        v
    }

    // ---- program clauses

    fn clauses(&self, n: usize, b: usize) -> Arc<Vec<T>> {
        self.memo(("clause", n, b), || collect(&self.clause_families(n, b)))
    }

    /// all clauses of rank 2..=n, n >= 2: `for<kinds> { head :- conds }`; the head and
    /// the conditions live under the clause's binder. The (head, condition)
    /// product is always the spine product.
    fn clause_families(&self, n: usize, b: usize) -> Vec<Family> {
        let mut v = vec![];
        let sg2 = vec![node(Tag::All, vec![]), node(Tag::Impl, vec![T::Var(K::Ty, 0, 0)])];
        for f in self.impl_families(n, b + 1) {
            let Family { xs, f } = f;
            // a condition of rank 2 makes the clause rank 3
            let sg2: Vec<T> = if n >= 3 { sg2.clone() } else { sg2[..1].to_vec() };
            v.push(fam(xs, move |x, e| {
                f(x, &mut |h| {
                    e(mk_clause(vec![K::Ty], h.clone(), vec![]));
                    e(mk_clause(vec![K::Lt, K::Ct], h.clone(), vec![]));
                    for c in &sg2 {
                        e(mk_clause(vec![K::Ty], h.clone(), vec![c.clone()]));
                    }
                })
            }));
        }
        if n >= 3 {
            let conds = Arc::new(Gen::minus(&self.goals(n - 1, b + 1), &sg2));
            let heads: Vec<T> = ty_leaves(b + 1).into_iter().map(|x| node(Tag::Impl, vec![x])).collect();
            v.push(fam(conds, move |g, e| heads.iter().for_each(|h| e(mk_clause(vec![K::Ty], h.clone(), vec![g.clone()])))));
        }
        v
    }

    // ---- substitutions as terms

    fn subst_families(&self, n: usize) -> Vec<Family> {
        let a = self.args(n - 1, 0);
        let mut v = vec![fam(a.clone(), |x, e| e(node(Tag::SubstList, vec![x.clone()])))];
        v.extend(self.pairs(n, a.clone(), Arc::new(arg_leaves(0)), a, Arc::new(arg_leaves(0)), self.tys_nonleaf(n - 1, 0), Arc::new(|x, y| node(Tag::SubstList, vec![x.clone(), y.clone()]))));
        v
    }
}

// ---------------------------------------------------------------------------
// per-term checks

const COUNTERS: [&str; 22] = [
    "terms",
    "terms_with_bound_vars",
    "terms_with_var_bound_by_inner_binder",
    "terms_with_free_var_under_inner_binder",
    "real_ops",
    "shift_in_checked",
    "shift_out_ok",
    "shift_out_escape_err",
    "shift_round_trips",
    "noop_folds",
    "term_subst_pairs",
    "subst_replacing_var_under_inner_binder_with_open_param",
    "subst_apply_checked",
    "binders_substitute_checked",
    "substitution_apply_checked",
    "identity_law_checked",
    "identity_reference_checked",
    "cancel_law_checked",
    "commute_law_checked",
    "terms_kind_inconsistent_skipped_for_subst",
    "violations_total",
    "skipped_lower_rank",
];
const C_TERMS: usize = 0;
const C_NONTRIV: usize = 1;
const C_BOUND_INNER: usize = 2;
const C_FREE_UNDER: usize = 3;
const C_OPS: usize = 4;
const C_SHIFT_IN: usize = 5;
const C_OUT_OK: usize = 6;
const C_OUT_ERR: usize = 7;
const C_ROUND: usize = 8;
const C_NOOP: usize = 9;
const C_PAIRS: usize = 10;
const C_SUBST_UNDER: usize = 11;
const C_SUBST_APPLY: usize = 12;
const C_BINDERS_SUBST: usize = 13;
const C_SUBSTITUTION_APPLY: usize = 14;
const C_IDENT: usize = 15;
const C_IDENT_REF: usize = 16;
const C_CANCEL: usize = 17;
const C_COMMUTE: usize = 18;
const C_INCONSISTENT: usize = 19;
const C_VIOL: usize = 20;
const C_SKIPPED: usize = 21;

#[derive(Default)]
struct Acc {
    n: [u64; 22],
    /// (kind, site) -> (occurrences, up to 3 smallest cases)
    viols: BTreeMap<(String, String), (u64, Vec<(usize, String, Violation)>)>,
    machinery: Vec<String>,
}

impl Acc {
    fn viol(&mut self, kind: &str, site: String, t: &T, what: String, input: serde_json::Value) {
        self.n[C_VIOL] += 1;
        let key = (size(t), show(t));
        let e = self.viols.entry((kind.to_string(), site.clone())).or_insert((0, vec![]));
        e.0 += 1;
        if e.1.len() < 3 || (key.0, &key.1) < (e.1[2].0, &e.1[2].1) {
            e.1.push((key.0, key.1, Violation { property: "C25".into(), kind: kind.into(), site, what, input }));
            e.1.sort_by(|a, b| (a.0, &a.1).cmp(&(b.0, &b.1)));
            e.1.truncate(3);
        }
    }
    fn merge(&mut self, o: Acc) {
        for i in 0..self.n.len() {
            self.n[i] += o.n[i];
        }
        for (k, (n, vs)) in o.viols {
            let e = self.viols.entry(k).or_insert((0, vec![]));
            e.0 += n;
            e.1.extend(vs);
            e.1.sort_by(|a, b| (a.0, &a.1).cmp(&(b.0, &b.1)));
            e.1.truncate(3);
        }
        if self.machinery.len() < 20 {
            self.machinery.extend(o.machinery);
        }
    }
}

/// A parameter with its chalk image.
type Param = (T, GenericArg<ChalkIr>, bool);

struct Pools {
    /// per kind: all leaves at binder depth 0 (+ composite types for `Ty`)
    full: [Vec<Param>; 3],
    /// `Ty` parameters for length-1 substitutions: every type of rank <= 2
    ty_big: Vec<Param>,
    /// per kind: two representatives (terms of rank >= 3 use these)
    small: [Vec<Param>; 3],
    /// parameters for binder positions the term does not mention
    unused: Vec<(K, Param)>,
}

fn kidx(k: K) -> usize {
    match k {
        K::Ty => 0,
        K::Lt => 1,
        K::Ct => 2,
    }
}

impl Pools {
    fn new(cx: &Cx, gen: &Gen) -> Pools {
        let p = |t: T| {
            let a = cx.arg(&t);
            let open = analyze(&t).max_free.is_some();
            (t, a, open)
        };
        let v = |k, d, i| T::Var(k, d, i);
        // composite parameters: one of every constructor, each with a variable bound inside
        // (where the constructor binds) and variables free at several depths
        let composite = vec![
            node(Tag::S, vec![v(K::Ty, 0, 0)]),
            node(Tag::Tuple, vec![v(K::Ty, 1, 0), v(K::Ty, 0, 1)]),
            node(Tag::Ref, vec![v(K::Lt, 0, 0), v(K::Ty, 1, 1)]),
            node(Tag::Array, vec![v(K::Ty, 0, 1), v(K::Ct, 0, 0)]),
            T::Bind(Tag::FnPtr, vec![K::Lt], vec![node(Tag::Ref, vec![v(K::Lt, 0, 0), v(K::Ty, 1, 0)]), v(K::Ty, 2, 1)]),
            mk_dyn(vec![K::Lt], vec![v(K::Ty, 1, 0), node(Tag::Ref, vec![v(K::Lt, 0, 0), v(K::Ty, 2, 0)])], v(K::Lt, 0, 1)),
            mk_dyn(vec![], vec![v(K::Ty, 3, 1)], leaf(Tag::Static)),
        ];
        let mut ty_full: Vec<Param> = ty_leaves(0).into_iter().map(p).collect();
        ty_full.extend(composite.iter().cloned().map(p));
        let full = [ty_full, lt_leaves(0).into_iter().map(p).collect(), ct_leaves(0).into_iter().map(p).collect()];
        let ty_big = gen.tys(2, 0).iter().cloned().map(p).collect();
        let small = [
            vec![p(v(K::Ty, 0, 1)), p(composite[4].clone())],
            vec![p(v(K::Lt, 1, 0)), p(leaf(Tag::Static))],
            vec![p(v(K::Ct, 0, 0)), p(leaf(Tag::CVal))],
        ];
        let unused = vec![(K::Ty, p(leaf(Tag::A))), (K::Lt, p(v(K::Lt, 0, 0))), (K::Ct, p(leaf(Tag::CVal)))];
        Pools { full, ty_big, small, unused }
    }
}

#[derive(Clone, Copy)]
struct Mode {
    /// shift amounts 1..=kmax
    kmax: usize,
    /// true: every substitution from the full pools; false: the small pools
    full_substs: bool,
}

fn single_kind(mask: u8) -> Option<Option<K>> {
    match mask {
        0 => Some(None),
        1 => Some(Some(K::Ty)),
        2 => Some(Some(K::Lt)),
        4 => Some(Some(K::Ct)),
        _ => None,
    }
}

/// Enumerates the substitutions for a term whose innermost free variables use
/// the kinds `usage`: every length from (highest used index + 1) to 2.
fn for_each_subst(usage: [Option<K>; 2], pools: &Pools, mode: Mode, f: &mut dyn FnMut(&[K], &[&Param])) {
    let need = if usage[1].is_some() { 2 } else if usage[0].is_some() { 1 } else { 0 };
    let unused_n = if mode.full_substs { pools.unused.len() } else { 1 };
    // options for one position: (kind, parameter)
    let opts = |pos: usize, len: usize| -> Vec<(K, &Param)> {
        match usage[pos] {
            Some(k) => {
                let pool = if !mode.full_substs {
                    &pools.small[kidx(k)]
                } else if k == K::Ty && len == 1 {
                    &pools.ty_big
                } else {
                    &pools.full[kidx(k)]
                };
                pool.iter().map(|p| (k, p)).collect()
            }
            None => pools.unused[..unused_n].iter().map(|(k, p)| (*k, p)).collect(),
        }
    };
    if need == 0 {
        f(&[], &[]);
    }
    if need <= 1 {
        for (k, p) in opts(0, 1) {
            f(&[k], &[p]);
        }
    }
    let o0 = opts(0, 2);
    let o1 = opts(1, 2);
    for (k0, p0) in &o0 {
        for (k1, p1) in &o1 {
            f(&[*k0, *k1], &[*p0, *p1]);
        }
    }
}

fn db(k: usize) -> DebruijnIndex {
    DebruijnIndex::new(k as u32)
}

fn check_term<M: Realm>(cx: &Cx, pools: &Pools, mode: Mode, t: &T, acc: &mut Acc) {
    let op = Cell::new("convert");
    let r = drive::guarded(|| check_inner::<M>(cx, pools, mode, t, acc, &op));
    if let Caught::Panic(loc, msg) = r {
        let info = analyze(t);
        acc.viol(
            "panic",
            format!("{}@{}", panic_site(&loc, &msg), op.get()),
            t,
            format!("{} `{}`: {} panics at {}: {}", M::NAME, show(t), op.get(), loc, msg),
            json!({"sort": M::NAME, "term": show(t), "ast": format!("{:?}", t), "op": op.get(), "class": class_of(&info)}),
        );
    }
}

fn check_inner<M: Realm>(cx: &Cx, pools: &Pools, mode: Mode, t: &T, acc: &mut Acc, op: &Cell<&'static str>) {
    let i = ChalkIr;
    let r = M::to(cx, t);
    if M::back(cx, &r) != *t {
        acc.machinery.push(format!("conversion round trip fails for {} `{}`", M::NAME, show(t)));
        return;
    }
    let info = analyze(t);
    acc.n[C_TERMS] += 1;
    if info.any_var {
        acc.n[C_NONTRIV] += 1;
    }
    if info.bound_inner {
        acc.n[C_BOUND_INNER] += 1;
    }
    if info.free_under_binder {
        acc.n[C_FREE_UNDER] += 1;
    }
    let input = |opname: &str, extra: serde_json::Value| json!({"sort": M::NAME, "term": show(t), "ast": format!("{:?}", t), "op": opname, "args": extra, "free_vars_under": info.under});
    let site = |api: &str| format!("{}/{}/{}", api, M::NAME, class_of(&info));

    // (1) shifting in, against the reference; (2a) in-then-out is the identity
    for k in 1..=mode.kmax {
        op.set("shifted_in_from");
        let got = r.clone().shifted_in_from(i, db(k));
        acc.n[C_OPS] += 1;
        acc.n[C_SHIFT_IN] += 1;
        let exp = r_shift_in(t, k, 0);
        let gb = M::back(cx, &got);
        if gb != exp {
            acc.viol(
                "shifted-in-differs-from-reference",
                site("shifted_in_from"),
                t,
                format!("{} `{}`.shifted_in_from({}) = `{}`, reference says `{}`", M::NAME, show(t), k, show(&gb), show(&exp)),
                input("shifted_in_from", json!({"k": k})),
            );
        }
        if k == 1 {
            op.set("shifted_in");
            let g1 = r.clone().shifted_in(i);
            acc.n[C_OPS] += 1;
            if g1 != got {
                acc.viol("shifted-in-differs-from-reference", site("shifted_in"), t, format!("{} `{}`.shifted_in() = `{}` differs from shifted_in_from(1)", M::NAME, show(t), show(&M::back(cx, &g1))), input("shifted_in", json!({})));
            }
        }
        op.set("shifted_out_to");
        let rt = got.shifted_out_to(i, db(k));
        acc.n[C_OPS] += 1;
        acc.n[C_ROUND] += 1;
        match rt {
            Ok(x) if x == r => {}
            other => acc.viol(
                "shift-in-then-out-is-not-identity",
                site("shifted_in_from+shifted_out_to"),
                t,
                format!("{} `{}`.shifted_in_from({k}).shifted_out_to({k}) = {}", M::NAME, show(t), match &other { Ok(x) => format!("Ok(`{}`)", show(&M::back(cx, x))), Err(_) => "Err(NoSolution)".into() }),
                input("shifted_in_from+shifted_out_to", json!({"k": k})),
            ),
        }
    }
    // (1) shifting out, against the reference (including exactly when it fails)
    for k in 1..=mode.kmax {
        op.set("shifted_out_to");
        let got = r.clone().shifted_out_to(i, db(k));
        acc.n[C_OPS] += 1;
        let exp = r_shift_out(t, k, 0);
        let same = match (&got, &exp) {
            (Ok(g), Some(e)) => {
                acc.n[C_OUT_OK] += 1;
                M::back(cx, g) == *e
            }
            (Err(_), None) => {
                acc.n[C_OUT_ERR] += 1;
                true
            }
            _ => false,
        };
        if !same {
            let gs = match &got { Ok(g) => format!("Ok(`{}`)", show(&M::back(cx, g))), Err(_) => "Err(NoSolution)".into() };
            let es = match &exp { Some(e) => format!("Ok(`{}`)", show(e)), None => "Err (a free variable would escape)".into() };
            acc.viol(
                if got.is_ok() == exp.is_some() { "shifted-out-differs-from-reference" } else { "shifted-out-failure-mismatch" },
                site("shifted_out_to"),
                t,
                format!("{} `{}`.shifted_out_to({}) = {}, reference says {}", M::NAME, show(t), k, gs, es),
                input("shifted_out_to", json!({"k": k})),
            );
        }
        if k == 1 {
            op.set("shifted_out");
            let g1 = r.clone().shifted_out(i);
            acc.n[C_OPS] += 1;
            if g1.clone().ok() != got.ok() {
                acc.viol("shifted-out-differs-from-reference", site("shifted_out"), t, format!("{} `{}`.shifted_out() differs from shifted_out_to(1)", M::NAME, show(t)), input("shifted_out", json!({})));
            }
        }
    }
    // (3) folders that override nothing
    for ob in 0..2 {
        op.set("fold_with(noop-TypeFolder)");
        let a = r.clone().fold_with(&mut NoopInfallible, db(ob));
        op.set("try_fold_with(noop-FallibleTypeFolder)");
        let b = r.clone().try_fold_with(&mut NoopFallible, db(ob));
        acc.n[C_OPS] += 2;
        acc.n[C_NOOP] += 2;
        for (name, v) in [("fold_with(noop-TypeFolder)", Some(a)), ("try_fold_with(noop-FallibleTypeFolder)", b.ok())] {
            let ok = match &v {
                Some(v) => *v == r && M::back(cx, v) == *t,
                None => false,
            };
            if !ok {
                acc.viol(
                    "noop-fold-changes-term",
                    site(name),
                    t,
                    format!("{} `{}` folded by a folder that overrides nothing (outer_binder {}) gives `{}`", M::NAME, show(t), ob, v.as_ref().map(|v| show(&M::back(cx, v))).unwrap_or_default()),
                    input(name, json!({"outer_binder": ob})),
                );
            }
        }
    }

    // substitutions: need one kind per innermost index
    let (Some(u0), Some(u1)) = (single_kind(info.usage[0]), single_kind(info.usage[1])) else {
        acc.n[C_INCONSISTENT] += 1;
        return;
    };
    let usage = [u0, u1];
    let closed_above = info.max_free.map_or(true, |m| m == 0);

    // identity substitution
    {
        let need = if u1.is_some() { 2 } else if u0.is_some() { 1 } else { 0 };
        for n in need..=2 {
            let kinds: Vec<K> = (0..n).map(|p| usage[p].unwrap_or(K::Ty)).collect();
            let b = Binders::new(vkinds(&kinds), r.clone());
            op.set("identity_substitution");
            let id = b.identity_substitution(i);
            let id_ast: Vec<T> = kinds.iter().enumerate().map(|(p, k)| T::Var(*k, 0, p)).collect();
            if cx.back_subst(&id) != node(Tag::SubstList, id_ast.clone()) {
                acc.viol("identity-substitution-wrong", site("identity_substitution"), t, format!("identity_substitution of for<{}> is `{}`", kinds_str(&kinds), show(&cx.back_subst(&id))), input("identity_substitution", json!({"kinds": kinds_str(&kinds)})));
                continue;
            }
            op.set("Binders::substitute(identity)");
            let res = b.substitute(i, &id);
            acc.n[C_OPS] += 2;
            acc.n[C_IDENT_REF] += 1;
            let exp = r_subst(t, &id_ast, 0).expect("well-kinded");
            let rb = M::back(cx, &res);
            if rb != exp {
                acc.viol("substitute-differs-from-reference", site("Binders::substitute(identity)"), t, format!("for<{}> `{}` substituted with its identity substitution gives `{}`, reference says `{}`", kinds_str(&kinds), show(t), show(&rb), show(&exp)), input("Binders::substitute(identity)", json!({"kinds": kinds_str(&kinds)})));
            }
            if closed_above {
                // the law of the statement: every free variable of the body belongs to the binder
                acc.n[C_IDENT] += 1;
                if res != r {
                    acc.viol("identity-substitution-is-not-identity", site("Binders::substitute(identity)"), t, format!("for<{}> `{}` substituted with its own variables gives `{}`", kinds_str(&kinds), show(t), show(&rb)), input("Binders::substitute(identity)", json!({"kinds": kinds_str(&kinds)})));
                }
                op.set("Substitution::apply(identity)");
                let res2 = id.apply(r.clone(), i);
                acc.n[C_OPS] += 1;
                if res2 != r {
                    acc.viol("identity-substitution-is-not-identity", site("Substitution::apply(identity)"), t, format!("identity substitution applied to `{}` gives `{}`", show(t), show(&M::back(cx, &res2))), input("Substitution::apply(identity)", json!({"kinds": kinds_str(&kinds)})));
                }
            }
        }
    }

    op.set("shifted_in");
    let r_in = r.clone().shifted_in(i);
    let mut first_cancel = true;
    for_each_subst(usage, pools, mode, &mut |kinds, ps| {
        acc.n[C_PAIRS] += 1;
        let past: Vec<T> = ps.iter().map(|p| p.0.clone()).collect();
        let params: Vec<GenericArg<ChalkIr>> = ps.iter().map(|p| p.1.clone()).collect();
        let pshow = || format!("[{}]", list(&past));
        let pin = |opname: &str| input(opname, json!({"kinds": kinds_str(kinds), "params": past.iter().map(show).collect::<Vec<_>>()}));
        if info.level0_under_binder && ps.iter().enumerate().any(|(p, x)| usage[p].is_some() && x.2) {
            acc.n[C_SUBST_UNDER] += 1;
        }
        // (1) Subst::apply against the reference
        op.set("Subst::apply");
        let got = Subst::apply(i, &params, r.clone());
        acc.n[C_OPS] += 1;
        acc.n[C_SUBST_APPLY] += 1;
        let exp = r_subst(t, &past, 0).expect("well-kinded");
        let gb = M::back(cx, &got);
        let got_ok = gb == exp;
        let agrees = |g: &M::R| if *g == got { got_ok } else { M::back(cx, g) == exp };
        if !got_ok {
            acc.viol("subst-differs-from-reference", site("Subst::apply"), t, format!("Subst::apply({}, {} `{}`) = `{}`, reference says `{}`", pshow(), M::NAME, show(t), show(&gb), show(&exp)), pin("Subst::apply"));
        }
        // Binders::substitute, with a slice and with a Substitution
        op.set("Binders::substitute");
        let vk = vkinds(kinds);
        let s = Substitution::from_iter(i, params.iter().cloned());
        let g2 = Binders::new(vk.clone(), r.clone()).substitute(i, &params[..]);
        let g3 = Binders::new(vk.clone(), r.clone()).substitute(i, &s);
        acc.n[C_OPS] += 2;
        acc.n[C_BINDERS_SUBST] += 2;
        if !agrees(&g2) || !agrees(&g3) {
            acc.viol("substitute-differs-from-reference", site("Binders::substitute"), t, format!("for<{}> `{}` .substitute({}) = `{}`, reference says `{}`", kinds_str(kinds), show(t), pshow(), show(&M::back(cx, if !agrees(&g2) { &g2 } else { &g3 })), show(&exp)), pin("Binders::substitute"));
        }
        // Substitution::apply requires every free variable to be innermost
        if closed_above {
            op.set("Substitution::apply");
            let g4 = s.apply(r.clone(), i);
            acc.n[C_OPS] += 1;
            acc.n[C_SUBSTITUTION_APPLY] += 1;
            if !agrees(&g4) {
                acc.viol("subst-differs-from-reference", site("Substitution::apply"), t, format!("{}.apply(`{}`) = `{}`, reference says `{}`", pshow(), show(t), show(&M::back(cx, &g4)), show(&exp)), pin("Substitution::apply"));
            }
        }
        // (2c') substitution cancels a shift: ((t shifted in) with the new innermost level substituted away) = t
        if mode.full_substs || first_cancel {
            op.set("Subst::apply(shifted_in)");
            let c = Subst::apply(i, &params, r_in.clone());
            acc.n[C_OPS] += 1;
            acc.n[C_CANCEL] += 1;
            if c != r {
                acc.viol("substitution-does-not-cancel-shift", site("shifted_in+Subst::apply"), t, format!("Subst::apply({}, `{}`.shifted_in()) = `{}`, not the term itself", pshow(), show(t), show(&M::back(cx, &c))), pin("shifted_in+Subst::apply"));
            }
        }
        first_cancel = false;
        // (2c) substitution commutes with shifting:
        //   shift_k(body[params]) == (shift_k of the body, leaving the binder's own level alone)[shift_k params]
        for k in 1..=(if mode.full_substs { 2 } else { 1 }) {
            op.set("commute");
            let rhs = got.clone().shifted_in_from(i, db(k));
            let pk: Vec<GenericArg<ChalkIr>> = params.iter().map(|p| p.clone().shifted_in_from(i, db(k))).collect();
            let lhs = Binders::new(vk.clone(), r.clone()).shifted_in_from(i, db(k)).substitute(i, &pk[..]);
            acc.n[C_OPS] += 3 + pk.len() as u64;
            acc.n[C_COMMUTE] += 1;
            if lhs != rhs {
                acc.viol(
                    "substitution-does-not-commute-with-shift",
                    site("Binders::shifted_in_from+substitute"),
                    t,
                    format!("for<{}> `{}` with {}: shifting by {} then substituting the shifted parameters gives `{}`, substituting then shifting gives `{}`", kinds_str(kinds), show(t), pshow(), k, show(&M::back(cx, &lhs)), show(&M::back(cx, &rhs))),
                    pin("Binders::shifted_in_from+substitute"),
                );
            }
        }
    });
}

// ---------------------------------------------------------------------------
// driver

fn run_families<M: Realm>(cx: &Cx, pools: &Pools, mode: Mode, min_rank: usize, fams: Vec<Family>, total: &mut Acc, distinct: &Option<std::sync::Mutex<HashSet<T>>>) {
    for f in fams {
        let acc = f
            .xs
            .par_iter()
            .with_min_len(1)
            .fold(Acc::default, |mut acc, x| {
                (f.f)(x, &mut |t| {
                    if rank(&t) < min_rank {
                        acc.n[C_SKIPPED] += 1;
                        return;
                    }
                    check_term::<M>(cx, pools, mode, &t, &mut acc);
                    if let Some(d) = distinct {
                        if !d.lock().unwrap().insert(t.clone()) {
                            acc.machinery.push(format!("enumeration emits `{}` twice", show(&t)));
                        }
                    }
                });
                acc
            })
            .reduce(Acc::default, |mut a, b| {
                a.merge(b);
                a
            });
        total.merge(acc);
    }
}

fn leaf_family(v: Vec<T>) -> Vec<Family> {
    vec![fam(Arc::new(v), |x, e| e(x.clone()))]
}

/// One pass: every term whose rank is exactly `n` (lower ranks were checked by the previous pass).
fn run_pass(cx: &Cx, pools: &Pools, gen: &Gen, n: usize, mode: Mode, total: &mut Acc, distinct: &Option<std::sync::Mutex<HashSet<T>>>) {
    if n == 1 {
        run_families::<TyRealm>(cx, pools, mode, 1, leaf_family(ty_leaves(0)), total, distinct);
        run_families::<LtRealm>(cx, pools, mode, 1, leaf_family(lt_leaves(0)), total, distinct);
        run_families::<CtRealm>(cx, pools, mode, 1, leaf_family(ct_leaves(0)), total, distinct);
        run_families::<GoalRealm>(cx, pools, mode, 1, leaf_family(vec![node(Tag::All, vec![])]), total, distinct);
        run_families::<SubstRealm>(cx, pools, mode, 1, leaf_family(vec![node(Tag::SubstList, vec![])]), total, distinct);
        return;
    }
    run_families::<TyRealm>(cx, pools, mode, n, gen.ty_families(n, 0), total, distinct);
    run_families::<GoalRealm>(cx, pools, mode, n, gen.goal_families(n, 0), total, distinct);
    if n <= 3 {
        // rank-4 clauses only occur inside rank-4 goals (under `Implies`), not at top level
        run_families::<ClauseRealm>(cx, pools, mode, n, gen.clause_families(n, 0), total, distinct);
        run_families::<SubstRealm>(cx, pools, mode, n, gen.subst_families(n), total, distinct);
    }
}

/// Concrete cases with what the real code answered, for the evidence file.
fn samples(cx: &Cx, rep: &Report) {
    let i = ChalkIr;
    let v = |k, d, x| T::Var(k, d, x);
    let tys = vec![
        T::Bind(Tag::FnPtr, vec![K::Lt], vec![node(Tag::Ref, vec![v(K::Lt, 0, 0), v(K::Ty, 1, 0)]), v(K::Ty, 2, 1)]),
        mk_dyn(vec![K::Lt], vec![v(K::Ty, 1, 0), node(Tag::Ref, vec![v(K::Lt, 0, 0), v(K::Ty, 2, 0)])], v(K::Lt, 0, 1)),
        node(Tag::Array, vec![T::Bind(Tag::FnPtr, vec![K::Lt], vec![T::Bind(Tag::FnPtr, vec![K::Lt], vec![v(K::Ty, 2, 0)])]), v(K::Ct, 1, 0)]),
    ];
    for t in &tys {
        let r = cx.ty(t);
        let p_ast = vec![node(Tag::S, vec![v(K::Ty, 0, 1)]), v(K::Ty, 1, 0)];
        let params: Vec<_> = p_ast.iter().map(|p| cx.arg(p)).collect();
        let inn = r.clone().shifted_in(i);
        let out = r.clone().shifted_out(i);
        let sub = drive::guarded(|| Subst::apply(i, &params, r.clone()));
        rep.sample(json!({
            "sort": "ty", "term": show(t), "chalk_debug": format!("{:?}", r),
            "shifted_in": show(&cx.back_ty(&inn)), "reference_shifted_in": show(&r_shift_in(t, 1, 0)),
            "shifted_out": match &out { Ok(x) => show(&cx.back_ty(x)), Err(_) => "Err(NoSolution)".into() },
            "reference_shifted_out": r_shift_out(t, 1, 0).map(|x| show(&x)).unwrap_or("Err".into()),
            "subst_params": p_ast.iter().map(show).collect::<Vec<_>>(),
            "subst_apply": match &sub { Caught::Ok(x) => show(&cx.back_ty(x)), _ => "panic (kind mismatch)".into() },
            "reference_subst": r_subst(t, &p_ast, 0).map(|x| show(&x)).unwrap_or("ill-kinded".into()),
        }));
    }
    let goals = vec![
        T::Bind(Tag::Forall, vec![K::Ty], vec![node(Tag::Implies, vec![mk_clause(vec![K::Ty], node(Tag::Impl, vec![v(K::Ty, 0, 0), v(K::Ty, 2, 0)]), vec![]), node(Tag::EqG, vec![v(K::Ty, 0, 0), v(K::Ty, 1, 1)])])]),
        node(Tag::Not, vec![T::Bind(Tag::Exists, vec![K::Lt, K::Ct], vec![node(Tag::EqG, vec![v(K::Lt, 0, 0), v(K::Lt, 3, 1)])])]),
    ];
    for t in &goals {
        let r = cx.goal(t);
        let inn = r.clone().shifted_in_from(i, db(2));
        let out = r.clone().shifted_out_to(i, db(2));
        rep.sample(json!({
            "sort": "goal", "term": show(t), "chalk_debug": format!("{:?}", r),
            "shifted_in_from(2)": show(&cx.back_goal(&inn)), "reference": show(&r_shift_in(t, 2, 0)),
            "shifted_out_to(2)": match &out { Ok(x) => show(&cx.back_goal(x)), Err(_) => "Err(NoSolution)".into() },
            "reference_shifted_out_to(2)": r_shift_out(t, 2, 0).map(|x| show(&x)).unwrap_or("Err".into()),
        }));
    }
    let c = mk_clause(vec![K::Ty], node(Tag::Impl, vec![v(K::Ty, 0, 0), v(K::Lt, 1, 0)]), vec![node(Tag::Impl, vec![node(Tag::Ref, vec![v(K::Lt, 1, 0), v(K::Ty, 2, 1)])])]);
    let r = cx.clause(&c);
    let p_ast = vec![v(K::Lt, 0, 0)];
    let params: Vec<_> = p_ast.iter().map(|p| cx.arg(p)).collect();
    rep.sample(json!({
        "sort": "clause", "term": show(&c), "chalk_debug": format!("{:?}", r),
        "subst_params": p_ast.iter().map(show).collect::<Vec<_>>(),
        "subst_apply": show(&cx.back_clause(&Subst::apply(i, &params, r.clone()))),
        "reference_subst": r_subst(&c, &p_ast, 0).map(|x| show(&x)).unwrap_or_default(),
        "noop_fold_equal": r.clone().fold_with(&mut NoopInfallible, db(0)) == r,
    }));
}

pub fn run_c25(rep: &Report) -> i32 {
    let cx = match Cx::new() {
        Ok(c) => c,
        Err(e) => {
            rep.machinery_error(format!("cannot lower the id program: {}", e));
            return rep.finish(0, 0, 0, "none", false, &[]);
        }
    };
    let thorough = rep.is_thorough();
    let distinct = if std::env::var("VERIF_C25_DISTINCT").is_ok() { Some(std::sync::Mutex::new(HashSet::new())) } else { None };
    let mut total = Acc::default();
    // passes, smallest terms first
    let mut plan: Vec<(usize, usize, Mode)> = vec![
        // (rank, full_pair_depth, mode)
        (1, 2, Mode { kmax: 3, full_substs: true }),
        (2, 2, Mode { kmax: 3, full_substs: true }),
    ];
    if thorough {
        plan.push((3, 3, Mode { kmax: 3, full_substs: false }));
        plan.push((4, 2, Mode { kmax: 2, full_substs: false }));
    } else {
        plan.push((3, 2, Mode { kmax: 2, full_substs: false }));
    }
    let pools = Pools::new(&cx, &Gen::new(2));
    let mut per_pass = vec![];
    for (n, fpd, mode) in &plan {
        let gen = Gen::new(*fpd);
        let before = (total.n[C_TERMS], total.n[C_OPS]);
        let t0 = std::time::Instant::now();
        run_pass(&cx, &pools, &gen, *n, *mode, &mut total, &distinct);
        per_pass.push(json!({
            "rank": n,
            "two_child_products": if *n <= *fpd { "full" } else { "spine (one of the two children is a simple term)" },
            "substitutions": if mode.full_substs { "all from the full pools" } else { "all from the small pools" },
            "shift_amounts": format!("1..={}", mode.kmax),
            "terms": total.n[C_TERMS] - before.0,
            "real_ops": total.n[C_OPS] - before.1,
            "wall_s": t0.elapsed().as_secs_f64(),
        }));
    }
    samples(&cx, rep);
    for (k, v) in COUNTERS.iter().zip(total.n.iter()) {
        rep.count(k, *v);
    }
    rep.note("passes", json!(per_pass));
    rep.note(
        "parameter_pools",
        json!({
            "ty_full": pools.full[0].iter().map(|p| show(&p.0)).collect::<Vec<_>>(),
            "lifetime_full": pools.full[1].iter().map(|p| show(&p.0)).collect::<Vec<_>>(),
            "const_full": pools.full[2].iter().map(|p| show(&p.0)).collect::<Vec<_>>(),
            "ty_for_length_1_substitutions": format!("all {} types of rank <= 2", pools.ty_big.len()),
            "small": pools.small.iter().map(|v| v.iter().map(|p| show(&p.0)).collect::<Vec<_>>()).collect::<Vec<_>>(),
        }),
    );
    for m in total.machinery.iter().take(10) {
        rep.machinery_error(m.clone());
    }
    for ((kind, site), (n, vs)) in &total.viols {
        rep.count(&format!("violating_terms[{}|{}]", kind, site), *n);
        for (_, _, v) in vs {
            rep.violation(v.clone());
        }
    }
    crate::props::c01::vacuity(
        rep,
        &[
            "terms",
            "terms_with_bound_vars",
            "terms_with_var_bound_by_inner_binder",
            "terms_with_free_var_under_inner_binder",
            "shift_out_ok",
            "shift_out_escape_err",
            "term_subst_pairs",
            "subst_replacing_var_under_inner_binder_with_open_param",
            "substitution_apply_checked",
            "identity_law_checked",
            "cancel_law_checked",
            "commute_law_checked",
            "noop_folds",
        ],
    );
    let rule = "terms = every type / lifetime / const / goal / program clause / substitution of the module's grammar (ADTs, tuples, references, arrays, for<..> fn pointers, dyn types with Self binder + per-where-clause for<> binder, placeholders, concrete consts; forall/exists, implies, all, not, equality, Tr<..>/Tr2<..> goals; for<..> { head :- conditions } clauses) of rank 1, 2, 3 (thorough: also 4), where a variable position under b binders of the term ranges over all three kinds, de Bruijn depths 0..b+2 and indices 0..1 (so every variable is bound by one of the term's binders or free at depth 0..2); products of two term children are full up to rank 2 (thorough: 3) and spine-shaped above; each term is paired with every well-kinded substitution of length <= 2 for its innermost free variables from the parameter pools (full pools at rank <= 2, two representatives per kind above). Every term goes through shifted_in/shifted_in_from(k)/shifted_out/shifted_out_to(k), two no-op folders at two starting depths, identity substitution, and per substitution Subst::apply, Binders::substitute (slice and Substitution), Substitution::apply, shift-cancel and shift-commute laws. non-trivial = the term contains at least one bound variable (free at the outermost level or bound by a binder inside the term)";
    rep.finish(
        total.n[C_TERMS] + total.n[C_PAIRS],
        total.n[C_OPS],
        total.n[C_NONTRIV],
        rule,
        true,
        &[
            "REF = textbook de Bruijn shift (with cutoff), down-shift (fails when a free variable would escape) and single-level substitution (replacement shifted by the number of binders passed) on the module's own AST (harness/src/props/c25.rs)",
            "the commutation law checked is shift_k(B.substitute(p)) == B.shifted_in_from(k).substitute(shift_k p) for B = Binders::new(kinds, body): shifting a Binders value leaves the binder's own level alone, which is exactly the cutoff-1 shift of the de Bruijn substitution lemma; plus the cancellation form Subst::apply(p, t.shifted_in()) == t",
            "Substitution::apply and the literal identity law are only exercised on terms whose free variables are all innermost (SubstFolder asserts that; substitute eliminates the binder level otherwise)",
            "terms that use one innermost index at two different kinds are shifted and folded but not substituted into (chalk panics on kind mismatch by design)",
        ],
    )
}
