//! C29: subtyping follows declared variance.

use crate::drive::{self, Caught, DSol, SolverCfg};
use crate::report::{panic_site, Report, Violation};
use rayon::prelude::*;
use serde_json::json;
use std::collections::BTreeSet;

#[derive(Copy, Clone, Debug, PartialEq, Eq)]
enum V {
    Co,
    Contra,
    Inv,
}

impl V {
    /// composition of variances
    fn xform(self, o: V) -> V {
        match (self, o) {
            (V::Inv, _) | (_, V::Inv) => V::Inv,
            (x, V::Co) => x,
            (V::Co, V::Contra) => V::Contra,
            (V::Contra, V::Contra) => V::Co,
        }
    }
}

#[derive(Clone, Debug, PartialEq, Eq, Hash, PartialOrd, Ord)]
enum T {
    U32,
    Ref(bool, u8, Box<T>), // mutable?, lifetime, pointee
    /// ADT over one lifetime: 0 = Co, 1 = Contra, 2 = Inv
    AdtL(u8, u8),
    /// ADT over one type: 0 = CoT, 1 = ContraT, 2 = InvT
    AdtT(u8, Box<T>),
    Tuple(Vec<T>),
    Fn(Vec<T>, Box<T>),
}

/// 'static, two placeholders, and an UNKNOWN lifetime `'c` (bound by `exists<'c>` inside the `forall`)
const LT: [&str; 4] = ["'static", "'a", "'b", "'c"];
/// how the decoder prints them (forall<'a, 'b> => universe 1, indices 0 and 1; the unknown is the
/// answer's only bound variable)
const LT_DECODED: [&str; 4] = ["'static", "'!1_0", "'!1_1", "'^0.0"];

fn mentions_unknown(t: &T) -> bool {
    match t {
        T::U32 => false,
        T::Ref(_, l, p) => *l == 3 || mentions_unknown(p),
        T::AdtL(_, l) => *l == 3,
        T::AdtT(_, p) => mentions_unknown(p),
        T::Tuple(v) => v.iter().any(mentions_unknown),
        T::Fn(a, r) => a.iter().any(mentions_unknown) || mentions_unknown(r),
    }
}
const ADTL: [(&str, V); 3] = [("Co", V::Co), ("Contra", V::Contra), ("Inv", V::Inv)];
const ADTT: [(&str, V); 3] = [("CoT", V::Co), ("ContraT", V::Contra), ("InvT", V::Inv)];

fn show(t: &T) -> String {
    match t {
        T::U32 => "u32".into(),
        T::Ref(m, l, p) => format!("&{} {}{}", LT[*l as usize], if *m { "mut " } else { "" }, show(p)),
        T::AdtL(k, l) => format!("{}<{}>", ADTL[*k as usize].0, LT[*l as usize]),
        T::AdtT(k, p) => format!("{}<{}>", ADTT[*k as usize].0, show(p)),
        T::Tuple(v) => format!("({}{})", v.iter().map(show).collect::<Vec<_>>().join(", "), if v.len() == 1 { "," } else { "" }),
        T::Fn(a, r) => format!("fn({}) -> {}", a.iter().map(show).collect::<Vec<_>>().join(", "), show(r)),
    }
}

/// REF: walk both structures with the variance algebra; `None` = structures disagree.
fn walk(a: &T, b: &T, v: V, out: &mut BTreeSet<String>) -> bool {
    let lt = |x: u8, y: u8, v: V, out: &mut BTreeSet<String>| {
        if x == y {
            return;
        }
        let (dx, dy) = (LT_DECODED[x as usize], LT_DECODED[y as usize]);
        // chalk's convention: in a covariant position (x, y) requires `y: x`,
        // in a contravariant position `x: y`, in an invariant position both.
        if matches!(v, V::Inv | V::Contra) {
            out.insert(format!("{}: {}", dx, dy));
        }
        if matches!(v, V::Inv | V::Co) {
            out.insert(format!("{}: {}", dy, dx));
        }
    };
    match (a, b) {
        (T::U32, T::U32) => true,
        (T::Ref(m1, l1, p1), T::Ref(m2, l2, p2)) => {
            if m1 != m2 {
                return false;
            }
            // the lifetime of a reference is a contravariant position
            lt(*l1, *l2, v.xform(V::Contra), out);
            walk(p1, p2, v.xform(if *m1 { V::Inv } else { V::Co }), out)
        }
        (T::AdtL(k1, l1), T::AdtL(k2, l2)) => {
            if k1 != k2 {
                return false;
            }
            lt(*l1, *l2, v.xform(ADTL[*k1 as usize].1), out);
            true
        }
        (T::AdtT(k1, p1), T::AdtT(k2, p2)) => k1 == k2 && walk(p1, p2, v.xform(ADTT[*k1 as usize].1), out),
        (T::Tuple(x), T::Tuple(y)) => x.len() == y.len() && x.iter().zip(y).all(|(p, q)| walk(p, q, v.xform(V::Co), out)),
        (T::Fn(a1, r1), T::Fn(a2, r2)) => {
            a1.len() == a2.len()
                && a1.iter().zip(a2).all(|(p, q)| walk(p, q, v.xform(V::Contra), out))
                && walk(r1, r2, v.xform(V::Co), out)
        }
        _ => false,
    }
}

fn types(thorough: bool) -> Vec<T> {
    let mut leaves = vec![T::U32];
    for l in 0..4u8 {
        leaves.push(T::Ref(false, l, Box::new(T::U32)));
        leaves.push(T::Ref(true, l, Box::new(T::U32)));
        for k in 0..3u8 {
            leaves.push(T::AdtL(k, l));
        }
    }
    let mut v = leaves.clone();
    for t in &leaves {
        if *t == T::U32 {
            continue;
        }
        for k in 0..3u8 {
            v.push(T::AdtT(k, Box::new(t.clone())));
        }
        v.push(T::Tuple(vec![t.clone(), T::U32]));
        v.push(T::Fn(vec![t.clone()], Box::new(T::U32)));
        v.push(T::Fn(vec![T::U32], Box::new(t.clone())));
        v.push(T::Ref(false, 0, Box::new(t.clone())));
        v.push(T::Ref(true, 0, Box::new(t.clone())));
        if thorough {
            v.push(T::Ref(false, 1, Box::new(t.clone())));
            v.push(T::Fn(vec![t.clone()], Box::new(t.clone())));
            v.push(T::Tuple(vec![t.clone()]));
            v.push(T::AdtT(1, Box::new(T::AdtT(1, Box::new(t.clone())))));
            v.push(T::Fn(vec![T::Fn(vec![t.clone()], Box::new(T::U32))], Box::new(T::U32)));
        }
    }
    v
}

const PROGRAM: &str = "#[variance(Covariant)] struct Co<'a> {} #[variance(Contravariant)] struct Contra<'a> {} struct Inv<'a> {} \
    #[variance(Covariant)] struct CoT<T> {} #[variance(Contravariant)] struct ContraT<T> {} struct InvT<T> {}";

pub fn run_c29(rep: &Report) -> i32 {
    let thorough = rep.is_thorough();
    let tys = types(thorough);
    rep.note("types", json!(tys.len()));
    let program = drive::load_program(PROGRAM).expect("c29 program");
    let n = tys.len();
    (0..n).into_par_iter().for_each(|i| {
        for j in 0..n {
            let (a, b) = (&tys[i], &tys[j]);
            let mut expect = BTreeSet::new();
            let agree = walk(a, b, V::Co, &mut expect);
            // pairs of different outer shape are only interesting in small numbers
            if !agree && (i + j) % 7 != 0 {
                continue;
            }
            rep.count("pairs", 1);
            if agree {
                rep.count("pairs_structures_agree", 1);
                if !expect.is_empty() {
                    rep.count("pairs_with_lifetime_requirements", 1);
                }
            }
            let unknown = mentions_unknown(a) || mentions_unknown(b);
            let goal = if unknown {
                format!("forall<'a, 'b> {{ exists<'c> {{ Subtype({}, {}) }} }}", show(a), show(b))
            } else {
                format!("forall<'a, 'b> {{ Subtype({}, {}) }}", show(a), show(b))
            };
            let peeled = match drive::peel(&program, &goal) {
                Ok(p) => p,
                Err(e) => {
                    rep.machinery_error(format!("c29 goal does not lower: {} :: {}", e, goal));
                    continue;
                }
            };
            for cfg in [SolverCfg::SLG, SolverCfg::REC] {
                let (r, _) = drive::solve_fresh(&program, &peeled, cfg);
                rep.count("solver_calls", 1);
                let input = || json!({"program": PROGRAM, "goal": goal, "solver": cfg.name()});
                match r {
                    Caught::Ok(sol) => {
                        match (&sol, agree) {
                            (DSol::Unique(s), true) => {
                                let got: BTreeSet<String> = s
                                    .constraints
                                    .iter()
                                    .filter(|c| {
                                        let mut it = c.split(": ");
                                        it.next() != it.next() // drop trivial 'x: 'x
                                    })
                                    .cloned()
                                    .collect();
                                // The unknown either stays unknown (one lifetime binder, ['c := '^0.0]) or —
                                // where the variance dictates outlives in BOTH directions with some lifetime X —
                                // is bound to X by the substitution, which states the same equality. The
                                // remaining requirements are compared modulo that binding.
                                let mut expect = expect.clone();
                                let binders_ok = if unknown {
                                    match s.args.first() {
                                        Some(crate::drive::DArg::Lifetime(l)) if s.args.len() == 1 && l == "'^0.0" => s.binders.len() == 1,
                                        Some(crate::drive::DArg::Lifetime(x)) if s.args.len() == 1 => {
                                            let both = expect.contains(&format!("{}: '^0.0", x)) && expect.contains(&format!("'^0.0: {}", x));
                                            expect = expect
                                                .iter()
                                                .map(|c| c.replace("'^0.0", x))
                                                .filter(|c| {
                                                    let mut it = c.split(": ");
                                                    it.next() != it.next()
                                                })
                                                .collect();
                                            both && s.binders.is_empty()
                                        }
                                        _ => false,
                                    }
                                } else {
                                    s.binders.is_empty()
                                };
                                if got != expect || !binders_ok {
                                    rep.violation(Violation {
                                        property: "C29".into(),
                                        kind: "wrong-lifetime-requirements".into(),
                                        site: format!("{}/{}", cfg.short(), head(a)),
                                        what: format!("{} `{}`: requirements {:?} (binders {:?}), variance dictates {:?}", cfg.name(), goal, got, s.binders, expect),
                                        input: input(),
                                    });
                                }
                            }
                            (other, true) => rep.violation(Violation {
                                property: "C29".into(),
                                kind: "structures-agree-but-not-unique".into(),
                                site: format!("{}/{}", cfg.short(), head(a)),
                                what: format!("{} `{}`: answer {}, expected Unique with requirements {:?}", cfg.name(), goal, other.tag(), expect),
                                input: input(),
                            }),
                            (DSol::Unique(_), false) => rep.violation(Violation {
                                property: "C29".into(),
                                kind: "structures-disagree-but-unique".into(),
                                site: format!("{}/{}~{}", cfg.short(), head(a), head(b)),
                                what: format!("{} `{}`: answer Unique although the two types differ in structure", cfg.name(), goal),
                                input: input(),
                            }),
                            _ => {}
                        }
                    }
                    Caught::Panic(loc, msg) => rep.violation(Violation {
                        property: "C29".into(),
                        kind: "panic".into(),
                        site: panic_site(&loc, &msg),
                        what: format!("{} `{}` panics: {}", cfg.name(), goal, msg),
                        input: input(),
                    }),
                    _ => {}
                }
            }
            if (i * n + j) % 4001 == 0 {
                rep.sample(json!({"goal": goal, "structures_agree": agree, "expected_requirements": expect}));
            }
        }
    });
    crate::props::c01::vacuity(rep, &["pairs_structures_agree", "pairs_with_lifetime_requirements"]);
    let states = rep.get("pairs");
    let tr = rep.get("solver_calls");
    let nt = rep.get("pairs_with_lifetime_requirements");
    rep.finish(
        states,
        tr,
        nt,
        "every ordered pair of types of depth <= 2 (thorough: deeper nestings) built from shared and mutable references, fn pointers without higher-ranked lifetimes, tuples, ADTs over a lifetime or a type with each declared variance, with lifetimes from {'static, the placeholders 'a and 'b, the unknown 'c}, posed as forall<'a,'b> { Subtype(A, B) } (forall<'a,'b> { exists<'c> { .. } } when 'c occurs) to both solvers (pairs of different structure are thinned 1:7); the answer must be Unique exactly when the structures agree and its outlives constraints, as a set modulo duplicates and trivial ones, must equal those dictated by the variance of each position; non-trivial = agreeing pairs with a non-empty requirement set",
        true,
        &[
            "lifetime-leaf convention is chalk's documented one (covariant position (x,y) requires y: x; a reference's lifetime is a contravariant position), as blessed by the pinned tests ref_lifetime_variance and struct_lifetime_variance",
            "None vs Ambiguous on a structural mismatch is not judged",
        ],
    )
}

fn head(t: &T) -> &'static str {
    match t {
        T::U32 => "u32",
        T::Ref(false, ..) => "ref",
        T::Ref(true, ..) => "refmut",
        T::AdtL(..) => "adt-lifetime",
        T::AdtT(..) => "adt-type",
        T::Tuple(_) => "tuple",
        T::Fn(..) => "fnptr",
    }
}
