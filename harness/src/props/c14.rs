//! C14 (unification is sound and most general) and C15 (failed unification
//! leaves the table untouched; success is symmetric): explicit-state search
//! over real `InferenceTable`s (clonable), each transition one `relate` call,
//! compared step by step with a textbook unifier (REF).

use crate::drive::{self, Caught};
use crate::report::{Report, Violation};
use chalk_integration::interner::ChalkIr;
use chalk_integration::program::Program;
use chalk_ir::*;
use chalk_solve::infer::{InferenceTable, ParameterEnaVariable};
use rayon::prelude::*;
use rustc_hash::FxHashMap;
use serde_json::json;
use std::sync::Arc;

#[derive(Clone, Debug, PartialEq, Eq, Hash, PartialOrd, Ord)]
pub enum T {
    Var(usize),
    Ph(usize, usize),
    App(&'static str, Vec<T>),
}

#[derive(Copy, Clone, Debug, PartialEq, Eq, Hash)]
pub enum Kind {
    General,
    Int,
    Float,
}

/// The five variables of the initial table: (universe, kind)
pub const VARS: [(usize, Kind); 5] = [
    (0, Kind::General),
    (1, Kind::General),
    (2, Kind::General),
    (0, Kind::Int),
    (0, Kind::Float),
];
const VAR_NAMES: [&str; 5] = ["?a@U0", "?b@U1", "?c@U2", "?i", "?f"];

pub fn show(t: &T) -> String {
    match t {
        T::Var(v) => VAR_NAMES.get(*v).map(|s| s.to_string()).unwrap_or(format!("?{}", v)),
        T::Ph(u, i) => format!("!{}_{}", u, i),
        T::App(n, a) if a.is_empty() => n.to_string(),
        T::App(n, a) => format!("{}<{}>", n, a.iter().map(show).collect::<Vec<_>>().join(", ")),
    }
}

// ---------------------------------------------------------------------------
// REF unifier

#[derive(Clone, Debug)]
pub struct RefState {
    pub bind: Vec<Option<T>>,
    pub universe: Vec<usize>,
    pub kind: Vec<Kind>,
}

impl RefState {
    pub fn initial() -> RefState {
        RefState {
            bind: vec![None; VARS.len()],
            universe: VARS.iter().map(|v| v.0).collect(),
            kind: VARS.iter().map(|v| v.1).collect(),
        }
    }
    fn walk(&self, t: &T) -> T {
        let mut t = t.clone();
        loop {
            match &t {
                T::Var(v) => match &self.bind[*v] {
                    Some(b) => t = b.clone(),
                    None => return t,
                },
                _ => return t,
            }
        }
    }
    pub fn resolve(&self, t: &T) -> T {
        match self.walk(t) {
            T::App(n, a) => T::App(n, a.iter().map(|x| self.resolve(x)).collect()),
            o => o,
        }
    }
    fn occurs_and_adjust(&mut self, x: usize, ux: usize, t: &T) -> bool {
        match self.walk(t) {
            T::Var(y) => {
                if y == x {
                    return false;
                }
                if self.universe[y] > ux {
                    self.universe[y] = ux;
                }
                true
            }
            T::Ph(u, _) => u <= ux,
            T::App(_, a) => a.iter().all(|s| self.occurs_and_adjust(x, ux, s)),
        }
    }
    /// Unify in place; on `false` the state is garbage (callers work on a clone).
    pub fn unify(&mut self, a: &T, b: &T) -> bool {
        let a = self.walk(a);
        let b = self.walk(b);
        match (&a, &b) {
            (T::Var(x), T::Var(y)) => {
                if x == y {
                    return true;
                }
                match (self.kind[*x], self.kind[*y]) {
                    (Kind::General, Kind::General) => {
                        let u = self.universe[*x].min(self.universe[*y]);
                        self.universe[*y] = u;
                        self.bind[*x] = Some(T::Var(*y));
                        true
                    }
                    (k1, k2) if k1 == k2 => {
                        let u = self.universe[*x].min(self.universe[*y]);
                        self.universe[*y] = u;
                        self.bind[*x] = Some(T::Var(*y));
                        true
                    }
                    (Kind::General, _) => {
                        self.bind[*x] = Some(T::Var(*y));
                        true
                    }
                    (_, Kind::General) => {
                        self.bind[*y] = Some(T::Var(*x));
                        true
                    }
                    _ => false,
                }
            }
            (T::Var(x), t) | (t, T::Var(x)) => {
                let ok_kind = match self.kind[*x] {
                    Kind::General => true,
                    Kind::Int => matches!(t, T::App(n, _) if *n == "u8" || *n == "i8"),
                    Kind::Float => matches!(t, T::App(n, _) if *n == "f32"),
                };
                if !ok_kind {
                    return false;
                }
                let ux = self.universe[*x];
                if !self.occurs_and_adjust(*x, ux, t) {
                    return false;
                }
                self.bind[*x] = Some(t.clone());
                true
            }
            (T::Ph(u, i), T::Ph(v, j)) => u == v && i == j,
            (T::App(n, xs), T::App(m, ys)) => {
                n == m && xs.len() == ys.len() && {
                    for (p, q) in xs.iter().zip(ys) {
                        if !self.unify(p, q) {
                            return false;
                        }
                    }
                    true
                }
            }
            _ => false,
        }
    }
    /// Canonical observable state: the resolved values of the five original
    /// variables with unbound variables numbered by first occurrence, plus the
    /// (kind, universe) of each such variable.
    pub fn canon(&self) -> (Vec<T>, Vec<(Kind, usize)>) {
        let mut order: Vec<usize> = vec![];
        let mut out = vec![];
        fn ren(t: &T, order: &mut Vec<usize>) -> T {
            match t {
                T::Var(v) => {
                    let i = match order.iter().position(|x| x == v) {
                        Some(i) => i,
                        None => {
                            order.push(*v);
                            order.len() - 1
                        }
                    };
                    T::Var(i)
                }
                T::App(n, a) => T::App(n, a.iter().map(|x| ren(x, order)).collect()),
                o => o.clone(),
            }
        }
        for v in 0..VARS.len() {
            let r = self.resolve(&T::Var(v));
            out.push(ren(&r, &mut order));
        }
        let binders = order.iter().map(|v| (self.kind[*v], self.universe[*v])).collect();
        (out, binders)
    }
}

// ---------------------------------------------------------------------------
// bridge to chalk

pub struct Bridge {
    pub program: Arc<Program>,
    adt: FxHashMap<&'static str, AdtId<ChalkIr>>,
}

pub const PROGRAM: &str = "struct A {} struct S<T> {} struct P<T, U> {} #[variance(Covariant)] struct C<T> {}";

impl Bridge {
    pub fn new() -> Bridge {
        let program = drive::load_program(PROGRAM).expect("c14 program");
        let mut adt = FxHashMap::default();
        for n in ["A", "S", "P", "C"] {
            let id = program
                .adt_ids
                .iter()
                .find(|(k, _)| k.to_string() == n)
                .map(|(_, v)| *v)
                .unwrap();
            adt.insert(n, id);
        }
        Bridge { program, adt }
    }

    pub fn new_table(&self) -> (InferenceTable<ChalkIr>, Vec<InferenceVar>) {
        let mut t = InferenceTable::new();
        let u1 = t.new_universe();
        let u2 = t.new_universe();
        let us = [UniverseIndex::root(), u1, u2];
        let vars = VARS.iter().map(|(u, _)| InferenceVar::from(t.new_variable(us[*u]))).collect();
        (t, vars)
    }

    pub fn ty(&self, t: &T, vars: &[InferenceVar]) -> Ty<ChalkIr> {
        let i = ChalkIr;
        match t {
            T::Var(v) => {
                let k = match VARS[*v].1 {
                    Kind::General => TyVariableKind::General,
                    Kind::Int => TyVariableKind::Integer,
                    Kind::Float => TyVariableKind::Float,
                };
                vars[*v].to_ty(i, k)
            }
            T::Ph(u, idx) => TyKind::Placeholder(PlaceholderIndex {
                ui: UniverseIndex { counter: *u },
                idx: *idx,
            })
            .intern(i),
            T::App(n, a) => {
                let args: Vec<Ty<ChalkIr>> = a.iter().map(|x| self.ty(x, vars)).collect();
                let subst = || Substitution::from_iter(i, args.iter().cloned());
                match *n {
                    "A" | "S" | "P" | "C" => TyKind::Adt(self.adt[n], subst()).intern(i),
                    "tuple" => TyKind::Tuple(args.len(), subst()).intern(i),
                    "slice" => TyKind::Slice(args[0].clone()).intern(i),
                    "ptrc" => TyKind::Raw(Mutability::Not, args[0].clone()).intern(i),
                    "ptrm" => TyKind::Raw(Mutability::Mut, args[0].clone()).intern(i),
                    "ref" => TyKind::Ref(Mutability::Not, Lifetime::new(i, LifetimeData::Static), args[0].clone()).intern(i),
                    "u8" => TyKind::Scalar(Scalar::Uint(UintTy::U8)).intern(i),
                    "i8" => TyKind::Scalar(Scalar::Int(IntTy::I8)).intern(i),
                    "f32" => TyKind::Scalar(Scalar::Float(FloatTy::F32)).intern(i),
                    "str" => TyKind::Str.intern(i),
                    other => panic!("unknown ctor {}", other),
                }
            }
        }
    }

    fn back(&self, t: &Ty<ChalkIr>) -> T {
        let i = ChalkIr;
        let subst = |s: &Substitution<ChalkIr>| -> Vec<T> {
            s.iter(i).map(|a| self.back(a.assert_ty_ref(i))).collect()
        };
        match t.kind(i) {
            TyKind::BoundVar(b) => T::Var(b.index),
            TyKind::Placeholder(p) => T::Ph(p.ui.counter, p.idx),
            TyKind::Adt(id, s) => {
                let n = self.adt.iter().find(|(_, v)| *v == id).map(|(k, _)| *k).unwrap();
                T::App(n, subst(s))
            }
            TyKind::Tuple(_, s) => T::App("tuple", subst(s)),
            TyKind::Slice(x) => T::App("slice", vec![self.back(x)]),
            TyKind::Raw(Mutability::Not, x) => T::App("ptrc", vec![self.back(x)]),
            TyKind::Raw(Mutability::Mut, x) => T::App("ptrm", vec![self.back(x)]),
            TyKind::Ref(_, _, x) => T::App("ref", vec![self.back(x)]),
            TyKind::Scalar(Scalar::Uint(_)) => T::App("u8", vec![]),
            TyKind::Scalar(Scalar::Int(_)) => T::App("i8", vec![]),
            TyKind::Scalar(Scalar::Float(_)) => T::App("f32", vec![]),
            TyKind::Str => T::App("str", vec![]),
            other => panic!("unexpected type in table: {:?}", other),
        }
    }

    /// Observable state of a real table (works on a clone): canonicalize the
    /// tuple of all original variables.
    pub fn observe(
        &self,
        table: &InferenceTable<ChalkIr>,
        vars: &[InferenceVar],
    ) -> (Vec<T>, Vec<(Kind, usize)>, usize) {
        let i = ChalkIr;
        let mut t = table.clone();
        let tys: Vec<Ty<ChalkIr>> = (0..VARS.len()).map(|v| self.ty(&T::Var(v), vars)).collect();
        let tuple = TyKind::Tuple(tys.len(), Substitution::from_iter(i, tys)).intern(i);
        let c = t.canonicalize(i, tuple);
        let vals = match c.quantified.value.kind(i) {
            TyKind::Tuple(_, s) => s.iter(i).map(|a| self.back(a.assert_ty_ref(i))).collect(),
            _ => unreachable!(),
        };
        let binders = c
            .quantified
            .binders
            .iter(i)
            .map(|b| {
                let k = match &b.kind {
                    VariableKind::Ty(TyVariableKind::General) => Kind::General,
                    VariableKind::Ty(TyVariableKind::Integer) => Kind::Int,
                    VariableKind::Ty(TyVariableKind::Float) => Kind::Float,
                    other => panic!("unexpected binder kind {:?}", other),
                };
                (k, b.skip_kind().counter)
            })
            .collect();
        let next_universe = t.new_universe().counter;
        let _: &Vec<ParameterEnaVariable<ChalkIr>> = &c.free_vars;
        (vals, binders, next_universe)
    }
}

// ---------------------------------------------------------------------------
// term set

pub fn term_set(thorough: bool) -> Vec<T> {
    let atoms: Vec<T> = vec![
        T::App("A", vec![]),
        T::App("u8", vec![]),
        T::App("i8", vec![]),
        T::App("f32", vec![]),
        T::Var(0),
        T::Var(1),
        T::Var(2),
        T::Var(3),
        T::Var(4),
        T::Ph(1, 0),
        T::Ph(2, 0),
    ];
    let mut v = atoms.clone();
    let unary: &[&'static str] = if thorough {
        // (no references: generalizing `&'static T` creates lifetime unknowns, which the reference
        // state of this search does not model; lifetimes are C29's subject)
        &["S", "C", "slice", "ptrc", "ptrm"]
    } else {
        &["S", "slice", "ptrm", "C"]
    };
    for c in unary {
        for a in &atoms {
            v.push(T::App(c, vec![a.clone()]));
        }
    }
    let bin_atoms: Vec<T> = if thorough {
        vec![T::App("A", vec![]), T::Var(0), T::Var(1), T::Var(2), T::Ph(1, 0), T::Ph(2, 0), T::Var(3)]
    } else {
        vec![T::App("A", vec![]), T::Var(0), T::Var(1), T::Ph(1, 0)]
    };
    for c in ["P", "tuple"] {
        for a in &bin_atoms {
            for b in &bin_atoms {
                v.push(T::App(c, vec![a.clone(), b.clone()]));
            }
        }
    }
    // depth 3: a few nested shapes that exercise occurs check and demotion
    for inner in [T::Var(0), T::Var(1), T::Var(2), T::Ph(2, 0)] {
        v.push(T::App("S", vec![T::App("S", vec![inner.clone()])]));
        v.push(T::App("P", vec![T::App("S", vec![inner.clone()]), T::Var(1)]));
    }
    v
}

fn is_lifetime_free_covariant_ok(_t: &T) -> bool {
    true
}

// ---------------------------------------------------------------------------
// exploration

#[derive(Clone)]
struct State {
    table: InferenceTable<ChalkIr>,
    refs: RefState,
    history: Vec<(usize, usize, bool)>,
}

pub fn run(rep: &Report, property: &str) -> i32 {
    let thorough = rep.is_thorough();
    let bridge = Bridge::new();
    let terms = term_set(thorough);
    let depth = if thorough { 3 } else { 2 };
    let frontier_cap = if thorough { 1500 } else { 250 };
    let (t0, vars) = bridge.new_table();
    let env = Environment::new(ChalkIr);
    let init = State {
        table: t0,
        refs: RefState::initial(),
        history: vec![],
    };
    let mut seen: FxHashMap<(Vec<T>, Vec<(usize, usize)>), ()> = FxHashMap::default();
    let key_of = |r: &RefState| {
        let (a, b) = r.canon();
        (a, b.iter().map(|(k, u)| (*k as usize, *u)).collect::<Vec<_>>())
    };
    seen.insert(key_of(&init.refs), ());
    let mut frontier = vec![init];
    let mut total_states = 1u64;
    let mut capped = false;
    rep.note("terms", json!(terms.len()));
    for level in 0..depth {
        rep.note(&format!("frontier_at_depth_{}", level), json!(frontier.len()));
        // expand every frontier state by every ordered pair (in parallel over states)
        let results: Vec<Vec<State>> = frontier
            .par_iter()
            .map(|st| {
                let mut next = vec![];
                // the scratch table accumulates *failed* attempts: hidden
                // corruption by a failed relate would show up later.
                let mut scratch = st.table.clone();
                let before = bridge.observe(&st.table, &vars);
                for (ia, a) in terms.iter().enumerate() {
                    for (ib, b) in terms.iter().enumerate() {
                        let ta = bridge.ty(a, &vars);
                        let tb = bridge.ty(b, &vars);
                        // REF prediction
                        let mut r2 = st.refs.clone();
                        let ref_ok = r2.unify(a, b);
                        // real code on a clone of the scratch table
                        drive::trace_case(|| {
                            format!(
                                "relate(Invariant, {}, {}) after history {:?}",
                                show(a),
                                show(b),
                                st.history.iter().map(|(x, y, ok)| (show(&terms[*x]), show(&terms[*y]), *ok)).collect::<Vec<_>>()
                            )
                        });
                        let mut t2 = scratch.clone();
                        let res = drive::guarded(|| {
                            t2.relate(ChalkIr, &*bridge.program, &env, Variance::Invariant, &ta, &tb)
                                .map(|r| r.goals.len())
                        });
                        rep.count("relate_calls", 1);
                        let input = || {
                            json!({"history": st.history.iter().map(|(x, y, ok)| json!([show(&terms[*x]), show(&terms[*y]), ok])).collect::<Vec<_>>(),
                                   "a": show(a), "b": show(b)})
                        };
                        let chalk_ok = match res {
                            Caught::Ok(Ok(ngoals)) => {
                                if ngoals != 0 {
                                    rep.count("relate_with_residual_goals", 1);
                                }
                                true
                            }
                            Caught::Ok(Err(_)) => false,
                            Caught::Panic(loc, msg) => {
                                rep.violation(Violation {
                                    property: "C14".into(),
                                    kind: "panic".into(),
                                    site: crate::report::panic_site(&loc, &msg),
                                    what: format!("relate({}, {}) panics: {}", show(a), show(b), msg),
                                    input: input(),
                                });
                                continue;
                            }
                            _ => continue,
                        };
                        if chalk_ok != ref_ok {
                            rep.violation(Violation {
                                property: "C14".into(),
                                kind: if chalk_ok { "unifies-but-not-unifiable".into() } else { "fails-but-unifiable".into() },
                                site: format!("{}~{}", head(a), head(b)),
                                what: format!(
                                    "relate(Invariant, {}, {}) = {} but REF says {} (after {} prior relates)",
                                    show(a), show(b), chalk_ok, ref_ok, st.history.len()
                                ),
                                input: input(),
                            });
                            continue;
                        }
                        if chalk_ok {
                            rep.count("successful", 1);
                            // soundness + generality: observable state equals REF's MGU
                            let obs = bridge.observe(&t2, &vars);
                            let (rv, rb) = r2.canon();
                            if obs.0 != rv || obs.1 != rb {
                                rep.violation(Violation {
                                    property: "C14".into(),
                                    kind: "result-differs-from-mgu".into(),
                                    site: format!("{}~{}", head(a), head(b)),
                                    what: format!(
                                        "after relate({}, {}): table = {:?} binders {:?}; REF MGU = {:?} binders {:?}",
                                        show(a), show(b),
                                        obs.0.iter().map(show).collect::<Vec<_>>(), obs.1,
                                        rv.iter().map(show).collect::<Vec<_>>(), rb
                                    ),
                                    input: input(),
                                });
                            }
                            // covariant relation of lifetime-free types: same success, and after
                            // discharging returned subtype goals as equalities the same state
                            if is_lifetime_free_covariant_ok(a) {
                                let mut t3 = scratch.clone();
                                let r = drive::guarded(|| covariant_closure(&bridge, &env, &mut t3, &ta, &tb));
                                rep.count("covariant_relate_calls", 1);
                                match r {
                                    Caught::Ok(true) => {
                                        let o3 = bridge.observe(&t3, &vars);
                                        if o3.0 != obs.0 || o3.1 != obs.1 {
                                            rep.violation(Violation {
                                                property: "C14".into(),
                                                kind: "covariant-differs-from-invariant".into(),
                                                site: format!("{}~{}", head(a), head(b)),
                                                what: format!("relate(Covariant, {}, {}) + returned subtype goals gives {:?}/{:?}, invariant gives {:?}/{:?}", show(a), show(b), o3.0.iter().map(show).collect::<Vec<_>>(), o3.1, obs.0.iter().map(show).collect::<Vec<_>>(), obs.1),
                                                input: input(),
                                            });
                                        }
                                    }
                                    Caught::Ok(false) => rep.violation(Violation {
                                        property: "C14".into(),
                                        kind: "covariant-fails-but-unifiable".into(),
                                        site: format!("{}~{}", head(a), head(b)),
                                        what: format!("relate(Covariant, {}, {}) fails although the lifetime-free types unify", show(a), show(b)),
                                        input: input(),
                                    }),
                                    _ => {}
                                }
                            }
                            let mut h = st.history.clone();
                            h.push((ia, ib, true));
                            next.push(State { table: t2, refs: r2, history: h });
                        } else {
                            rep.count("failed", 1);
                            // C15: the failed attempt is applied to the scratch table itself
                            let r = drive::guarded(|| {
                                scratch
                                    .relate(ChalkIr, &*bridge.program, &env, Variance::Invariant, &ta, &tb)
                                    .is_ok()
                            });
                            if r != Caught::Ok(false) {
                                rep.machinery_error(format!("replayed failing relate diverged: {:?}", r));
                            }
                            let after = bridge.observe(&scratch, &vars);
                            if after != before {
                                rep.violation(Violation {
                                    property: "C15".into(),
                                    kind: "failed-relate-changed-table".into(),
                                    site: format!("{}~{}", head(a), head(b)),
                                    what: format!(
                                        "failed relate({}, {}) changed the table: before {:?}/{:?}/next-universe {}, after {:?}/{:?}/next-universe {}",
                                        show(a), show(b),
                                        before.0.iter().map(show).collect::<Vec<_>>(), before.1, before.2,
                                        after.0.iter().map(show).collect::<Vec<_>>(), after.1, after.2
                                    ),
                                    input: input(),
                                });
                                scratch = st.table.clone();
                            }
                        }
                        // C15: order of the two types never changes success
                        if ia < ib {
                            let mut t4 = st.table.clone();
                            let rev = drive::guarded(|| {
                                t4.relate(ChalkIr, &*bridge.program, &env, Variance::Invariant, &tb, &ta).is_ok()
                            });
                            rep.count("relate_calls", 1);
                            if let Caught::Ok(rev_ok) = rev {
                                if rev_ok != chalk_ok {
                                    rep.violation(Violation {
                                        property: "C15".into(),
                                        kind: "asymmetric-success".into(),
                                        site: format!("{}~{}", head(a), head(b)),
                                        what: format!("relate({}, {}) = {} but relate({}, {}) = {}", show(a), show(b), chalk_ok, show(b), show(a), rev_ok),
                                        input: input(),
                                    });
                                }
                            }
                        }
                    }
                }
                next
            })
            .collect();
        // dedup
        let mut next_frontier = vec![];
        for st in results.into_iter().flatten() {
            let k = key_of(&st.refs);
            if seen.insert(k, ()).is_none() {
                total_states += 1;
                if level + 1 >= depth || next_frontier.len() < frontier_cap {
                    next_frontier.push(st);
                } else {
                    capped = true;
                }
            }
        }
        if level + 1 < depth {
            frontier = next_frontier;
        } else {
            rep.note("states_at_final_depth_not_expanded", json!(next_frontier.len()));
            frontier = vec![];
        }
        if frontier.is_empty() {
            break;
        }
    }
    rep.note("frontier_cap_hit", json!(capped));
    rep.sample(json!({"initial_table": VAR_NAMES, "example_terms": terms.iter().take(40).map(show).collect::<Vec<_>>()}));
    rep.sample(json!({"transition": "relate(Invariant, S<?a@U0>, S<!1_0>) from the initial table", "expected": "fails: ?a lives in U0 and cannot name !1_0"}));
    rep.sample(json!({"transition": "relate(Invariant, ?a@U0, S<?b@U1>)", "expected": "succeeds; ?b demoted to U0"}));
    crate::props::c01::vacuity(rep, &["successful", "failed"]);
    let calls = rep.get("relate_calls") + rep.get("covariant_relate_calls");
    let nt = if property == "C15" {
        rep.get("failed")
    } else {
        rep.get("successful")
    };
    rep.finish(
        total_states,
        calls,
        nt,
        "explicit-state BFS over real InferenceTables: initial table with ?a@U0 ?b@U1 ?c@U2 (general), ?i (integer), ?f (float) and placeholders !1_0 !2_0; transitions = relate(Invariant, t1, t2) for every ordered pair of the term set (ADTs incl. a covariant one, tuples, slices, raw pointers, scalars, variables, placeholders; depth <= 3); states deduplicated by canonical observable state; failed attempts accumulate on the state's table (C15); non-trivial = successful unifications (each compared with REF's MGU)",
        !capped,
        &[
            "REF is a textbook first-order unifier with universes and integer/float kinds (harness/src/props/c14.rs)",
            "covariant relation is only compared on lifetime-free types, after discharging returned subtype goals as equalities",
        ],
    )
}

fn head(t: &T) -> String {
    match t {
        T::Var(v) => format!("var{}", match VARS.get(*v) { Some((_, Kind::General)) => "G", Some((_, Kind::Int)) => "I", Some((_, Kind::Float)) => "F", None => "?" }),
        T::Ph(..) => "ph".into(),
        T::App(n, _) => n.to_string(),
    }
}

/// relate(Covariant) and then discharge every returned subtype goal as an
/// equality (lifetime-free types: subtyping is equality), to a fixed point.
fn covariant_closure(
    bridge: &Bridge,
    env: &Environment<ChalkIr>,
    table: &mut InferenceTable<ChalkIr>,
    a: &Ty<ChalkIr>,
    b: &Ty<ChalkIr>,
) -> bool {
    let i = ChalkIr;
    let mut pending: Vec<(Variance, Ty<ChalkIr>, Ty<ChalkIr>)> = vec![(Variance::Covariant, a.clone(), b.clone())];
    let mut fuel = 200;
    while let Some((v, x, y)) = pending.pop() {
        fuel -= 1;
        if fuel == 0 {
            return true;
        }
        match table.relate(i, &*bridge.program, env, v, &x, &y) {
            Ok(r) => {
                for g in r.goals {
                    match g.goal.data(i) {
                        GoalData::SubtypeGoal(SubtypeGoal { a, b }) => {
                            pending.push((Variance::Invariant, a.clone(), b.clone()))
                        }
                        _ => {}
                    }
                }
            }
            Err(_) => return false,
        }
    }
    true
}
