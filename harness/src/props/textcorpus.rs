//! Text-level program families beyond the C01 fragment (used by C04, C09, C13,
//! C23, C28): associated types, auto traits, built-in traits, lifetimes, custom
//! clauses. Each family is a full product of small option lists — enumerated,
//! not sampled.

pub struct TextCase {
    pub family: &'static str,
    pub program: String,
    pub goals: Vec<String>,
}

fn pick<'a>(v: &'a [&'a str], n: usize) -> Vec<Vec<&'a str>> {
    // all sorted subsets of size <= n
    let mut out: Vec<Vec<&str>> = vec![vec![]];
    fn rec<'a>(v: &'a [&'a str], start: usize, n: usize, cur: &mut Vec<&'a str>, out: &mut Vec<Vec<&'a str>>) {
        if cur.len() == n {
            return;
        }
        for i in start..v.len() {
            cur.push(v[i]);
            out.push(cur.clone());
            rec(v, i + 1, n, cur, out);
            cur.pop();
        }
    }
    rec(v, 0, n, &mut vec![], &mut out);
    out
}

pub fn assoc(thorough: bool) -> Vec<TextCase> {
    let header = "struct A {} struct B {} struct S<T> {} trait Tr { type X; } trait Other { type Y; } trait Plain {} ";
    let impls = [
        "impl Tr for A { type X = B; }",
        "impl Tr for B { type X = S<A>; }",
        "impl<T> Tr for S<T> { type X = T; }",
        "impl<T> Tr for S<T> where T: Tr { type X = <T as Tr>::X; }",
        "impl<T> Tr for S<T> where T: Plain { type X = S<T>; }",
        "impl Other for A { type Y = A; }",
        "impl<T> Other for T where T: Tr { type Y = <T as Tr>::X; }",
        "impl Plain for A {}",
        "impl<T> Plain for S<T> where T: Tr<X = B> {}",
        "impl<T> Plain for T where T: Other<Y = A> {}",
        // a concrete impl whose header a generic `Tr for S<T>` header also matches (told apart by where-clauses only)
        "impl Tr for S<B> { type X = B; }",
    ];
    let goals: Vec<String> = [
        "exists<U> { Normalize(<A as Tr>::X -> U) }",
        "exists<U> { Normalize(<B as Tr>::X -> U) }",
        "exists<U> { Normalize(<S<A> as Tr>::X -> U) }",
        "exists<U> { Normalize(<S<S<A>> as Tr>::X -> U) }",
        "exists<U> { Normalize(<A as Other>::Y -> U) }",
        "exists<U> { Normalize(<S<A> as Other>::Y -> U) }",
        "A: Tr<X = B>",
        "A: Tr<X = A>",
        "S<A>: Tr<X = A>",
        "S<A>: Tr<X = B>",
        "exists<U> { A: Tr<X = U> }",
        "exists<U> { S<B>: Tr<X = U> }",
        "exists<U> { Normalize(<S<B> as Tr>::X -> U) }",
        // closed goals whose arguments contain a projection (the header of a non-generic impl matches only after normalization)
        "S<<A as Tr>::X>: Tr",
        "<A as Tr>::X: Tr",
        "exists<U> { Normalize(<S<<A as Tr>::X> as Tr>::X -> U) }",
        "exists<T> { T: Tr<X = B> }",
        "forall<T> { exists<U> { Normalize(<S<T> as Tr>::X -> U) } }",
        "forall<T> { if (T: Tr) { exists<U> { Normalize(<S<T> as Tr>::X -> U) } } }",
        "forall<T> { if (T: Tr<X = A>) { T: Other<Y = A> } }",
        "A: Plain",
        "S<A>: Plain",
        "S<B>: Plain",
        "exists<T> { T: Plain }",
        "exists<T> { S<T>: Plain }",
        "forall<T> { if (T: Tr) { <T as Tr>::X = <T as Tr>::X } }",
        "exists<U> { <A as Tr>::X = U }",
    ]
    .iter()
    .map(|s| s.to_string())
    .collect();
    let mut out = vec![];
    for sel in pick(&impls, if thorough { 4 } else { 3 }) {
        if sel.is_empty() {
            continue;
        }
        // skip obviously overlapping Tr-for-S<T> triples to keep coherent-ish programs dominant
        let n_s = sel.iter().filter(|s| s.contains("Tr for S<T>")).count();
        if n_s > 1 {
            continue;
        }
        out.push(TextCase {
            family: "assoc",
            program: format!("{}{}", header, sel.join(" ")),
            goals: goals.clone(),
        });
    }
    out
}

pub fn auto(thorough: bool) -> Vec<TextCase> {
    let fields = ["", "A", "T", "S1<T>", "S2<T>", "&'static T", "(T, A)", "[T; 2]", "*const T", "N"];
    let extra = [
        "",
        "impl !Send for N {}",
        "impl Send for N {}",
        "impl<T> Send for S1<T> {}",
        "impl<T> !Send for S1<T> {}",
        "impl<T> Send for S1<T> where T: Send {}",
        "impl Send for S1<N> {}",
    ];
    let goals: Vec<String> = [
        "A: Send", "N: Send", "S1<A>: Send", "S1<N>: Send", "S2<A>: Send", "S2<N>: Send",
        "S1<S2<A>>: Send", "S2<S1<N>>: Send", "(A, N): Send", "(A, A): Send", "&'static N: Send",
        "[N; 2]: Send", "[S1<A>]: Send", "*const N: Send", "*mut S2<N>: Send",
        "forall<T> { S1<T>: Send }", "forall<T> { if (T: Send) { S1<T>: Send } }",
        "forall<T> { if (T: Send) { S2<T>: Send } }", "exists<T> { S1<T>: Send }",
        "not { N: Send }", "not { S1<N>: Send }", "fn(N) -> A: Send", "!: Send", "u32: Send",
    ]
    .iter()
    .map(|s| s.to_string())
    .collect();
    let mut out = vec![];
    let fsel: Vec<&str> = if thorough { fields.to_vec() } else { fields[..8].to_vec() };
    for f1 in &fsel {
        for f2 in &fsel {
            for e in &extra {
                let p = format!(
                    "#[auto] trait Send {{}} struct A {{}} struct N {{}} {} struct S1<T> {{ {} }} struct S2<T> {{ {} }} {}",
                    if e.contains("for N") { "" } else { "impl !Send for N {}" },
                    if f1.is_empty() { String::new() } else { format!("f: {}", f1) },
                    if f2.is_empty() { String::new() } else { format!("f: {}", f2) },
                    e
                );
                out.push(TextCase { family: "auto", program: p, goals: goals.clone() });
            }
        }
    }
    out
}

pub fn builtin(_thorough: bool) -> Vec<TextCase> {
    let fields = ["", "f: A", "f: T", "f: [T]", "f: A, g: [T]", "f: [A], g: T", "f: str", "f: (T, [A])"];
    let extra = [
        "",
        "impl Copy for A {} impl Clone for A {}",
        "impl Clone for A {}",
        "impl<T> Clone for S<T> where T: Clone {}",
        "impl<T> Copy for S<T> where T: Copy {} impl<T> Clone for S<T> where T: Clone {}",
        "impl Copy for u32 {} impl Clone for u32 {}",
    ];
    let tys = [
        "A", "S<A>", "S<[A]>", "(A, A)", "(A, [A])", "([A], A)", "()", "[A; 2]", "[A]", "str", "&'static A",
        "&'static mut A", "*const [A]", "fn(A) -> A", "u32", "!", "(dyn Foo + 'static)", "S<str>", "(u32, S<A>)", "[S<A>; 2]",
        "&'static [A]", "(S<A>,)",
    ];
    let traits = ["Sized", "Copy", "Clone", "Tuple", "FnPtr"];
    let mut goals = vec![];
    for t in tys {
        for tr in traits {
            goals.push(format!("{}: {}", t, tr));
        }
    }
    goals.push("forall<T> { S<T>: Sized }".into());
    goals.push("forall<T> { if (T: Sized) { S<T>: Sized } }".into());
    goals.push("forall<T> { if (T: Copy) { (T, T): Copy } }".into());
    goals.push("forall<T> { if (T: Clone) { [T; 2]: Clone } }".into());
    goals.push("exists<T> { T: Sized }".into());
    goals.push("exists<T> { (T, A): Copy }".into());
    let mut out = vec![];
    for f in fields {
        for e in extra {
            let p = format!(
                "#[lang(sized)] trait Sized {{}} #[lang(copy)] trait Copy {{}} #[lang(clone)] trait Clone {{}} \
                 #[lang(tuple_trait)] trait Tuple {{}} #[lang(fn_ptr_trait)] trait FnPtr {{}} trait Foo {{}} \
                 struct A {{}} struct S<T> {{ {} }} {}",
                f, e
            );
            out.push(TextCase { family: "builtin", program: p, goals: goals.clone() });
        }
    }
    out
}

pub fn custom(_thorough: bool) -> Vec<TextCase> {
    let clauses = [
        "forall<T> { T: Tr if T: Tr2 }",
        "forall<T> { T: Tr2 if T: Tr }",
        "forall<T> { S<T>: Tr if T: Tr }",
        "forall<> { A: Tr }",
        "forall<> { A: Tr2 }",
        "forall<T> { T: Tr if T: Tr2, T: Tr3 }",
        "forall<T> { S<T>: Tr3 }",
        "forall<T, U> { P<T, U>: Tr if T: Tr, U: Tr2 }",
    ];
    let goals: Vec<String> = [
        "A: Tr", "A: Tr2", "S<A>: Tr", "S<A>: Tr3", "S<S<A>>: Tr", "P<A, A>: Tr", "P<S<A>, A>: Tr",
        "exists<T> { T: Tr }", "exists<T> { T: Tr2 }", "exists<T> { S<T>: Tr }", "exists<T, U> { P<T, U>: Tr }",
        "forall<T> { T: Tr }", "forall<T> { if (T: Tr2) { T: Tr } }", "forall<T> { if (T: Tr) { S<T>: Tr } }",
        "not { A: Tr }", "A: Tr, A: Tr2", "exists<T> { T: Tr, T: Tr2 }",
    ]
    .iter()
    .map(|s| s.to_string())
    .collect();
    let mut out = vec![];
    for sel in pick(&clauses, 3) {
        if sel.is_empty() {
            continue;
        }
        out.push(TextCase {
            family: "custom",
            program: format!(
                "struct A {{}} struct S<T> {{}} struct P<T, U> {{}} trait Tr {{}} trait Tr2 {{}} trait Tr3 {{}} {}",
                sel.join(" ")
            ),
            goals: goals.clone(),
        });
    }
    out
}

pub fn lifetimes(_thorough: bool) -> Vec<TextCase> {
    let impls = [
        "impl<'a> Tr for L<'a> {}",
        "impl Tr for L<'static> {}",
        "impl<'a, T> Tr for R<'a, T> where T: Tr {}",
        "impl<'a> Tl<'a> for A {}",
        "impl<'a> Tl<'a> for L<'a> {}",
        "impl<'a, 'b> Tl<'a> for R<'b, A> {}",
        "impl<'a, T> Tr for &'a T where T: Tr {}",
        "impl Tr for A {}",
    ];
    let goals: Vec<String> = [
        "forall<'a> { L<'a>: Tr }", "L<'static>: Tr", "exists<'a> { L<'a>: Tr }",
        "forall<'a> { R<'a, A>: Tr }", "forall<'a> { R<'a, L<'a>>: Tr }",
        "forall<'a> { A: Tl<'a> }", "forall<'a> { L<'a>: Tl<'a> }", "forall<'a, 'b> { L<'a>: Tl<'b> }",
        "forall<'a> { exists<'b> { L<'a>: Tl<'b> } }", "exists<'b> { forall<'a> { L<'a>: Tl<'b> } }",
        "forall<'a> { &'a A: Tr }", "forall<'a, 'b> { &'a &'b A: Tr }", "exists<T> { T: Tr }",
        "forall<'a> { exists<T> { T: Tl<'a> } }", "forall<'a, 'b> { R<'a, A>: Tl<'b> }",
        "forall<'a> { if ('a: 'static) { L<'a>: Tr } }",
    ]
    .iter()
    .map(|s| s.to_string())
    .collect();
    let mut out = vec![];
    for sel in pick(&impls, 3) {
        if sel.is_empty() {
            continue;
        }
        out.push(TextCase {
            family: "lifetimes",
            program: format!(
                "struct A {{}} struct L<'a> {{}} struct R<'a, T> {{}} trait Tr {{}} trait Tl<'a> {{}} {}",
                sel.join(" ")
            ),
            goals: goals.clone(),
        });
    }
    out
}

/// A cycle that comes back to the same goal with its unknowns PERMUTED (`P<X, Y>: C` needs
/// `P<Y, X>: C`), for a coinductive and an inductive trait, with every order of every set of
/// side conditions around the cyclic where-clause (the recursive solver works through
/// where-clauses last to first, the SLG solver first to last).
pub fn coperm(_thorough: bool) -> Vec<TextCase> {
    let side = ["X: IsA", "Y: IsB", "Y: IsA"];
    let cyc = "P<Y, X>: C";
    let goals: Vec<String> = [
        "exists<X, Y> { P<X, Y>: C }",
        "P<A, A>: C",
        "P<A, B>: C",
        "P<B, A>: C",
        "P<B, B>: C",
        "exists<X> { P<X, A>: C }",
        "exists<X> { P<A, X>: C }",
        "exists<X> { P<X, X>: C }",
    ]
    .iter()
    .map(|s| s.to_string())
    .collect();
    fn perms(items: &[&str]) -> Vec<Vec<String>> {
        if items.is_empty() {
            return vec![vec![]];
        }
        let mut out = vec![];
        for i in 0..items.len() {
            let mut rest: Vec<&str> = items.to_vec();
            let x = rest.remove(i);
            for mut p in perms(&rest) {
                p.insert(0, x.to_string());
                out.push(p);
            }
        }
        out
    }
    let mut out = vec![];
    for co in [true, false] {
        for mask in 0u32..8 {
            let mut items: Vec<&str> = (0..3).filter(|i| mask >> i & 1 == 1).map(|i| side[i]).collect();
            items.push(cyc);
            for order in perms(&items) {
                out.push(TextCase {
                    family: "coperm",
                    program: format!(
                        "{}trait C {{}} trait IsA {{}} trait IsB {{}} struct A {{}} struct B {{}} struct P<X, Y> {{}} \
                         impl IsA for A {{}} impl IsB for B {{}} impl<X, Y> C for P<X, Y> where {} {{}}",
                        if co { "#[coinductive] " } else { "" },
                        order.join(", ")
                    ),
                    goals: goals.clone(),
                });
            }
        }
    }
    out
}

pub fn all(thorough: bool) -> Vec<TextCase> {
    let mut v = vec![];
    v.extend(coperm(thorough));
    v.extend(assoc(thorough));
    v.extend(auto(thorough));
    v.extend(builtin(thorough));
    v.extend(custom(thorough));
    v.extend(lifetimes(thorough));
    v
}
