//! C13: declaration order does not change solutions.

use super::*;
use crate::drive::{Caught, DArg, DSol, DSubst, SolverCfg};
use crate::report::Violation;
use std::collections::BTreeMap;

fn permutations(n: usize) -> Vec<Vec<usize>> {
    fn rec(n: usize, cur: &mut Vec<usize>, out: &mut Vec<Vec<usize>>) {
        if cur.len() == n {
            out.push(cur.clone());
            return;
        }
        for i in 0..n {
            if !cur.contains(&i) {
                cur.push(i);
                rec(n, cur, out);
                cur.pop();
            }
        }
    }
    let mut out = vec![];
    rec(n, &mut vec![], &mut out);
    out
}

/// (description, program text) of every reordering considered for `p`.
fn variants(p: &Program) -> Vec<(String, String)> {
    let render = |structs: &[usize], traits: &[usize], impls: &[usize], rev_wc: bool, impls_first: bool| -> String {
        let q = Program {
            structs: structs.iter().map(|i| p.structs[*i].clone()).collect(),
            traits: traits.iter().map(|i| p.traits[*i].clone()).collect(),
            impls: impls
                .iter()
                .map(|i| {
                    let mut r = p.impls[*i].clone();
                    if rev_wc {
                        r.body.reverse();
                    }
                    r
                })
                .collect(),
        };
        if impls_first {
            let decls = Program { structs: q.structs.clone(), traits: q.traits.clone(), impls: vec![] }.render();
            let imps = Program { structs: vec![], traits: vec![], impls: q.impls.clone() }.render();
            format!("{}{}", imps, decls)
        } else {
            q.render()
        }
    };
    let ids = |n: usize| (0..n).collect::<Vec<_>>();
    let (ns, nt, ni) = (p.structs.len(), p.traits.len(), p.impls.len());
    let mut out = vec![];
    let has_wc_list = p.impls.iter().any(|r| r.body.len() > 1);
    // every permutation of the impls, with and without reversed where-clause lists
    for perm in permutations(ni) {
        out.push((format!("impls {:?}", perm), render(&ids(ns), &ids(nt), &perm, false, false)));
        if has_wc_list {
            out.push((format!("impls {:?} + where-clauses reversed", perm), render(&ids(ns), &ids(nt), &perm, true, false)));
        }
    }
    // every permutation of the traits and of the structs (other blocks in source order)
    for perm in permutations(nt).into_iter().skip(1) {
        out.push((format!("traits {:?}", perm), render(&ids(ns), &perm, &ids(ni), false, false)));
    }
    for perm in permutations(ns).into_iter().skip(1) {
        out.push((format!("structs {:?}", perm), render(&perm, &ids(nt), &ids(ni), false, false)));
    }
    // impls before all declarations, in source and in reversed order
    out.push(("impls before declarations".into(), render(&ids(ns), &ids(nt), &ids(ni), false, true)));
    let rev: Vec<usize> = (0..ni).rev().collect();
    let revs: Vec<usize> = (0..ns).rev().collect();
    let revt: Vec<usize> = (0..nt).rev().collect();
    out.push(("everything reversed".into(), render(&revs, &revt, &rev, true, true)));
    out
}

/// Rename repeated variables apart.
fn linearize(s: &DSubst) -> Vec<Ty> {
    let mut next = 1000u32;
    fn lin(t: &Ty, next: &mut u32) -> Ty {
        match t {
            Ty::Var(_) => {
                *next += 1;
                Ty::Var(*next)
            }
            Ty::App(n, a) => Ty::App(n.clone(), a.iter().map(|x| lin(x, next)).collect()),
            o => o.clone(),
        }
    }
    s.args
        .iter()
        .map(|a| match a {
            DArg::Ty(t) => lin(t, &mut next),
            _ => Ty::app0("?"),
        })
        .collect()
}

fn shape(t: &Ty) -> Ty {
    match t {
        Ty::Var(_) => Ty::Var(0),
        Ty::App(n, a) => Ty::App(n.clone(), a.iter().map(shape).collect()),
        o => o.clone(),
    }
}

/// Do the two answers differ only in how variables are shared (the D1 signature)?
/// Is one answer `Unique` with the identity substitution and the other `Ambig(Unknown)` (the D22 signature)?
pub fn trivial_unique_vs_unknown(a: &DSol, b: &DSol) -> bool {
    let trivial_unique = |s: &DSol| match s {
        // (goals without unknowns are not D22's: there is no identity answer to arrive first or last)
        DSol::Unique(x) => !x.args.is_empty() && x.constraints.is_empty() && x.args.iter().enumerate().all(|(i, a)| matches!(a, DArg::Ty(Ty::Var(v)) if *v as usize == i)),
        _ => false,
    };
    (trivial_unique(a) && matches!(b, DSol::Unknown)) || (trivial_unique(b) && matches!(a, DSol::Unknown))
}

pub fn nonlinear_only(a: &DSol, b: &DSol) -> bool {
    let sub = |s: &DSol| match s {
        DSol::Definite(x) | DSol::Unique(x) | DSol::Suggested(x) => Some(x.clone()),
        _ => None,
    };
    match (sub(a), sub(b)) {
        (Some(x), Some(y)) => {
            let lx: Vec<Ty> = linearize(&x).iter().map(shape).collect();
            let ly: Vec<Ty> = linearize(&y).iter().map(shape).collect();
            lx == ly
        }
        // guidance that would be trivial (hence `Unknown`) once its repeated
        // variable is renamed apart, versus `Unknown`
        (Some(x), None) | (None, Some(x)) => {
            let other_unknown = matches!(a, DSol::Unknown) || matches!(b, DSol::Unknown);
            let all_vars = linearize(&x).iter().all(|t| matches!(t, Ty::Var(_)));
            let mut vs = vec![];
            for arg in &x.args {
                if let DArg::Ty(t) = arg {
                    t.vars(&mut vs);
                }
            }
            let repeated = vs.len() < x.args.len();
            other_unknown && all_vars && repeated
        }
        _ => false,
    }
}

/// Top-level items of a `.chalk` text (every item of the text families ends with a `}` at brace depth 0).
fn split_items(text: &str) -> Vec<String> {
    let mut items = vec![];
    let mut depth = 0i32;
    let mut cur = String::new();
    for ch in text.chars() {
        cur.push(ch);
        match ch {
            '{' => depth += 1,
            '}' => {
                depth -= 1;
                if depth == 0 {
                    items.push(cur.trim().to_string());
                    cur.clear();
                }
            }
            _ => {}
        }
    }
    if !cur.trim().is_empty() {
        items.push(cur.trim().to_string());
    }
    items
}

/// Reorderings of a text-level program: every permutation of its impls (declarations first),
/// impls before all declarations, declarations reversed, everything reversed.
fn text_variants(program: &str) -> Vec<(String, String)> {
    let items = split_items(program);
    let (impls, decls): (Vec<String>, Vec<String>) = items.iter().cloned().partition(|i| i.starts_with("impl"));
    let join = |a: &[String], b: &[String]| a.iter().chain(b.iter()).cloned().collect::<Vec<_>>().join(" ");
    let mut out = vec![];
    if impls.len() <= 4 {
        for perm in permutations(impls.len()) {
            let pi: Vec<String> = perm.iter().map(|k| impls[*k].clone()).collect();
            out.push((format!("impls in order {:?}", perm), join(&decls, &pi)));
        }
    }
    out.push(("impls before declarations".into(), join(&impls, &decls)));
    let rd: Vec<String> = decls.iter().rev().cloned().collect();
    out.push(("declarations reversed".into(), join(&rd, &impls)));
    let ra: Vec<String> = items.iter().rev().cloned().collect();
    out.push(("everything reversed".into(), ra.join(" ")));
    let orig = items.join(" ");
    let mut seen = std::collections::BTreeSet::new();
    seen.insert(orig);
    out.retain(|(_, t)| seen.insert(t.clone()));
    out
}

/// The C07 (associated types) and C05 (auto traits) fragments: text-level families, reordered at item level.
fn run_text_families(rep: &Report, thorough: bool) {
    use rayon::prelude::*;
    let mut cases = super::textcorpus::assoc(thorough);
    cases.extend(super::textcorpus::auto(false));
    let cfgs = [SolverCfg::SLG, SolverCfg::REC];
    cases.par_iter().enumerate().for_each(|(ci, case)| {
        if !thorough && case.family == "auto" && ci % 2 == 1 {
            return; // quick tier: every second auto-trait program
        }
        let mut local: BTreeMap<String, u64> = BTreeMap::new();
        let Ok(base_p) = drive::load_program(&case.program) else { return };
        let base: Vec<Option<Vec<Option<DSol>>>> = case
            .goals
            .iter()
            .map(|g| {
                let peeled = drive::peel(&base_p, g).ok()?;
                Some(
                    cfgs.iter()
                        .map(|cfg| match drive::solve_fresh(&base_p, &peeled, *cfg).0 {
                            Caught::Ok(s) => Some(s),
                            _ => None,
                        })
                        .collect(),
                )
            })
            .collect();
        for (desc, text) in text_variants(&case.program) {
            let chalk = match drive::load_program(&text) {
                Ok(c) => c,
                Err(e) => {
                    rep.machinery_error(format!("reordered {} program does not lower: {} :: {}", case.family, e, text));
                    continue;
                }
            };
            *local.entry(format!("orderings_{}", case.family)).or_insert(0) += 1;
            *local.entry("orderings".into()).or_insert(0) += 1;
            for (k, g) in case.goals.iter().enumerate() {
                let Some(wants) = &base[k] else { continue };
                let Ok(peeled) = drive::peel(&chalk, g) else { continue };
                for (ci2, cfg) in cfgs.iter().enumerate() {
                    let Some(want) = &wants[ci2] else { continue };
                    let (r, _) = drive::solve_fresh(&chalk, &peeled, *cfg);
                    *local.entry("solver_calls".into()).or_insert(0) += 1;
                    let Caught::Ok(got) = r else { continue };
                    if &got != want {
                        let site = if trivial_unique_vs_unknown(&got, want) {
                            format!("{}/trivial-unique-vs-unknown", cfg.short())
                        } else if nonlinear_only(&got, want) {
                            format!("{}/nonlinear-only", cfg.short())
                        } else {
                            format!("{}/{}", cfg.short(), case.family)
                        };
                        rep.violation(Violation {
                            property: "C13".into(),
                            kind: "answer-depends-on-declaration-order".into(),
                            site,
                            what: format!("{} `{}`: source order gives {:?}; reordering ({}) gives {:?}", cfg.name(), g, want, desc, got),
                            input: json!({"program": case.program, "reordered_program": text, "goal": g, "solver": cfg.name(), "reordering": desc}),
                        });
                    } else if !matches!(got, DSol::NoSolution) {
                        *local.entry("agreeing_non_trivial_answers".into()).or_insert(0) += 1;
                    }
                }
            }
        }
        rep.merge_counts(&local);
    });
}

pub fn run_c13(rep: &Report) -> i32 {
    let thorough = rep.is_thorough();
    let corpora = core_corpora(thorough, 1);
    let cfgs = [SolverCfg::SLG, SolverCfg::REC];
    for_each_program(rep, &corpora, |pc, goals| {
        let mut local: BTreeMap<String, u64> = BTreeMap::new();
        if pc.ast.impls.len() < 2 && !thorough {
            // a single impl: only declaration order can vary; keep a thinned slice in quick
            if pc.pi % 4 != 0 {
                return;
            }
        }
        // goal subset: every 3rd goal in quick
        let gsel: Vec<&GoalCtx> = goals.iter().filter(|g| thorough || g.gi % 3 == 0 || !g.peeled.var_creation.is_empty()).collect();
        let base: Vec<Vec<Option<DSol>>> = gsel
            .iter()
            .map(|g| {
                cfgs.iter()
                    .map(|cfg| match drive::solve_fresh(&pc.chalk, &g.peeled, *cfg).0 {
                        Caught::Ok(s) => Some(s),
                        _ => None,
                    })
                    .collect()
            })
            .collect();
        *local.entry("programs_permuted".into()).or_insert(0) += 1;
        for (desc, text) in variants(pc.ast) {
            if text == pc.text {
                continue;
            }
            *local.entry("orderings".into()).or_insert(0) += 1;
            let chalk = match drive::load_program(&text) {
                Ok(c) => c,
                Err(e) => {
                    rep.machinery_error(format!("permuted program does not lower: {} :: {}", e, text));
                    continue;
                }
            };
            for (k, g) in gsel.iter().enumerate() {
                let peeled = match drive::peel(&chalk, &g.text) {
                    Ok(p) => p,
                    Err(_) => continue,
                };
                for (ci, cfg) in cfgs.iter().enumerate() {
                    let Some(want) = &base[k][ci] else { continue };
                    let (r, _) = drive::solve_fresh(&chalk, &peeled, *cfg);
                    *local.entry("solver_calls".into()).or_insert(0) += 1;
                    let got = match r {
                        Caught::Ok(s) => s,
                        _ => continue,
                    };
                    if &got != want {
                        // outside the solver's limits the answer may legitimately degrade differently
                        let ac = crate::oracle::AnswerCheck { refm: &pc.refm, pa: &g.pa, peeled: &g.peeled, depth: 3, solver: cfg.short(), class: pc.class };
                        let (_, info) = ac.check(want);
                        // an answer that itself contains a type as large as the size limit comes from a
                        // search the limit truncated
                        let answer_size = |s: &DSol| -> usize {
                            match s {
                                DSol::Unique(x) | DSol::Definite(x) | DSol::Suggested(x) => x
                                    .args
                                    .iter()
                                    .map(|a| match a {
                                        DArg::Ty(t) => t.size(),
                                        _ => 1,
                                    })
                                    .max()
                                    .unwrap_or(0),
                                _ => 0,
                            }
                        };
                        let truncated = answer_size(&got).max(answer_size(want)) >= cfg.max_size();
                        if truncated || info.stats.capped || info.stats.max_ty_size > cfg.max_size() {
                            *local.entry("differences_outside_limits(not judged)".into()).or_insert(0) += 1;
                            continue;
                        }
                        let trivial_unique = |s: &DSol| match s {
                            DSol::Unique(x) => {
                                x.constraints.is_empty()
                                    && x.args.iter().enumerate().all(|(i, a)| matches!(a, DArg::Ty(Ty::Var(v)) if *v as usize == i))
                            }
                            _ => false,
                        };
                        let site = if (trivial_unique(&got) && matches!(want, DSol::Unknown))
                            || (trivial_unique(want) && matches!(got, DSol::Unknown))
                        {
                            format!("{}/trivial-unique-vs-unknown", cfg.short())
                        } else if nonlinear_only(&got, want) {
                            format!("{}/nonlinear-only", cfg.short())
                        } else {
                            format!("{}/{}", cfg.short(), pc.class)
                        };
                        rep.violation(Violation {
                            property: "C13".into(),
                            kind: "answer-depends-on-declaration-order".into(),
                            site,
                            what: format!("{} `{}`: source order gives {:?}; reordering ({}) gives {:?}", cfg.name(), g.text, want, desc, got),
                            input: json!({"program": pc.text, "reordered_program": text, "goal": g.text, "solver": cfg.name(), "reordering": desc}),
                        });
                    } else if !matches!(got, DSol::NoSolution) {
                        *local.entry("agreeing_non_trivial_answers".into()).or_insert(0) += 1;
                    }
                }
            }
        }
        if pc.pi % 300 == 0 {
            rep.sample(json!({"program": pc.text, "orderings": variants(pc.ast).iter().map(|v| v.0.clone()).collect::<Vec<_>>()}));
        }
        rep.merge_counts(&local);
    });
    run_text_families(rep, thorough);
    c01::vacuity(rep, &["orderings", "agreeing_non_trivial_answers", "orderings_assoc", "orderings_auto"]);
    let states = rep.get("orderings");
    let tr = rep.get("solver_calls");
    let nt = rep.get("agreeing_non_trivial_answers");
    rep.finish(
        states,
        tr,
        nt,
        "for every program of the reduced C01 corpus: every permutation of its impls (with and without reversed where-clause lists), every permutation of its traits, every permutation of its structs, impls placed before all declarations, and everything reversed; each reordered program is parsed and lowered afresh and every selected goal solved by both solvers; the decoded answer (by item name) must equal the source-order answer unless REF shows the search exceeds the solver's size limit; the same for the text-level families of the C07 fragment (associated types: subsets of 11 impls incl. impls told apart by where-clauses only) and the C05 fragment (auto traits: field lists x explicit impls): every permutation of the impl items, impls before declarations, declarations reversed, everything reversed; non-trivial = compared answers that are not `No possible solution`",
        true,
        &["answers are compared after decoding ids to names; constraints included"],
    )
}
