//! C08: built-in traits (Sized, Copy, Clone, Tuple, FnPtr) follow the language's
//! structural rules combined with the program's explicit impls.

use super::rulecheck::{run_cases, RuleCase, RuleOpts};
use super::*;
use crate::gen::{at, x};

fn app0(n: &str) -> Ty {
    Ty::app0(n)
}
fn app(n: &str, a: Vec<Ty>) -> Ty {
    Ty::app(n, a)
}

const SCALARS: [&str; 3] = ["u32", "bool", "f32"];

/// Structural rules written from the property statement / Rust's rules.
fn builtin_rules(s_fields: &[Ty]) -> Vec<Rule> {
    let mut v = vec![];
    let fact = |nv: u32, head: Ty, tr: &str| Rule { nvars: nv, head: at(head, tr), body: vec![] };
    // ---- Sized
    for c in ["array", "ref", "refmut", "ptr_const", "ptr_mut"] {
        v.push(fact(1, app(c, vec![x(0)]), "Sized"));
    }
    for s in SCALARS {
        v.push(fact(0, app0(s), "Sized"));
    }
    v.push(fact(0, app0("never"), "Sized"));
    v.push(fact(1, app("fnptr", vec![x(0)]), "Sized"));
    v.push(fact(2, app("fnptr", vec![x(0), x(1)]), "Sized"));
    v.push(fact(0, app("tuple", vec![]), "Sized"));
    v.push(Rule { nvars: 1, head: at(app("tuple", vec![x(0)]), "Sized"), body: vec![at(x(0), "Sized")] });
    v.push(Rule { nvars: 2, head: at(app("tuple", vec![x(0), x(1)]), "Sized"), body: vec![at(x(1), "Sized")] });
    v.push(Rule { nvars: 3, head: at(app("tuple", vec![x(0), x(1), x(2)]), "Sized"), body: vec![at(x(2), "Sized")] });
    // a struct is Sized exactly when it has no fields or its last field is
    v.push(fact(0, app0("A"), "Sized"));
    v.push(Rule {
        nvars: 1,
        head: at(app("S", vec![x(0)]), "Sized"),
        body: s_fields.last().map(|f| vec![at(f.clone(), "Sized")]).unwrap_or_default(),
    });
    // enums are always Sized
    v.push(fact(1, app("E", vec![x(0)]), "Sized"));
    // slices, str and trait objects are never Sized: no rule
    // ---- Copy / Clone: tuples and arrays exactly when their elements are; fn pointers always
    for tr in ["Copy", "Clone"] {
        v.push(fact(0, app("tuple", vec![]), tr));
        v.push(Rule { nvars: 1, head: at(app("tuple", vec![x(0)]), tr), body: vec![at(x(0), tr)] });
        v.push(Rule { nvars: 2, head: at(app("tuple", vec![x(0), x(1)]), tr), body: vec![at(x(0), tr), at(x(1), tr)] });
        v.push(Rule { nvars: 3, head: at(app("tuple", vec![x(0), x(1), x(2)]), tr), body: vec![at(x(0), tr), at(x(1), tr), at(x(2), tr)] });
        v.push(Rule { nvars: 1, head: at(app("array", vec![x(0)]), tr), body: vec![at(x(0), tr)] });
        v.push(fact(1, app("fnptr", vec![x(0)]), tr));
        v.push(fact(2, app("fnptr", vec![x(0), x(1)]), tr));
    }
    // ---- Tuple: tuples only; FnPtr: fn pointers only
    v.push(fact(0, app("tuple", vec![]), "Tuple"));
    v.push(fact(1, app("tuple", vec![x(0)]), "Tuple"));
    v.push(fact(2, app("tuple", vec![x(0), x(1)]), "Tuple"));
    v.push(fact(3, app("tuple", vec![x(0), x(1), x(2)]), "Tuple"));
    v.push(fact(1, app("fnptr", vec![x(0)]), "FnPtr"));
    v.push(fact(2, app("fnptr", vec![x(0), x(1)]), "FnPtr"));
    v
}

fn type_universe(thorough: bool) -> Vec<Ty> {
    let leaves = vec![
        app0("A"),
        app0("u32"),
        app0("bool"),
        app0("str"),
        app0("never"),
        app("tuple", vec![]),
        app("dyn", vec![app0("Foo")]),
    ];
    let mut v = leaves.clone();
    let unary = ["S", "E", "slice", "array", "ref", "refmut", "ptr_const", "ptr_mut"];
    let mut level1 = vec![];
    for u in unary {
        for l in &leaves {
            level1.push(app(u, vec![l.clone()]));
        }
    }
    for l in &leaves {
        level1.push(app("tuple", vec![l.clone()]));
        level1.push(app("fnptr", vec![l.clone()]));
    }
    let few = [app0("A"), app0("u32"), app0("str"), app("tuple", vec![])];
    for l in &few {
        for r in &few {
            level1.push(app("tuple", vec![l.clone(), r.clone()]));
            level1.push(app("fnptr", vec![l.clone(), r.clone()]));
        }
    }
    level1.push(app("tuple", vec![app0("A"), app0("u32"), app0("str")]));
    level1.push(app("tuple", vec![app0("str"), app0("u32"), app0("A")]));
    v.extend(level1.iter().cloned());
    // depth 3: wrappers around depth-2 types that matter (unsized inside)
    let inner: Vec<Ty> = level1
        .iter()
        .filter(|t| matches!(t, Ty::App(n, _) if ["S", "slice", "array", "tuple", "E"].contains(&n.as_str())))
        .cloned()
        .collect();
    let wrappers: &[&str] = if thorough { &["S", "E", "array", "ref", "slice", "ptr_mut"] } else { &["S", "array"] };
    for w in wrappers {
        for t in inner.iter().step_by(if thorough { 1 } else { 3 }) {
            v.push(app(w, vec![t.clone()]));
        }
    }
    for t in inner.iter().step_by(if thorough { 2 } else { 6 }) {
        v.push(app("tuple", vec![app0("u32"), t.clone()]));
        v.push(app("tuple", vec![t.clone(), app0("u32")]));
    }
    v
}

pub fn cases(thorough: bool) -> Vec<RuleCase> {
    let t = || Ty::Var(0);
    let field_opts: Vec<Vec<Ty>> = vec![
        vec![],
        vec![app0("A")],
        vec![t()],
        vec![app("slice", vec![t()])],
        vec![app0("A"), app("slice", vec![t()])],
        vec![app("slice", vec![app0("A")]), t()],
        vec![app0("str")],
        vec![app("tuple", vec![t(), app("slice", vec![app0("A")])])],
    ];
    let s = |a: Ty| app("S", vec![a]);
    let r0 = |head: Ty, tr: &str| Rule { nvars: 0, head: at(head, tr), body: vec![] };
    let explicit: Vec<(&'static str, &'static str, Vec<Rule>)> = vec![
        ("none", "", vec![]),
        ("a-copy-clone", "impl Copy for A {} impl Clone for A {}", vec![r0(app0("A"), "Copy"), r0(app0("A"), "Clone")]),
        ("a-clone", "impl Clone for A {}", vec![r0(app0("A"), "Clone")]),
        (
            "s-clone-where",
            "impl<T> Clone for S<T> where T: Clone {} impl Clone for u32 {}",
            vec![Rule { nvars: 1, head: at(s(x(0)), "Clone"), body: vec![at(x(0), "Clone")] }, r0(app0("u32"), "Clone")],
        ),
        (
            "s-copy-where",
            "impl<T> Copy for S<T> where T: Copy {} impl<T> Clone for S<T> where T: Clone {} impl Copy for A {} impl Clone for A {}",
            vec![
                Rule { nvars: 1, head: at(s(x(0)), "Copy"), body: vec![at(x(0), "Copy")] },
                Rule { nvars: 1, head: at(s(x(0)), "Clone"), body: vec![at(x(0), "Clone")] },
                r0(app0("A"), "Copy"),
                r0(app0("A"), "Clone"),
            ],
        ),
        (
            "scalars-refs",
            "impl Copy for u32 {} impl Clone for u32 {} impl Copy for bool {} impl<T> Copy for &'static T {} impl<T> Clone for &'static T {}",
            vec![
                r0(app0("u32"), "Copy"),
                r0(app0("u32"), "Clone"),
                r0(app0("bool"), "Copy"),
                Rule { nvars: 1, head: at(app("ref", vec![x(0)]), "Copy"), body: vec![] },
                Rule { nvars: 1, head: at(app("ref", vec![x(0)]), "Clone"), body: vec![] },
            ],
        ),
    ];
    let tys = type_universe(thorough);
    let traits = ["Sized", "Copy", "Clone", "Tuple", "FnPtr"];
    let mut goals = vec![];
    for ty in &tys {
        for tr in traits {
            goals.push(Goal::Atom(at(ty.clone(), tr)));
        }
    }
    let k = || Ty::Skolem(1, 0);
    goals.push(Goal::Forall(1, 1, Box::new(Goal::Atom(at(s(k()), "Sized")))));
    goals.push(Goal::Forall(1, 1, Box::new(Goal::If(vec![at(k(), "Sized")], Box::new(Goal::Atom(at(s(k()), "Sized")))))));
    goals.push(Goal::Forall(1, 1, Box::new(Goal::If(vec![at(k(), "Copy")], Box::new(Goal::Atom(at(app("tuple", vec![k(), k()]), "Copy")))))));
    goals.push(Goal::Forall(1, 1, Box::new(Goal::If(vec![at(k(), "Clone")], Box::new(Goal::Atom(at(app("array", vec![k()]), "Clone")))))));
    goals.push(Goal::Forall(1, 1, Box::new(Goal::Atom(at(app("array", vec![k()]), "Copy")))));
    // structs whose tail field is a bare type parameter declared AFTER a lifetime or const
    // parameter (the parameter's index among all generics differs from its index among the type
    // parameters); REF sees them as constructors over their type arguments only
    let mut goal_texts: Vec<Option<String>> = vec![None; goals.len()];
    let slice_a = || app("slice", vec![app0("A")]);
    for (ref_ty, text) in [
        (app("Tg", vec![slice_a()]), "Tg<'static, [A]>: Sized"),
        (app("Tg", vec![app0("A")]), "Tg<'static, A>: Sized"),
        (app("Bf", vec![slice_a()]), "Bf<3, [A]>: Sized"),
        (app("Bf", vec![app0("u32")]), "Bf<3, u32>: Sized"),
        (app("Mx", vec![slice_a(), app0("A")]), "Mx<'static, [A], A>: Sized"),
        (app("Mx", vec![app0("A"), slice_a()]), "Mx<'static, A, [A]>: Sized"),
        (app("Mx", vec![app0("A"), app0("A")]), "Mx<'static, A, A>: Sized"),
    ] {
        goals.push(Goal::Atom(at(ref_ty, "Sized")));
        goal_texts.push(Some(text.to_string()));
    }
    let tail_rules = vec![
        Rule { nvars: 1, head: at(app("Tg", vec![x(0)]), "Sized"), body: vec![at(x(0), "Sized")] },
        Rule { nvars: 1, head: at(app("Bf", vec![x(0)]), "Sized"), body: vec![at(x(0), "Sized")] },
        Rule { nvars: 2, head: at(app("Mx", vec![x(0), x(1)]), "Sized"), body: vec![at(x(0), "Sized")] },
    ];
    let mut out = vec![];
    for f in &field_opts {
        for (ename, etext, erules) in &explicit {
            let fields = f.iter().enumerate().map(|(i, t)| format!("f{}: {}", i, ty_str(t).replace("X0", "T"))).collect::<Vec<_>>().join(", ");
            let program = format!(
                "#[lang(sized)] trait Sized {{}} #[lang(copy)] trait Copy {{}} #[lang(clone)] trait Clone {{}} \
                 #[lang(tuple_trait)] trait Tuple {{}} #[lang(fn_ptr_trait)] trait FnPtr {{}} #[object_safe] trait Foo {{}} \
                 struct A {{}} struct S<T> {{ {} }} enum E<T> {{ V(T), W }} \
                 struct Tg<'a, T> {{ tag: &'a u32, tail: T }} struct Bf<const N, T> {{ head: [u32; N], tail: T }} \
                 struct Mx<'a, U, T> {{ tag: &'a T, tail: U }} {}",
                fields, etext
            );
            let mut rules = builtin_rules(f);
            rules.extend(erules.iter().cloned());
            rules.extend(tail_rules.iter().cloned());
            out.push(RuleCase {
                family: "builtin",
                class: format!("builtin/{}", ename),
                program,
                rules,
                coinductive: vec![],
                ctors: vec![("A".into(), 0), ("S".into(), 1)],
                goals: goals.clone(),
                goal_texts: goal_texts.clone(),
                history: 0,
            });
        }
    }
    out
}

pub fn run_c08(rep: &Report) -> i32 {
    let thorough = rep.is_thorough();
    let cases = cases(thorough);
    rep.note("types", json!(type_universe(thorough).len()));
    let opts = RuleOpts { property: "C08", depth: 3, closed_must_be_definite: true };
    run_cases(rep, &opts, &cases);
    c01::vacuity(rep, &["answers_Unique", "answers_None"]);
    let cases_n = rep.get("cases");
    let tr = rep.get("solver_calls");
    let nt = rep.get("nontrivial_cases");
    rep.finish(
        cases_n,
        tr,
        nt,
        "every program from 8 field lists for struct S<T> (none, sized, parameter, slice last, slice first, str, tuple with unsized tail) x 6 explicit-impl sets, with the lang-item traits declared and three structs whose tail field is a type parameter declared after a lifetime or const parameter, x closed goals `ty: Sized|Copy|Clone|Tuple|FnPtr` for EVERY type of a universe of depth <= 2 plus depth-3 wrappers (ADTs, enum, tuples of arity 0-3, arrays, slices, str, references, raw pointers, fn pointers, scalars, never, dyn Trait) plus forall/if goals, both solvers; non-trivial = goals REF decides",
        true,
        &["REF rules are transcribed from the property statement and Rust's rules (harness/src/props/c08.rs: builtin_rules), combined with the explicit impls as Horn clauses, least fixed point"],
    )
}
