//! C22: printing a program and reparsing it gives back an equivalent program.
//!
//! Space: exhaustive products of item features at small sizes, rendered to
//! `.chalk` text by the generator below (families: ADT attributes, ADT bodies,
//! trait attributes, trait bodies, impls, opaque types, fn definitions, a
//! catalogue of type forms, and name-clash skeletons).
//!
//! Driving path: the same one as /repo/tests/display/util.rs:
//! `chalk_solve::display::write_items` over ALL item ids of a lowered
//! `Program` (sorted by raw id), through a fresh `WriterState`, inside
//! `tls::set_current_program`.
//!
//! Oracle, per generated text0 (rejected first lowerings are counted, not judged):
//!   P0 = lower(text0); text1 = write(P0); P1 = lower(text1) must succeed and
//!   `normalize(P1 with P0's names) == normalize(P0)` using chalk's own
//!   `Program: Eq`, where `normalize` rewrites every where-clause list
//!   (ADT / trait / impl / fn / associated type / opaque where-clauses and
//!   opaque bounds) into a sorted duplicate-free set to which the trait bound
//!   implied by each `AliasEq` is added, and where item names are compared
//!   through a bijection that must be consistent per namespace.
//!   Then text2 = write(P1); P2 = lower(text2): equivalent to P1 under the same
//!   normalization, and if P0 has no equality bound: text2 == text1 byte for
//!   byte and P2 == P1 literally.
//!   Finally P0 is rendered once more through a view in which every ADT, trait,
//!   associated type and opaque type is called `Foo` (the `DuplicateNamesDb`
//!   driving path of tests/display/unique_names.rs, one `write_items` call per
//!   item through one `WriterState`); the reparsed result must again be
//!   equivalent to P0 (names through a bijection). This is what makes the
//!   writer's name disambiguation (display/state.rs) matter: a program that was
//!   read from text never NEEDS renaming.
//!   Panics anywhere are violations (kind `panic`).
//!
//! Sites: `write/<what differs>` (e.g. `write/trait.flags.marker`), for the
//! `types` family `<stage>/type-<the type form>`, for the name-clash family
//! `<stage>/names@<class of names used>`, for the collapsed-names view
//! `<stage>/collapsed-names`, `reparse/<error class>` when text1 is rejected.
//! One violation per differing label, so one deficiency cannot hide another.
//!
//! Allowances, each one blessed by the pinned suite in /repo/tests/display:
//!  (a) `T: Tr<A = X>` where-clauses gain a duplicate `T: Tr` per round trip
//!      (lowering emits AliasEq + Implemented, the writer prints both):
//!      assoc_ty.rs `test_alias_ty_bound_in_*` and where_clauses.rs
//!      `test_alias_eq` / `test_complicated_bounds` pin this with `produces`.
//!      => where-clause lists are compared as sets with implied bounds added;
//!      byte-exact second rendering is only demanded without equality bounds.
//!  (b) items whose names clash across namespaces are renamed (`Baz_1`):
//!      formatting.rs `test_name_disambiguation` (`produces`) and
//!      unique_names.rs. => names are compared through a consistent bijection.
//!  (c) field / variant / argument names are not part of a lowered program
//!      (`field_0`, `variant_0`, `arg_0` are printed): nothing to allow, the
//!      lowered programs are equal.
//!  (d) `#[ignore]`d tests (fn-def types print as `<fn_def>`, `Self` in struct
//!      bounds / impls does not lower): such programs are outside the space
//!      (fn-def names are never used as types; `Self` only occurs in traits).
//!  Not in the space either: closures, coroutines, foreign types, custom
//!  clauses (no writer support is claimed for them), `int`/`float` variable
//!  kinds, and `dyn` types carrying an equality bound (their duplicate sits
//!  inside a type, not in a where-clause list).
//!
//! Everything else is demanded literally: flags, attributes, reprs, variances,
//! polarity, parameter kinds and order, fields, bounds (ordered), signatures.

use crate::drive::{self, Caught};
use crate::report::{panic_site, Report, Violation};
use chalk_integration::interner::ChalkIr;
use chalk_integration::program::Program;
use chalk_integration::tls;
use chalk_ir::{
    AliasEq, AliasTy, Binders, QuantifiedWhereClause, Substitution, TraitRef, WhereClause,
};
use chalk_solve::display::{write_items, WriterState};
use chalk_solve::logging_db::RecordedItemId;
use chalk_solve::rust_ir::{
    AdtDatumBound, AssociatedTyDatumBound, FnDefDatumBound, ImplDatumBound, OpaqueTyDatumBound,
    TraitDatumBound,
};
use rayon::prelude::*;
use serde_json::json;
use std::collections::hash_map::DefaultHasher;
use std::collections::{BTreeMap, BTreeSet, HashSet};
use std::hash::{Hash, Hasher};
use std::sync::{Arc, Mutex};

type Qwc = QuantifiedWhereClause<ChalkIr>;

// ---------------------------------------------------------------------------
// driving code (mirrors /repo/tests/display/util.rs)

/// All item ids needed to print the whole program, in raw-id (= declaration) order.
fn program_item_ids(program: &Program) -> Vec<RecordedItemId<ChalkIr>> {
    macro_rules! grab {
        ($map:expr) => {
            $map.keys().copied().map(|id| (id.0, RecordedItemId::from(id)))
        };
    }
    let mut ids = std::iter::empty()
        .chain(grab!(program.adt_data))
        .chain(grab!(program.trait_data))
        .chain(grab!(program.impl_data))
        .chain(grab!(program.opaque_ty_data))
        .chain(grab!(program.fn_def_data))
        .collect::<Vec<_>>();
    ids.sort_by_key(|(raw, _)| *raw);
    ids.into_iter().map(|(_, id)| id).collect()
}

thread_local! {
    /// `chalk_parse::parse_program` builds a fresh `ProgramParser` (which compiles
    /// the lexer's regexes) on every call; that alone costs more than everything
    /// else in a case. The generated parser is public, so one is kept per thread
    /// and the same `parse` entry point is used.
    static PARSER: chalk_parse::parser::ProgramParser = chalk_parse::parser::ProgramParser::new();
}

/// parse + lower, exactly what `drive::load_program` / `ChalkDatabase::program_ir` do
fn load(text: &str) -> Result<Arc<Program>, String> {
    use chalk_integration::lowering::Lower;
    let parsed = PARSER
        .with(|p| p.parse(text).map_err(|e| format!("parse: parse error: {}", e)))?;
    let p = parsed.lower().map_err(|e| format!("lower: {}", e))?;
    Ok(Arc::new(p))
}

fn write_program(program: &Arc<Program>) -> Result<String, std::fmt::Error> {
    tls::set_current_program(program, || {
        let mut out = String::new();
        let ids = program_item_ids(program);
        write_items::<_, _, Program, _, _>(&mut out, &WriterState::new(&**program), ids)?;
        Ok(out)
    })
}

/// View of a program in which every ADT, trait, associated type and opaque
/// type is called `Foo` (the `DuplicateNamesDb` of
/// /repo/tests/display/unique_names.rs). A program read from text never has two
/// items whose names MUST be told apart (its own text resolved them), so only
/// through such a view does the writer's disambiguation (`WriterState`,
/// display/state.rs) become necessary for the output to mean the same program.
/// fn-def names are left alone: the writer prints them without disambiguation
/// and claims nothing about them.
#[derive(Debug)]
struct CollapsedNames<'a>(&'a Program);

impl<'a> chalk_solve::RustIrDatabase<ChalkIr> for CollapsedNames<'a> {
    fn trait_name(&self, _: chalk_ir::TraitId<ChalkIr>) -> String {
        "Foo".to_owned()
    }
    fn adt_name(&self, _: chalk_ir::AdtId<ChalkIr>) -> String {
        "Foo".to_owned()
    }
    fn assoc_type_name(&self, _: chalk_ir::AssocTypeId<ChalkIr>) -> String {
        "Foo".to_owned()
    }
    fn opaque_type_name(&self, _: chalk_ir::OpaqueTyId<ChalkIr>) -> String {
        "Foo".to_owned()
    }
    fn fn_def_name(&self, id: chalk_ir::FnDefId<ChalkIr>) -> String {
        self.0.fn_def_name(id)
    }
    fn custom_clauses(&self) -> Vec<chalk_ir::ProgramClause<ChalkIr>> {
        self.0.custom_clauses()
    }
    fn associated_ty_data(&self, ty: chalk_ir::AssocTypeId<ChalkIr>) -> Arc<chalk_solve::rust_ir::AssociatedTyDatum<ChalkIr>> {
        self.0.associated_ty_data(ty)
    }
    fn trait_datum(&self, id: chalk_ir::TraitId<ChalkIr>) -> Arc<chalk_solve::rust_ir::TraitDatum<ChalkIr>> {
        self.0.trait_datum(id)
    }
    fn adt_datum(&self, id: chalk_ir::AdtId<ChalkIr>) -> Arc<chalk_solve::rust_ir::AdtDatum<ChalkIr>> {
        self.0.adt_datum(id)
    }
    fn adt_repr(&self, id: chalk_ir::AdtId<ChalkIr>) -> Arc<chalk_solve::rust_ir::AdtRepr<ChalkIr>> {
        self.0.adt_repr(id)
    }
    fn adt_size_align(&self, id: chalk_ir::AdtId<ChalkIr>) -> Arc<chalk_solve::rust_ir::AdtSizeAlign> {
        self.0.adt_size_align(id)
    }
    fn fn_def_datum(&self, id: chalk_ir::FnDefId<ChalkIr>) -> Arc<chalk_solve::rust_ir::FnDefDatum<ChalkIr>> {
        self.0.fn_def_datum(id)
    }
    fn impl_datum(&self, id: chalk_ir::ImplId<ChalkIr>) -> Arc<chalk_solve::rust_ir::ImplDatum<ChalkIr>> {
        self.0.impl_datum(id)
    }
    fn associated_ty_from_impl(
        &self,
        impl_id: chalk_ir::ImplId<ChalkIr>,
        assoc_type_id: chalk_ir::AssocTypeId<ChalkIr>,
    ) -> Option<chalk_solve::rust_ir::AssociatedTyValueId<ChalkIr>> {
        self.0.associated_ty_from_impl(impl_id, assoc_type_id)
    }
    fn associated_ty_value(
        &self,
        id: chalk_solve::rust_ir::AssociatedTyValueId<ChalkIr>,
    ) -> Arc<chalk_solve::rust_ir::AssociatedTyValue<ChalkIr>> {
        self.0.associated_ty_value(id)
    }
    fn coroutine_datum(&self, id: chalk_ir::CoroutineId<ChalkIr>) -> Arc<chalk_solve::rust_ir::CoroutineDatum<ChalkIr>> {
        self.0.coroutine_datum(id)
    }
    fn coroutine_witness_datum(
        &self,
        id: chalk_ir::CoroutineId<ChalkIr>,
    ) -> Arc<chalk_solve::rust_ir::CoroutineWitnessDatum<ChalkIr>> {
        self.0.coroutine_witness_datum(id)
    }
    fn opaque_ty_data(&self, id: chalk_ir::OpaqueTyId<ChalkIr>) -> Arc<chalk_solve::rust_ir::OpaqueTyDatum<ChalkIr>> {
        self.0.opaque_ty_data(id)
    }
    fn hidden_opaque_type(&self, id: chalk_ir::OpaqueTyId<ChalkIr>) -> chalk_ir::Ty<ChalkIr> {
        self.0.hidden_opaque_type(id)
    }
    fn impls_for_trait(
        &self,
        trait_id: chalk_ir::TraitId<ChalkIr>,
        parameters: &[chalk_ir::GenericArg<ChalkIr>],
        binders: &chalk_ir::CanonicalVarKinds<ChalkIr>,
    ) -> Vec<chalk_ir::ImplId<ChalkIr>> {
        self.0.impls_for_trait(trait_id, parameters, binders)
    }
    fn local_impls_to_coherence_check(&self, trait_id: chalk_ir::TraitId<ChalkIr>) -> Vec<chalk_ir::ImplId<ChalkIr>> {
        self.0.local_impls_to_coherence_check(trait_id)
    }
    fn impl_provided_for(&self, auto_trait_id: chalk_ir::TraitId<ChalkIr>, ty: &chalk_ir::TyKind<ChalkIr>) -> bool {
        self.0.impl_provided_for(auto_trait_id, ty)
    }
    fn well_known_trait_id(&self, t: chalk_solve::rust_ir::WellKnownTrait) -> Option<chalk_ir::TraitId<ChalkIr>> {
        self.0.well_known_trait_id(t)
    }
    fn well_known_assoc_type_id(
        &self,
        t: chalk_solve::rust_ir::WellKnownAssocType,
    ) -> Option<chalk_ir::AssocTypeId<ChalkIr>> {
        self.0.well_known_assoc_type_id(t)
    }
    fn program_clauses_for_env(&self, e: &chalk_ir::Environment<ChalkIr>) -> chalk_ir::ProgramClauses<ChalkIr> {
        self.0.program_clauses_for_env(e)
    }
    fn interner(&self) -> ChalkIr {
        ChalkIr
    }
    fn is_object_safe(&self, trait_id: chalk_ir::TraitId<ChalkIr>) -> bool {
        self.0.is_object_safe(trait_id)
    }
    fn closure_kind(
        &self,
        id: chalk_ir::ClosureId<ChalkIr>,
        substs: &Substitution<ChalkIr>,
    ) -> chalk_solve::rust_ir::ClosureKind {
        self.0.closure_kind(id, substs)
    }
    fn closure_inputs_and_output(
        &self,
        id: chalk_ir::ClosureId<ChalkIr>,
        substs: &Substitution<ChalkIr>,
    ) -> Binders<chalk_solve::rust_ir::FnDefInputsAndOutputDatum<ChalkIr>> {
        self.0.closure_inputs_and_output(id, substs)
    }
    fn closure_upvars(&self, id: chalk_ir::ClosureId<ChalkIr>, substs: &Substitution<ChalkIr>) -> Binders<chalk_ir::Ty<ChalkIr>> {
        self.0.closure_upvars(id, substs)
    }
    fn closure_fn_substitution(&self, id: chalk_ir::ClosureId<ChalkIr>, substs: &Substitution<ChalkIr>) -> Substitution<ChalkIr> {
        self.0.closure_fn_substitution(id, substs)
    }
    fn discriminant_type(&self, ty: chalk_ir::Ty<ChalkIr>) -> chalk_ir::Ty<ChalkIr> {
        self.0.discriminant_type(ty)
    }
    fn unification_database(&self) -> &dyn chalk_ir::UnificationDatabase<ChalkIr> {
        self.0.unification_database()
    }
}

/// Like unique_names.rs `write_program_duplicated_names`: every item named
/// `Foo`, one `write_items` call per item through ONE `WriterState` (names must
/// stay stable across calls).
fn write_program_collapsed(program: &Arc<Program>) -> Result<String, std::fmt::Error> {
    tls::set_current_program(program, || {
        let mut out = String::new();
        let db = CollapsedNames(&**program);
        let ws = WriterState::new(db);
        for id in program_item_ids(program) {
            write_items(&mut out, &ws, std::iter::once(id))?;
        }
        Ok(out)
    })
}

// ---------------------------------------------------------------------------
// normalization (the equivalence of the property statement)

/// Where-clause list as a set, plus the trait bound implied by each equality bound.
fn norm_wcs(p: &Program, v: &[Qwc]) -> Vec<Qwc> {
    let mut out: Vec<Qwc> = v.to_vec();
    for q in v {
        if let WhereClause::AliasEq(AliasEq {
            alias: AliasTy::Projection(proj),
            ..
        }) = q.skip_binders()
        {
            if let Some(ad) = p.associated_ty_data.get(&proj.associated_ty_id) {
                if let Some(td) = p.trait_data.get(&ad.trait_id) {
                    let n = td.binders.len(ChalkIr);
                    let subst = Substitution::from_iter(
                        ChalkIr,
                        proj.substitution.iter(ChalkIr).take(n).cloned(),
                    );
                    out.push(Binders::new(
                        q.binders.clone(),
                        WhereClause::Implemented(TraitRef {
                            trait_id: ad.trait_id,
                            substitution: subst,
                        }),
                    ));
                }
            }
        }
    }
    let mut keyed: Vec<(String, Qwc)> = out.into_iter().map(|q| (format!("{:?}", q), q)).collect();
    keyed.sort_by(|a, b| a.0.cmp(&b.0));
    keyed.dedup_by(|a, b| a.1 == b.1);
    keyed.into_iter().map(|x| x.1).collect()
}

/// `p` with all where-clause lists normalized; if `names` is given, every item
/// that also exists (same id) in `names` takes its name from there.
fn normalize(p: &Program, names: Option<&Program>) -> Program {
    let mut q = p.clone();
    for (id, d) in &p.adt_data {
        let mut nd = (**d).clone();
        nd.binders = d.binders.map_ref(|b| AdtDatumBound {
            variants: b.variants.clone(),
            where_clauses: norm_wcs(p, &b.where_clauses),
        });
        q.adt_data.insert(*id, Arc::new(nd));
    }
    for (id, d) in &p.trait_data {
        let mut nd = (**d).clone();
        nd.binders = d.binders.map_ref(|b| TraitDatumBound {
            where_clauses: norm_wcs(p, &b.where_clauses),
        });
        q.trait_data.insert(*id, Arc::new(nd));
    }
    for (id, d) in &p.impl_data {
        let mut nd = (**d).clone();
        nd.binders = d.binders.map_ref(|b| ImplDatumBound {
            trait_ref: b.trait_ref.clone(),
            where_clauses: norm_wcs(p, &b.where_clauses),
        });
        q.impl_data.insert(*id, Arc::new(nd));
    }
    for (id, d) in &p.fn_def_data {
        let mut nd = (**d).clone();
        nd.binders = d.binders.map_ref(|b| FnDefDatumBound {
            inputs_and_output: b.inputs_and_output.clone(),
            where_clauses: norm_wcs(p, &b.where_clauses),
        });
        q.fn_def_data.insert(*id, Arc::new(nd));
    }
    for (id, d) in &p.associated_ty_data {
        let mut nd = (**d).clone();
        nd.binders = d.binders.map_ref(|b| AssociatedTyDatumBound {
            bounds: b.bounds.clone(),
            where_clauses: norm_wcs(p, &b.where_clauses),
        });
        if let Some(d0) = names.and_then(|n| n.associated_ty_data.get(id)) {
            nd.name = d0.name.clone();
        }
        q.associated_ty_data.insert(*id, Arc::new(nd));
    }
    for (id, d) in &p.opaque_ty_data {
        let mut nd = (**d).clone();
        nd.bound = d.bound.map_ref(|b| OpaqueTyDatumBound {
            bounds: b.bounds.map_ref(|v| norm_wcs(p, v)),
            where_clauses: b.where_clauses.map_ref(|v| norm_wcs(p, v)),
        });
        q.opaque_ty_data.insert(*id, Arc::new(nd));
    }
    if let Some(n) = names {
        macro_rules! rename {
            ($ids:ident, $kinds:ident) => {
                q.$ids = p
                    .$ids
                    .iter()
                    .map(|(name, id)| {
                        (
                            n.$kinds
                                .get(id)
                                .map(|k| k.name.clone())
                                .unwrap_or_else(|| name.clone()),
                            *id,
                        )
                    })
                    .collect();
                for (id, k) in q.$kinds.iter_mut() {
                    if let Some(k0) = n.$kinds.get(id) {
                        k.name = k0.name.clone();
                    }
                }
            };
        }
        // The writer disambiguates ADT, trait, associated type, opaque type and
        // fn-def names that clash (`X`, `X_1`, ...): programs are compared up to a
        // renaming of items that `check_name_bijection` shows to be one-to-one
        // inside each namespace.
        rename!(adt_ids, adt_kinds);
        rename!(trait_ids, trait_kinds);
        rename!(opaque_ty_ids, opaque_ty_kinds);
        rename!(fn_def_ids, fn_def_kinds);
    }
    q
}

/// The name map old -> new must be a bijection inside each namespace.
fn check_name_bijection(p0: &Program, p1: &Program) -> Result<(), String> {
    let mut pairs: Vec<(String, String, String)> = vec![];
    for (id, k) in &p0.adt_kinds {
        if let Some(k1) = p1.adt_kinds.get(id) {
            pairs.push(("adt".into(), k.name.to_string(), k1.name.to_string()));
        }
    }
    for (id, k) in &p0.trait_kinds {
        if let Some(k1) = p1.trait_kinds.get(id) {
            pairs.push(("trait".into(), k.name.to_string(), k1.name.to_string()));
        }
    }
    for (id, k) in &p0.opaque_ty_kinds {
        if let Some(k1) = p1.opaque_ty_kinds.get(id) {
            pairs.push(("opaque".into(), k.name.to_string(), k1.name.to_string()));
        }
    }
    for (id, k) in &p0.fn_def_kinds {
        if let Some(k1) = p1.fn_def_kinds.get(id) {
            pairs.push(("fn".into(), k.name.to_string(), k1.name.to_string()));
        }
    }
    for (id, d) in &p0.associated_ty_data {
        if let Some(d1) = p1.associated_ty_data.get(id) {
            pairs.push((
                format!("assoc-of-{:?}", d.trait_id),
                d.name.to_string(),
                d1.name.to_string(),
            ));
        }
    }
    let mut fwd: BTreeMap<(String, String), String> = BTreeMap::new();
    let mut bwd: BTreeMap<(String, String), String> = BTreeMap::new();
    for (ns, a, b) in pairs {
        if let Some(prev) = fwd.insert((ns.clone(), a.clone()), b.clone()) {
            if prev != b {
                return Err(format!("{} `{}` is renamed to both `{}` and `{}`", ns, a, prev, b));
            }
        }
        if let Some(prev) = bwd.insert((ns.clone(), b.clone()), a.clone()) {
            if prev != a {
                return Err(format!("{} `{}` and `{}` are both renamed to `{}`", ns, prev, a, b));
            }
        }
    }
    Ok(())
}

// ---------------------------------------------------------------------------
// labelled dump: only used to NAME where two programs differ (the verdict itself
// comes from `Program: Eq` on the normalized programs)

fn dump(p: &Program) -> Vec<(String, &'static str, String)> {
    let mut out: Vec<(String, &'static str, String)> = vec![];
    macro_rules! put {
        ($k:expr, $site:expr, $v:expr) => {
            out.push(($k, $site, format!("{:?}", $v)))
        };
    }
    put!("items.adt".to_string(), "items.adt", p.adt_data.keys().collect::<Vec<_>>());
    put!("items.trait".to_string(), "items.trait", p.trait_data.keys().collect::<Vec<_>>());
    put!("items.impl".to_string(), "items.impl", p.impl_data.keys().collect::<Vec<_>>());
    put!("items.opaque".to_string(), "items.opaque", p.opaque_ty_data.keys().collect::<Vec<_>>());
    put!("items.fn".to_string(), "items.fn", p.fn_def_data.keys().collect::<Vec<_>>());
    put!(
        "items.assoc_ty".to_string(),
        "items.assoc_ty",
        p.associated_ty_data.keys().collect::<Vec<_>>()
    );
    put!(
        "items.assoc_value".to_string(),
        "items.assoc_value",
        p.associated_ty_values.keys().collect::<Vec<_>>()
    );
    for (id, d) in &p.adt_data {
        let k = |s: &str| format!("adt{:?}.{}", id, s);
        let b = d.binders.skip_binders();
        put!(k("kind"), "adt.kind", d.kind);
        put!(k("upstream"), "adt.flags.upstream", d.flags.upstream);
        put!(k("fundamental"), "adt.flags.fundamental", d.flags.fundamental);
        put!(k("phantom_data"), "adt.flags.phantom_data", d.flags.phantom_data);
        put!(k("params"), "adt.params", d.binders.binders.as_slice(ChalkIr));
        put!(k("fields"), "adt.fields", b.variants);
        put!(k("where"), "adt.where", b.where_clauses);
        if let Some(r) = p.adt_reprs.get(id) {
            put!(k("repr.c"), "adt.repr.c", r.c);
            put!(k("repr.packed"), "adt.repr.packed", r.packed);
            put!(k("repr.int"), "adt.repr.int", r.int);
        }
        put!(k("one_zst"), "adt.one_zst", p.adt_size_aligns.get(id));
        put!(k("variance"), "adt.variance", p.adt_variances.get(id));
        put!(k("name"), "adt.name", p.adt_kinds.get(id).map(|k| k.name.to_string()));
        put!(k("typekind"), "adt.typekind", p.adt_kinds.get(id).map(|k| (k.sort, &k.binders)));
    }
    for (id, d) in &p.trait_data {
        let k = |s: &str| format!("trait{:?}.{}", id, s);
        let b = d.binders.skip_binders();
        put!(k("auto"), "trait.flags.auto", d.flags.auto);
        put!(k("marker"), "trait.flags.marker", d.flags.marker);
        put!(k("upstream"), "trait.flags.upstream", d.flags.upstream);
        put!(k("fundamental"), "trait.flags.fundamental", d.flags.fundamental);
        put!(k("non_enumerable"), "trait.flags.non_enumerable", d.flags.non_enumerable);
        put!(k("coinductive"), "trait.flags.coinductive", d.flags.coinductive);
        put!(k("object_safe"), "trait.object_safe", p.object_safe_traits.contains(id));
        put!(k("well_known"), "trait.well_known", d.well_known);
        put!(k("params"), "trait.params", d.binders.binders.as_slice(ChalkIr));
        put!(k("where"), "trait.where", b.where_clauses);
        put!(k("assoc_ids"), "trait.assoc_ids", d.associated_ty_ids);
        put!(k("name"), "trait.name", p.trait_kinds.get(id).map(|k| k.name.to_string()));
        put!(k("typekind"), "trait.typekind", p.trait_kinds.get(id).map(|k| (k.sort, &k.binders)));
    }
    for (id, d) in &p.associated_ty_data {
        let k = |s: &str| format!("assoc{:?}.{}", id, s);
        let b = d.binders.skip_binders();
        put!(k("trait"), "assoc_ty.trait", d.trait_id);
        put!(k("name"), "assoc_ty.name", d.name.to_string());
        put!(k("params"), "assoc_ty.params", d.binders.binders.as_slice(ChalkIr));
        put!(k("bounds"), "assoc_ty.bounds", b.bounds);
        put!(k("where"), "assoc_ty.where", b.where_clauses);
    }
    for (id, d) in &p.impl_data {
        let k = |s: &str| format!("impl{:?}.{}", id, s);
        let b = d.binders.skip_binders();
        put!(k("polarity"), "impl.polarity", d.polarity);
        put!(k("impl_type"), "impl.upstream", d.impl_type);
        put!(k("params"), "impl.params", d.binders.binders.as_slice(ChalkIr));
        put!(k("trait_ref"), "impl.trait_ref", b.trait_ref);
        put!(k("where"), "impl.where", b.where_clauses);
        put!(k("values"), "impl.value_ids", d.associated_ty_value_ids);
    }
    for (id, d) in &p.associated_ty_values {
        let k = |s: &str| format!("value{:?}.{}", id, s);
        put!(k("impl"), "assoc_value.impl", d.impl_id);
        put!(k("assoc"), "assoc_value.assoc_ty", d.associated_ty_id);
        put!(k("params"), "assoc_value.params", d.value.binders.as_slice(ChalkIr));
        put!(k("ty"), "assoc_value.ty", d.value.skip_binders().ty);
    }
    for (id, d) in &p.opaque_ty_data {
        let k = |s: &str| format!("opaque{:?}.{}", id, s);
        let b = d.bound.skip_binders();
        put!(k("params"), "opaque.params", d.bound.binders.as_slice(ChalkIr));
        put!(k("bounds"), "opaque.bounds", b.bounds);
        put!(k("where"), "opaque.where", b.where_clauses);
        put!(k("hidden"), "opaque.hidden", p.hidden_opaque_types.get(id));
        put!(k("name"), "opaque.name", p.opaque_ty_kinds.get(id).map(|k| k.name.to_string()));
        put!(k("typekind"), "opaque.typekind", p.opaque_ty_kinds.get(id).map(|k| (k.sort, &k.binders)));
    }
    for (id, d) in &p.fn_def_data {
        let k = |s: &str| format!("fn{:?}.{}", id, s);
        let b = d.binders.skip_binders();
        put!(k("abi"), "fn.sig.abi", d.sig.abi);
        put!(k("safety"), "fn.sig.safety", d.sig.safety);
        put!(k("variadic"), "fn.sig.variadic", d.sig.variadic);
        put!(k("params"), "fn.params", d.binders.binders.as_slice(ChalkIr));
        put!(k("io"), "fn.inputs_and_output", b.inputs_and_output);
        put!(k("where"), "fn.where", b.where_clauses);
        put!(k("variance"), "fn.variance", p.fn_def_variances.get(id));
        put!(k("name"), "fn.name", p.fn_def_kinds.get(id).map(|k| k.name.to_string()));
        put!(k("typekind"), "fn.typekind", p.fn_def_kinds.get(id).map(|k| (k.sort, &k.binders)));
    }
    put!("well_known_traits".to_string(), "program.well_known_traits", p.well_known_traits);
    put!(
        "well_known_assoc_types".to_string(),
        "program.well_known_assoc_types",
        p.well_known_assoc_types
    );
    put!("custom_clauses".to_string(), "program.custom_clauses", p.custom_clauses);
    out
}

/// (site label, human detail) of every labelled difference, one per label.
fn diffs(a: &Program, b: &Program) -> Vec<(String, String)> {
    // with the program installed in tls, chalk's Debug impls print trait refs,
    // projections etc. in full (with item names) instead of `?`
    let with_names = |p: &Program| {
        let arc = Arc::new(p.clone());
        tls::set_current_program(&arc, || dump(&arc))
    };
    let da = with_names(a);
    let db: BTreeMap<String, (&'static str, String)> =
        with_names(b).into_iter().map(|(k, s, v)| (k, (s, v))).collect();
    let mut seen = BTreeSet::new();
    let mut sites = BTreeSet::new();
    let mut out = vec![];
    for (k, site, va) in &da {
        seen.insert(k.clone());
        let d = match db.get(k) {
            Some((_, vb)) if vb == va => continue,
            Some((_, vb)) => format!("{}: {} -> {}", k, va, vb),
            None => format!("{}: {} -> (absent)", k, va),
        };
        if sites.insert(*site) {
            out.push((site.to_string(), d));
        }
    }
    for (k, (site, vb)) in &db {
        if !seen.contains(k) && sites.insert(*site) {
            out.push((site.to_string(), format!("{}: (absent) -> {}", k, vb)));
        }
    }
    if out.is_empty() {
        out.push((
            "unclassified".to_string(),
            "the programs differ in something the labelled dump does not show".to_string(),
        ));
    }
    out
}

// ---------------------------------------------------------------------------
// facts about P0

fn wc_lists(p: &Program) -> Vec<Vec<Qwc>> {
    let mut out = vec![];
    for d in p.adt_data.values() {
        out.push(d.binders.skip_binders().where_clauses.clone());
    }
    for d in p.trait_data.values() {
        out.push(d.binders.skip_binders().where_clauses.clone());
    }
    for d in p.impl_data.values() {
        out.push(d.binders.skip_binders().where_clauses.clone());
    }
    for d in p.fn_def_data.values() {
        out.push(d.binders.skip_binders().where_clauses.clone());
    }
    for d in p.associated_ty_data.values() {
        out.push(d.binders.skip_binders().where_clauses.clone());
    }
    for d in p.opaque_ty_data.values() {
        out.push(d.bound.skip_binders().bounds.skip_binders().clone());
        out.push(d.bound.skip_binders().where_clauses.skip_binders().clone());
    }
    out
}

/// Some type in the program is a fn-def type (`fn foo(); struct S { f: foo }`).
/// The writer prints `<fn_def>` for those and the suite blesses that
/// (fn_.rs `test_fn_as_type_*` are `#[ignore]`d: "We do not yet support fn def
/// types"), so such programs are outside the space. The name-clash family can
/// produce them, because a fn name shadows an opaque type of the same name.
fn uses_fn_def_type(p: &Program) -> bool {
    use chalk_ir::visit::{TypeSuperVisitable, TypeVisitable, TypeVisitor};
    use chalk_ir::{DebruijnIndex, Ty, TyKind};
    use std::ops::ControlFlow;
    struct V;
    impl TypeVisitor<ChalkIr> for V {
        type BreakTy = ();
        fn as_dyn(&mut self) -> &mut dyn TypeVisitor<ChalkIr, BreakTy = ()> {
            self
        }
        fn visit_ty(&mut self, ty: &Ty<ChalkIr>, outer: DebruijnIndex) -> ControlFlow<()> {
            if let TyKind::FnDef(..) = ty.kind(ChalkIr) {
                return ControlFlow::Break(());
            }
            ty.super_visit_with(self.as_dyn(), outer)
        }
        fn interner(&self) -> ChalkIr {
            ChalkIr
        }
    }
    let mut v = V;
    let o = DebruijnIndex::INNERMOST;
    p.adt_data.values().any(|d| d.visit_with(&mut v, o).is_break())
        || p.trait_data.values().any(|d| d.visit_with(&mut v, o).is_break())
        || p.impl_data.values().any(|d| d.visit_with(&mut v, o).is_break())
        || p.fn_def_data.values().any(|d| d.visit_with(&mut v, o).is_break())
        || p.associated_ty_data.values().any(|d| d.visit_with(&mut v, o).is_break())
        || p.associated_ty_values.values().any(|d| d.visit_with(&mut v, o).is_break())
        || p.opaque_ty_data.values().any(|d| d.visit_with(&mut v, o).is_break())
        || p.hidden_opaque_types.values().any(|t| t.visit_with(&mut v, o).is_break())
}

fn has_eq_bound(p: &Program) -> bool {
    wc_lists(p)
        .iter()
        .flatten()
        .any(|q| matches!(q.skip_binders(), WhereClause::AliasEq(_)))
}

/// Two entities of the writer's shared alias space (ADT, trait, associated
/// type, opaque type) carry the same name.
fn has_name_clash(p: &Program) -> bool {
    let mut names: Vec<String> = vec![];
    names.extend(p.adt_kinds.values().map(|k| k.name.to_string()));
    names.extend(p.trait_kinds.values().map(|k| k.name.to_string()));
    names.extend(p.opaque_ty_kinds.values().map(|k| k.name.to_string()));
    names.extend(p.associated_ty_data.values().map(|d| d.name.to_string()));
    let n = names.len();
    names.sort();
    names.dedup();
    names.len() != n
}

/// At least one item carries a flag / attribute / where-clause / associated type.
fn is_nontrivial(p: &Program) -> bool {
    use chalk_ir::Variance;
    let adt = p.adt_data.iter().any(|(id, d)| {
        id.0.index >= CTX_ITEMS && (d.flags.upstream
            || d.flags.fundamental
            || d.flags.phantom_data
            || !d.binders.skip_binders().where_clauses.is_empty()
            || p.adt_reprs.get(id).map(|r| r.c || r.packed || r.int.is_some()).unwrap_or(false)
            || p.adt_size_aligns.get(id).map(|s| s.one_zst()).unwrap_or(false)
            || p.adt_variances.get(id).map(|v| v.iter().any(|x| *x != Variance::Invariant)).unwrap_or(false))
    });
    let tr = p.trait_data.iter().any(|(id, d)| {
        id.0.index >= CTX_ITEMS && (d.flags.auto
            || d.flags.marker
            || d.flags.upstream
            || d.flags.fundamental
            || d.flags.non_enumerable
            || d.flags.coinductive
            || d.well_known.is_some()
            || p.object_safe_traits.contains(id)
            || !d.binders.skip_binders().where_clauses.is_empty())
    });
    // the context's own associated types do not count
    let assoc = p.associated_ty_data.values().any(|d| d.trait_id.0.index >= CTX_ITEMS);
    let im = p.impl_data.values().any(|d| {
        !d.polarity.is_positive()
            || d.impl_type == chalk_solve::rust_ir::ImplType::External
            || !d.binders.skip_binders().where_clauses.is_empty()
            || !d.associated_ty_value_ids.is_empty()
    });
    let op = p.opaque_ty_data.values().any(|d| {
        !d.bound.skip_binders().bounds.skip_binders().is_empty()
            || !d.bound.skip_binders().where_clauses.skip_binders().is_empty()
    });
    let f = p.fn_def_data.iter().any(|(id, d)| {
        !d.binders.skip_binders().where_clauses.is_empty()
            || d.sig.variadic
            || d.sig.safety != chalk_ir::Safety::Safe
            || d.sig.abi != chalk_integration::interner::ChalkFnAbi::Rust
            || p.fn_def_variances.get(id).map(|v| v.iter().any(|x| *x != Variance::Invariant)).unwrap_or(false)
    });
    adt || tr || assoc || im || op || f
}

// ---------------------------------------------------------------------------
// generator

type Pool = &'static [(&'static str, &'static str)];

/// Context items, all bare. Names are disjoint from everything the families add
/// (so that name clashes only occur where a family makes them on purpose).
const CTX: &str = "struct S0 {}\nstruct G<X> {}\nstruct L<'x> {}\nstruct C<const K> {}\ntrait Tr {}\ntrait Tr2<X> {}\ntrait TrL<'x> {}\ntrait TrA { type A; }\ntrait TrG<X> { type B<Y>; }\n#[auto] trait Au {}\n";
/// number of items in `CTX` (they get raw ids 0..CTX_ITEMS)
const CTX_ITEMS: u32 = 10;

/// (text, scope letters it brings: T U type params, a b lifetimes, N const, S = Self)
const PLS_QUICK: Pool = &[
    ("", ""),
    ("<T>", "T"),
    ("<'a>", "a"),
    ("<const N>", "N"),
    ("<T, 'a>", "Ta"),
    ("<'a, T>", "Ta"),
    ("<T, U>", "TU"),
    ("<'a, 'b>", "ab"),
    ("<T, const N>", "TN"),
];
const PLS_MORE: Pool = &[
    ("<U, T>", "TU"),
    ("<const N, T, 'a>", "TNa"),
    ("<'a, 'b, T, U>", "TUab"),
];

fn n_params(pl: &str) -> usize {
    if pl.is_empty() {
        0
    } else {
        pl.split(',').count()
    }
}

/// Types of the main families: (text, scope letters needed).
const TYPES_MAIN: Pool = &[
    ("u32", ""),
    ("S0", ""),
    ("G<S0>", ""),
    ("T", "T"),
    ("U", "U"),
    ("G<T>", "T"),
    ("&'a T", "Ta"),
    ("&'a u32", "a"),
    ("L<'b>", "b"),
    ("<T as TrA>::A", "T"),
    ("(T, U)", "TU"),
    ("fn(T) -> U", "TU"),
    ("<T as TrG<U>>::B<S0>", "TU"),
    ("[T; N]", "TN"),
    ("C<N>", "N"),
    ("dyn Tr + 'a", "a"),
];

/// Further type forms, exercised one at a time by the `types` family.
const TYPES_EXTRA: Pool = &[
    ("()", ""),
    ("(S0,)", ""),
    ("(S0, u32, G<S0>)", ""),
    ("!", ""),
    ("str", ""),
    ("bool", ""),
    ("char", ""),
    ("i8", ""),
    ("i16", ""),
    ("i32", ""),
    ("i64", ""),
    ("i128", ""),
    ("isize", ""),
    ("u8", ""),
    ("u16", ""),
    ("u64", ""),
    ("u128", ""),
    ("usize", ""),
    ("f16", ""),
    ("f32", ""),
    ("f64", ""),
    ("f128", ""),
    ("[S0]", ""),
    ("[u32; 2]", ""),
    ("[T; 0]", "T"),
    ("[u32; N]", "N"),
    ("C<3>", ""),
    ("*const S0", ""),
    ("*mut T", "T"),
    ("&'static S0", ""),
    ("&'a mut T", "Ta"),
    ("&'a &'b T", "Tab"),
    ("fn()", ""),
    ("fn(S0) -> u32", ""),
    ("fn(T, U) -> (T, U)", "TU"),
    ("for<'x> fn(&'x S0) -> &'x S0", ""),
    ("for<'x, 'y> fn(&'x S0, &'y T) -> &'y T", "T"),
    ("for<'x> fn(&'x T, &'a U) -> L<'x>", "TUa"),
    ("fn(for<'x> fn(&'x T)) -> u32", "T"),
    ("unsafe fn(u32) -> u32", ""),
    ("extern \"C\" fn(u32) -> u32", ""),
    ("fn(u32, ...) -> u32", ""),
    ("dyn Tr + 'static", ""),
    ("dyn Tr + Tr2<T> + 'a", "Ta"),
    ("dyn Tr2<U> + Tr + 'a", "Ua"),
    ("dyn TrL<'a> + 'b", "ab"),
    ("dyn forall<'x> TrL<'x> + 'a", "a"),
    ("dyn forall<'x> Tr2<&'x T> + 'a", "Ta"),
    ("dyn Au + Tr + 'a", "a"),
    ("dyn Tr + Au + 'a", "a"),
    ("<S0 as TrA>::A", ""),
    ("<T as TrG<U>>::B<G<T>>", "TU"),
    ("<<T as TrA>::A as TrA>::A", "T"),
    ("<G<T> as TrG<&'a U>>::B<C<N>>", "TUaN"),
    ("G<G<T>>", "T"),
    ("G<&'a T>", "Ta"),
    ("G<fn(T) -> U>", "TU"),
    ("G<(T, U)>", "TU"),
    ("G<[T; N]>", "TN"),
    ("G<dyn Tr + 'a>", "a"),
    ("L<'static>", ""),
    ("&'erased u32", ""),
    ("Op", ""),
    ("OpG<T>", "T"),
    ("G<OpG<S0>>", ""),
];

/// Where-clauses: (text, scope letters needed). `A = ..` forms are equality bounds.
const WCS: Pool = &[
    ("S0: Tr", ""),
    ("T: Tr", "T"),
    ("T: Tr2<T>", "T"),
    ("T: Tr2<U>", "TU"),
    ("T: TrA<A = u32>", "T"),
    ("U: TrA<A = T>", "TU"),
    ("T: TrG<U, B<S0> = T>", "TU"),
    ("S0: TrA<A = S0>", ""),
    ("forall<'x> T: TrL<'x>", "T"),
    ("forall<'x> &'x T: Tr2<L<'x>>", "T"),
    ("forall<'x, 'y> L<'x>: TrL<'y>", ""),
    ("T: 'a", "Ta"),
    ("T: 'static", "T"),
    ("'a: 'b", "ab"),
    ("'b: 'a", "ab"),
    ("'a: 'static", "a"),
    ("T: TrL<'a>", "Ta"),
    ("<T as TrA>::A: Tr", "T"),
    ("G<T>: Tr", "T"),
    ("C<N>: Tr", "N"),
    ("dyn Tr + 'a: Tr", "a"),
    ("Self: Tr", "S"),
    ("Self: TrA<A = u32>", "S"),
    ("Self: 'a", "Sa"),
    ("T: Tr2<Self>", "ST"),
];

fn scope_ok(needs: &str, scope: &str) -> bool {
    needs.chars().all(|c| scope.contains(c))
}

fn avail(pool: Pool, scope: &str) -> Vec<&'static str> {
    pool.iter().filter(|(_, n)| scope_ok(n, scope)).map(|(t, _)| *t).collect()
}

/// All subsets of size <= k, smallest first, in pool order.
fn subsets_upto<T: Clone>(pool: &[T], k: usize) -> Vec<Vec<T>> {
    let mut out: Vec<Vec<T>> = vec![vec![]];
    let mut layer: Vec<(usize, Vec<T>)> = vec![(0, vec![])];
    for _ in 0..k {
        let mut next = vec![];
        for (start, s) in &layer {
            for i in *start..pool.len() {
                let mut t = s.clone();
                t.push(pool[i].clone());
                out.push(t.clone());
                next.push((i + 1, t));
            }
        }
        layer = next;
    }
    out
}

/// All lists (with repetition, ordered) of length <= k, shortest first.
fn lists_upto<T: Clone>(pool: &[T], k: usize) -> Vec<Vec<T>> {
    let mut out: Vec<Vec<T>> = vec![vec![]];
    let mut layer: Vec<Vec<T>> = vec![vec![]];
    for _ in 0..k {
        let mut next = vec![];
        for s in &layer {
            for x in pool {
                let mut t = s.clone();
                t.push(x.clone());
                out.push(t.clone());
                next.push(t);
            }
        }
        layer = next;
    }
    out
}

fn where_text(w: &[&str]) -> String {
    if w.is_empty() {
        String::new()
    } else {
        format!(" where {}", w.join(", "))
    }
}

fn variance_attrs(n: usize) -> Vec<String> {
    let names = ["Covariant", "Contravariant", "Invariant"];
    let mut out = vec![String::new()];
    if n == 0 {
        out.push("#[variance()] ".to_string());
        return out;
    }
    out.push(format!("#[variance({})] ", vec!["Invariant"; n].join(", ")));
    out.push(format!("#[variance({})] ", vec!["Covariant"; n].join(", ")));
    out.push(format!(
        "#[variance({})] ",
        (0..n).map(|i| names[(i + 1) % 3]).collect::<Vec<_>>().join(", ")
    ));
    out
}

fn flag_subsets(flags: &[&str]) -> Vec<String> {
    // subsets keep the order the grammar demands
    (0u32..(1 << flags.len()))
        .map(|m| {
            flags
                .iter()
                .enumerate()
                .filter(|(i, _)| m & (1 << i) != 0)
                .map(|(_, f)| format!("#[{}] ", f))
                .collect::<String>()
        })
        .collect()
}

type Chunk = Box<dyn Fn() -> Vec<String> + Send + Sync>;

struct Family {
    name: &'static str,
    chunks: Vec<Chunk>,
}

/// body of an ADT of the given form for a list of field types
fn adt_text(form: usize, attrs: &str, pl: &str, wh: &str, fields: &[&str]) -> String {
    match form {
        0 => format!(
            "{}struct Adt{}{} {{ {} }}",
            attrs,
            pl,
            wh,
            fields.iter().enumerate().map(|(i, t)| format!("f{}: {}", i, t)).collect::<Vec<_>>().join(", ")
        ),
        1 => format!(
            "{}enum Adt{}{} {{ V0 {{ {} }}, V1 {{ }} }}",
            attrs,
            pl,
            wh,
            fields.iter().enumerate().map(|(i, t)| format!("f{}: {}", i, t)).collect::<Vec<_>>().join(", ")
        ),
        _ => format!(
            "{}enum Adt{}{} {{ {}Unit }}",
            attrs,
            pl,
            wh,
            fields.iter().enumerate().map(|(i, t)| format!("W{}({}), ", i, t)).collect::<String>()
        ),
    }
}

fn pls(thorough: bool) -> Vec<(&'static str, &'static str)> {
    let mut v: Vec<_> = PLS_QUICK.to_vec();
    if thorough {
        v.extend(PLS_MORE.iter().cloned());
    }
    v
}

fn families(thorough: bool) -> Vec<Family> {
    let mut fams: Vec<Family> = vec![];
    let kw_big = if thorough { 3 } else { 2 };

    // ---- ADT attributes: kind x flag subsets x variance x repr x parameter list
    {
        let mut chunks: Vec<Chunk> = vec![];
        for form in 0..2usize {
            for (pl, scope) in [("", ""), ("<T>", "T"), ("<'a, T>", "Ta"), ("<T, const N>", "TN"), ("<'a, 'b>", "ab")] {
                chunks.push(Box::new(move || {
                    let field = if scope.contains('T') { "T" } else { "u32" };
                    let mut out = vec![];
                    for var in variance_attrs(n_params(pl)) {
                        for fl in flag_subsets(&["upstream", "fundamental", "phantom_data", "one_zst"]) {
                            for repr in [
                                "",
                                "#[repr(C)] ",
                                "#[repr(packed)] ",
                                "#[repr(C)] #[repr(packed)] ",
                                "#[repr(packed)] #[repr(C)] ",
                                "#[repr(u8)] ",
                                "#[repr(C)] #[repr(i32)] ",
                                "#[repr(isize)] #[repr(packed)] ",
                            ] {
                                let attrs = format!("{}{}{}", var, fl, repr);
                                out.push(adt_text(form, &attrs, pl, "", &[field]));
                            }
                        }
                    }
                    out
                }));
            }
        }
        fams.push(Family { name: "adt_attrs", chunks });
    }

    // ---- ADT bodies: form x parameter list x field lists x where-clause subsets
    {
        let mut chunks: Vec<Chunk> = vec![];
        for form in 0..3usize {
            for (pl, scope) in pls(thorough) {
                chunks.push(Box::new(move || {
                    let tys = avail(TYPES_MAIN, scope);
                    let wcs = avail(WCS, scope);
                    let mut out = vec![];
                    for fields in lists_upto(&tys, 2) {
                        for w in subsets_upto(&wcs, kw_big) {
                            // quick: at most 3 fields + where-clauses together
                            if !thorough && fields.len() + w.len() > 3 {
                                continue;
                            }
                            out.push(adt_text(form, "", pl, &where_text(&w), &fields));
                        }
                    }
                    out
                }));
            }
        }
        fams.push(Family { name: "adt_body", chunks });
    }

    // ---- trait attributes: flag subsets x lang attribute x shape
    {
        const LANGS: &[&str] = &[
            "sized", "copy", "clone", "drop", "fn_once", "fn_mut", "fn", "async_fn_once", "async_fn_mut",
            "async_fn", "unsize", "unpin", "coerce_unsized", "discriminant_kind", "coroutine",
            "dispatch_from_dyn", "tuple_trait", "pointee_trait", "fn_ptr_trait", "future",
        ];
        const SHAPES: &[(&str, &str, &str)] = &[
            ("", "", ""),
            ("<T>", "", ""),
            ("", "", " type P; "),
            ("", " where Self: Tr", ""),
            ("<'a, T>", " where T: 'a", " type P<V>: Tr where V: 'a; "),
        ];
        let mut chunks: Vec<Chunk> = vec![];
        for (si, _) in SHAPES.iter().enumerate() {
            chunks.push(Box::new(move || {
                let (pl, wh, body) = SHAPES[si];
                let mut langs: Vec<String> = vec![String::new()];
                let ls: &[&str] = if si == 0 { LANGS } else { &LANGS[..3] };
                langs.extend(ls.iter().map(|l| format!("#[lang({})] ", l)));
                let mut out = vec![];
                for fl in flag_subsets(&[
                    "auto",
                    "marker",
                    "upstream",
                    "fundamental",
                    "non_enumerable",
                    "coinductive",
                    "object_safe",
                ]) {
                    for lang in &langs {
                        out.push(format!("{}{}trait Tst{}{} {{{}}}", fl, lang, pl, wh, body));
                    }
                }
                out
            }));
        }
        fams.push(Family { name: "trait_attrs", chunks });
    }

    // ---- trait bodies: parameter list x associated type shape x where-clause subsets
    {
        // (text, scope letters needed); V / 'v / M are the associated type's own parameters
        const ASSOC: Pool = &[
            ("", ""),
            ("type P;", ""),
            ("type P: Tr;", ""),
            ("type P: Tr + Tr2<u32>;", ""),
            ("type P: Au + Tr;", ""),
            ("type P: TrA<A = u32>;", ""),
            ("type P: forall<'x> TrL<'x>;", ""),
            ("type P<V>;", ""),
            ("type P<'v>;", ""),
            ("type P<const M>;", ""),
            ("type P<V, 'v>;", ""),
            ("type P<V>: Tr2<V>;", ""),
            ("type P<V> where V: Tr;", ""),
            ("type P where Self: Tr;", ""),
            ("type P<V> where V: TrA<A = V>;", ""),
            ("type P<'v>: TrL<'v> where Self: 'v;", ""),
            ("type P: Tr2<T>;", "T"),
            ("type P<V> where T: Tr2<V>, V: Tr2<Self>;", "T"),
            ("type P<'v> where T: 'v, 'a: 'v;", "Ta"),
            ("type P<V>: TrG<T, B<V> = Self>;", "T"),
            ("type P: TrL<'a>;", "a"),
            ("type P<V>: Tr2<[V; N]>;", "N"),
            ("type P; type Q;", ""),
            ("type P: Tr; type Q<V>: Tr2<V> where V: Tr;", ""),
            ("type P<V>; type Q: Tr2<T>;", "T"),
        ];
        let flagsets: Vec<&'static str> = if thorough {
            vec!["", "#[marker] ", "#[non_enumerable] #[coinductive] ", "#[upstream] #[fundamental] #[object_safe] #[lang(clone)] "]
        } else {
            vec!["", "#[marker] #[object_safe] "]
        };
        let mut chunks: Vec<Chunk> = vec![];
        for fl in flagsets {
            for (pl, scope) in pls(thorough) {
                chunks.push(Box::new(move || {
                    let scope_s = format!("{}S", scope);
                    let assoc = avail(ASSOC, scope);
                    let wcs = avail(WCS, &scope_s);
                    let mut out = vec![];
                    for a in &assoc {
                        for w in subsets_upto(&wcs, 2) {
                            out.push(format!("{}trait Tst{}{} {{ {} }}", fl, pl, where_text(&w), a));
                        }
                    }
                    out
                }));
            }
        }
        fams.push(Family { name: "trait_body", chunks });
    }

    // ---- impls: polarity x upstream x parameter list x trait ref (+ values) x self type x where
    {
        const TREFS: Pool = &[
            ("Tr", ""),
            ("Tr2<u32>", ""),
            ("Tr2<T>", "T"),
            ("Tr2<G<U>>", "U"),
            ("TrL<'a>", "a"),
            ("TrL<'static>", ""),
            ("Tr2<C<N>>", "N"),
        ];
        // values of `TrG<_>::B<Y>`
        const GVALS: Pool = &[
            ("Y", ""),
            ("G<Y>", ""),
            ("S0", ""),
            ("<Y as TrA>::A", ""),
            ("(T, Y)", "T"),
            ("&'a Y", "a"),
            ("<T as TrG<Y>>::B<U>", "TU"),
            ("[Y; N]", "N"),
        ];
        let mut chunks: Vec<Chunk> = vec![];
        for neg in [false, true] {
            for up in [false, true] {
                for (pl, scope) in pls(thorough) {
                    chunks.push(Box::new(move || {
                        let tys = avail(TYPES_MAIN, scope);
                        let wcs = avail(WCS, scope);
                        let kw = if thorough { 2 } else { 1 };
                        // (trait ref, body)
                        let mut heads: Vec<(String, String)> = vec![];
                        for t in avail(TREFS, scope) {
                            heads.push((t.to_string(), String::new()));
                        }
                        for v in &tys {
                            heads.push(("TrA".to_string(), format!(" type A = {}; ", v)));
                        }
                        for targ in ["u32", "T"] {
                            if targ == "T" && !scope.contains('T') {
                                continue;
                            }
                            for v in avail(GVALS, scope) {
                                heads.push((format!("TrG<{}>", targ), format!(" type B<Y> = {}; ", v)));
                            }
                        }
                        // a negative impl with values never lowers; keep one witness of that
                        if neg {
                            heads.retain(|(t, b)| b.is_empty() || (t == "TrA" && b.contains("= u32")));
                        }
                        let selfs: Vec<&str> = if thorough { tys.clone() } else { tys.iter().cloned().step_by(2).collect() };
                        let mut out = vec![];
                        for (tref, body) in &heads {
                            for s in &selfs {
                                for w in subsets_upto(&wcs, kw) {
                                    out.push(format!(
                                        "{}impl{} {}{} for {}{} {{{}}}",
                                        if up { "#[upstream] " } else { "" },
                                        pl,
                                        if neg { "!" } else { "" },
                                        tref,
                                        s,
                                        where_text(&w),
                                        body
                                    ));
                                }
                            }
                        }
                        out
                    }));
                }
            }
        }
        fams.push(Family { name: "impl", chunks });
    }

    // ---- opaque types: parameter list x bound subsets x hidden type x where-clause, plus a user
    {
        const BOUNDS: Pool = &[
            ("Tr", ""),
            ("Tr2<u32>", ""),
            ("Tr2<T>", "T"),
            ("TrA<A = u32>", ""),
            // the same generic trait at two different argument lists, one with a binding
            ("TrG<u32>", ""),
            ("TrG<S0, B<S0> = u32>", ""),
            ("TrG<T, B<S0> = U>", "TU"),
            ("forall<'x> TrL<'x>", ""),
            ("TrL<'a>", "a"),
            ("Tr2<C<N>>", "N"),
            ("Au", ""),
        ];
        let mut chunks: Vec<Chunk> = vec![];
        for (pl, scope) in pls(thorough) {
            chunks.push(Box::new(move || {
                let tys = avail(TYPES_MAIN, scope);
                let bounds = avail(BOUNDS, scope);
                let mut whs: Vec<&str> = vec!["", " where S0: Tr"];
                if scope.contains('T') {
                    whs.push(" where T: Tr");
                }
                // how a user names this opaque type
                let args: Vec<&str> = pl
                    .trim_start_matches('<')
                    .trim_end_matches('>')
                    .split(',')
                    .map(|s| s.trim())
                    .filter(|s| !s.is_empty())
                    .map(|s| s.trim_start_matches("const "))
                    .collect();
                let use_ty = if args.is_empty() { "Op".to_string() } else { format!("Op<{}>", args.join(", ")) };
                let mut out = vec![];
                for b in subsets_upto(&bounds, 2) {
                    for h in &tys {
                        for wh in &whs {
                            out.push(format!(
                                "opaque type Op{}{}{}{} = {};\nstruct UseOp{} {{ f: {} }}",
                                pl,
                                if b.is_empty() { "" } else { ": " },
                                b.join(" + "),
                                wh,
                                h,
                                pl,
                                use_ty
                            ));
                        }
                    }
                }
                out
            }));
        }
        fams.push(Family { name: "opaque", chunks });
    }

    // ---- fn definitions, attributes: variance x safety x ABI x variadic x parameter list
    {
        let mut chunks: Vec<Chunk> = vec![];
        for (pl, scope) in [("", ""), ("<T>", "T"), ("<'a, T>", "Ta"), ("<T, const N>", "TN")] {
            chunks.push(Box::new(move || {
                let arg = if scope.contains('T') { "T" } else { "u32" };
                let mut out = vec![];
                for var in variance_attrs(n_params(pl)) {
                    for safety in ["", "unsafe "] {
                        for abi in ["", "extern \"C\" ", "extern \"Rust\" "] {
                            for args in [String::new(), format!("x: {}", arg), format!("x: {}, y: ...", arg)] {
                                for ret in ["", " -> u32"] {
                                    out.push(format!("{}{}{}fn fun{}({}){};", var, safety, abi, pl, args, ret));
                                }
                            }
                        }
                    }
                }
                out
            }));
        }
        fams.push(Family { name: "fn_attrs", chunks });
    }

    // ---- fn definitions, bodies: parameter list x argument lists x return x where-clause subsets
    {
        let mut chunks: Vec<Chunk> = vec![];
        for (pl, scope) in pls(thorough) {
            chunks.push(Box::new(move || {
                let tys = avail(TYPES_MAIN, scope);
                let wcs = avail(WCS, scope);
                let mut rets: Vec<String> = vec![String::new()];
                rets.extend(tys.iter().step_by(3).map(|t| format!(" -> {}", t)));
                let mut out = vec![];
                for args in lists_upto(&tys, 2) {
                    for r in &rets {
                        for w in subsets_upto(&wcs, if thorough { 2 } else { 1 }) {
                            out.push(format!(
                                "fn fun{}({}){}{};",
                                pl,
                                args.iter().enumerate().map(|(i, t)| format!("x{}: {}", i, t)).collect::<Vec<_>>().join(", "),
                                r,
                                where_text(&w)
                            ));
                        }
                    }
                }
                out
            }));
        }
        fams.push(Family { name: "fn_body", chunks });
    }

    // ---- type forms, one at a time, in every position a type can occur
    {
        let mut chunks: Vec<Chunk> = vec![];
        chunks.push(Box::new(move || {
            let pl = "<'a, 'b, T, U, const N>";
            let pre = "opaque type Op: Tr = S0;\nopaque type OpG<X>: Tr2<X> = G<X>;\n";
            let mut out = vec![];
            for (t, _) in TYPES_MAIN.iter().chain(TYPES_EXTRA.iter()) {
                let pre = format!("{}type `{}`\n{}", TAG, t, pre);
                out.push(format!("{}struct Adt{} {{ f: {} }}", pre, pl, t));
                out.push(format!("{}enum Adt{} {{ V0 {{ f: {}, g: {} }} }}", pre, pl, t, t));
                out.push(format!("{}impl{} Tr for {} {{}}", pre, pl, t));
                out.push(format!("{}impl{} Tr2<{}> for S0 {{}}", pre, pl, t));
                out.push(format!("{}impl{} TrA for S0 {{ type A = {}; }}", pre, pl, t));
                out.push(format!("{}fn fun{}(x: {}) -> {};", pre, pl, t, t));
                out.push(format!("{}struct Adt{} where {}: Tr {{ }}", pre, pl, t));
                out.push(format!("{}struct Adt{} where S0: TrA<A = {}> {{ }}", pre, pl, t));
                out.push(format!("{}opaque type Op2{}: Tr = {};", pre, pl, t));
                out.push(format!("{}trait Tst{} {{ type P: Tr2<{}>; }}", pre, pl, t));
            }
            out
        }));
        fams.push(Family { name: "types", chunks });
    }

    // ---- name clashes: every assignment of pool names to the name slots of two skeletons.
    // Pool: two ordinary names, a name that looks like the writer's disambiguation
    // suffix (`X_1`), and a name that looks like the writer's names for bound
    // variables (`_1_0`).
    {
        let pool: Vec<&'static str> = vec!["X", "Y", "X_1", "_1_0"];
        let pool2 = pool.clone();
        let mut chunks: Vec<Chunk> = vec![];
        chunks.push(Box::new(move || {
            let mut out = vec![];
            // slots: A adt, B trait, C assoc type, D opaque type, E fn, P type parameter
            for asg in lists_upto(&pool, 6).into_iter().filter(|l| l.len() == 6) {
                let (a, b, c, d, e, p) = (asg[0], asg[1], asg[2], asg[3], asg[4], asg[5]);
                out.push(format!(
                    "struct {a} {{}}\ntrait {b} {{ type {c}; }}\nopaque type {d}: {b} = {a};\nimpl {b} for {a} {{ type {c} = {a}; }}\nstruct User<{p}> where {p}: {b}<{c} = {a}> {{ f1: {d}, f2: {p}, f3: <{p} as {b}>::{c}, f4: {a} }}\nfn {e}(x: {a}) -> {d};",
                    a = a, b = b, c = c, d = d, e = e, p = p
                ));
            }
            out
        }));
        chunks.push(Box::new(move || {
            let mut out = vec![];
            // two traits with an associated type each, a generic ADT using both
            for asg in lists_upto(&pool2, 5).into_iter().filter(|l| l.len() == 5) {
                let (b1, c1, b2, c2, a) = (asg[0], asg[1], asg[2], asg[3], asg[4]);
                if b1 == b2 {
                    continue; // same namespace: the second would silently shadow the first
                }
                out.push(format!(
                    "trait {b1} {{ type {c1}; }}\ntrait {b2} {{ type {c2}: {b1}; }}\nstruct {a}<T> where T: {b1}, T: {b2} {{ f: <T as {b2}>::{c2}, g: <<T as {b2}>::{c2} as {b1}>::{c1} }}\nimpl<T> {b1} for {a}<T> {{ type {c1} = {a}<T>; }}",
                    b1 = b1, c1 = c1, b2 = b2, c2 = c2, a = a
                ));
            }
            out
        }));
        fams.push(Family { name: "clash", chunks });
    }

    fams
}

// ---------------------------------------------------------------------------
// running one case

fn slug(s: &str, max: usize) -> String {
    let mut out = String::new();
    let mut prev_digit = false;
    for ch in s.chars() {
        if out.len() >= max {
            break;
        }
        if ch.is_ascii_digit() {
            if !prev_digit {
                out.push('N');
            }
            prev_digit = true;
            continue;
        }
        prev_digit = false;
        if ch.is_ascii_alphanumeric() || ch == '_' || ch == '\'' {
            out.push(ch);
        } else if !out.ends_with('-') {
            out.push('-');
        }
    }
    out.trim_matches('-').to_string()
}

/// Root-cause class of a parse / lowering error message: first line, numbers
/// abstracted; in the clash family the pool names are abstracted too.
fn err_site(msg: &str, scrub_names: bool) -> String {
    let mut line = msg.lines().next().unwrap_or("").to_string();
    for pre in ["parse: parse error: ", "lower: "] {
        if let Some(rest) = line.strip_prefix(pre) {
            line = rest.to_string();
        }
    }
    if scrub_names {
        for n in ["`X_1`", "`_1_0`", "`X`", "`Y`"] {
            line = line.replace(n, "`?`");
        }
    }
    slug(&line, 70)
}

struct Found {
    v: Violation,
    size: usize,
    text0: String,
}

struct Ctx {
    found: Mutex<Vec<Found>>,
    seen: Vec<Mutex<HashSet<(u64, u64)>>>,
    /// (family, position) -> sample; the evidence gets one per family, deterministically
    samples: Mutex<BTreeMap<(usize, usize), serde_json::Value>>,
}

fn hash2(s: &str) -> (u64, u64) {
    let mut h1 = DefaultHasher::new();
    s.hash(&mut h1);
    let mut h2 = DefaultHasher::new();
    0xC22u32.hash(&mut h2);
    s.hash(&mut h2);
    s.len().hash(&mut h2);
    (h1.finish(), h2.finish())
}

/// class of the names used by a clash-family program (root-cause discriminator)
fn clash_class(text0: &str) -> &'static str {
    match (text0.contains("X_1"), text0.contains("_1_0")) {
        (false, false) => "plain-names",
        (true, false) => "alias-like-name",
        (false, true) => "binder-like-name",
        (true, true) => "alias-and-binder-like-names",
    }
}

const TAG: &str = "// feature under test: ";

/// What went wrong in which stage; turned into a violation by `Reporter`.
struct Reporter<'a> {
    cx: &'a Ctx,
    family: &'static str,
    text0: &'a str,
    /// root-cause discriminator that replaces the difference label: the type
    /// form under test (`types` family) or the class of names (`clash` family)
    cause: Option<String>,
}

impl<'a> Reporter<'a> {
    fn new(cx: &'a Ctx, family: &'static str, text0: &'a str) -> Self {
        let cause = if let Some(i) = text0.find(TAG) {
            let rest = &text0[i + TAG.len()..];
            Some(cause_slug(rest.lines().next().unwrap_or("")))
        } else if family == "clash" {
            Some(format!("names@{}", clash_class(text0)))
        } else {
            None
        };
        Reporter { cx, family, text0, cause }
    }

    fn push(&self, kind: &str, site: String, what: String, extra: serde_json::Value) {
        let mut input = json!({"family": self.family, "text0": self.text0});
        if let (Some(m), Some(e)) = (input.as_object_mut(), extra.as_object()) {
            for (k, v) in e {
                m.insert(k.clone(), v.clone());
            }
        }
        self.cx.found.lock().unwrap().push(Found {
            v: Violation { property: "C22".into(), kind: kind.into(), site, what, input },
            size: self.text0.len(),
            text0: self.text0.to_string(),
        });
    }

    /// `stage` = write | reparse | rewrite | rereparse; `label` = what differs / error class
    fn deviation(&self, kind: &str, stage: &str, label: &str, what: String, extra: serde_json::Value) {
        let site = match &self.cause {
            Some(c) => format!("{}/{}", stage, c),
            None => format!("{}/{}", stage, label),
        };
        self.push(kind, site, what, extra);
    }

    fn panic(&self, stage: &str, loc: &str, msg: &str, extra: serde_json::Value) {
        let mut e = extra;
        if let Some(m) = e.as_object_mut() {
            m.insert("stage".into(), json!(stage));
        }
        self.push(
            "panic",
            panic_site(loc, msg),
            format!("{} panics at {}: {}", stage, loc, msg),
            e,
        );
    }

    /// one violation per differing label (so that one known deficiency cannot hide another)
    fn differences(&self, kind: &str, stage: &str, a: &Program, b: &Program, extra: serde_json::Value) {
        let ds = diffs(a, b);
        if self.cause.is_some() {
            let all = ds.iter().map(|(_, d)| d.as_str()).collect::<Vec<_>>().join(" ;; ");
            let mut e = extra;
            if let Some(m) = e.as_object_mut() {
                m.insert("difference".into(), json!(all));
            }
            self.deviation(kind, stage, "", format!("the reparsed program differs: {}", ds[0].1), e);
            return;
        }
        for (site, detail) in ds {
            let mut e = extra.clone();
            if let Some(m) = e.as_object_mut() {
                m.insert("difference".into(), json!(detail));
            }
            self.deviation(kind, stage, &site, format!("the reparsed program differs in {}", detail), e);
        }
    }
}

/// like `slug`, but keeps digits (`u32`) and spells out `...`
fn cause_slug(s: &str) -> String {
    let s = s.replace("...", "VARIADIC");
    let mut out = String::new();
    for ch in s.chars() {
        if ch.is_ascii_alphanumeric() || ch == '_' || ch == '\'' {
            out.push(ch);
        } else if !out.ends_with('-') {
            out.push('-');
        }
    }
    out.trim_matches('-').to_string()
}

fn first_line(s: &str) -> &str {
    s.lines().next().unwrap_or("")
}

fn run_case(
    cx: &Ctx,
    family: &'static str,
    text0: &str,
    counts: &mut BTreeMap<String, u64>,
    sample_key: Option<(usize, usize)>,
) {
    let mut bump = |k: &str| *counts.entry(k.to_string()).or_insert(0) += 1;
    bump("programs_generated");
    let h = hash2(text0);
    {
        let shard = &cx.seen[(h.0 % cx.seen.len() as u64) as usize];
        if !shard.lock().unwrap().insert(h) {
            bump("duplicate_texts_skipped");
            return;
        }
    }
    let is_clash = family == "clash";
    let r = Reporter::new(cx, family, text0);

    // ---- first lowering: rejected programs are outside the quantifier
    bump("load_calls");
    let p0 = match drive::guarded(|| load(text0)) {
        Caught::Ok(Ok(p)) => p,
        Caught::Ok(Err(_)) => {
            bump("rejected_first_lowering");
            bump(&format!("rejected_first_lowering/{}", family));
            return;
        }
        Caught::Panic(loc, msg) => {
            r.panic("lower(text0)", &loc, &msg, json!({}));
            return;
        }
        _ => return,
    };
    if uses_fn_def_type(&p0) {
        bump("outside_space_fn_def_type");
        return;
    }
    bump("accepted");
    bump(&format!("accepted/{}", family));
    let eq = has_eq_bound(&p0);
    let clash = has_name_clash(&p0);
    if is_nontrivial(&p0) {
        bump("nontrivial");
    }
    if eq {
        bump("with_equality_bound");
    }
    if clash {
        bump("with_name_clash");
    }

    // ---- render
    bump("write_calls");
    let text1 = match drive::guarded(|| write_program(&p0)) {
        Caught::Ok(Ok(t)) => t,
        Caught::Ok(Err(_)) => {
            r.deviation("write-error", "write", "fmt-error", "write_items returned fmt::Error".into(), json!({}));
            return;
        }
        Caught::Panic(loc, msg) => {
            r.panic("write(P0)", &loc, &msg, json!({}));
            return;
        }
        _ => return,
    };
    if let Some(k) = sample_key {
        cx.samples
            .lock()
            .unwrap()
            .insert(k, json!({"family": family, "text0": text0, "text1": text1}));
    }

    // ---- reparse
    bump("load_calls");
    let p1 = match drive::guarded(|| load(&text1)) {
        Caught::Ok(Ok(p)) => p,
        Caught::Ok(Err(e)) => {
            r.deviation(
                "reparse-fails",
                "reparse",
                &err_site(&e, is_clash),
                format!("the rendered program does not parse/lower: {}", first_line(&e)),
                json!({"text1": text1, "error": e}),
            );
            return;
        }
        Caught::Panic(loc, msg) => {
            r.panic("lower(text1)", &loc, &msg, json!({"text1": text1}));
            return;
        }
        _ => return,
    };

    // ---- equivalence of P1 and P0
    if *p1 == *p0 {
        bump("round1_literally_equal");
    } else {
        if let Err(e) = check_name_bijection(&p0, &p1) {
            r.deviation(
                "name-map-inconsistent",
                "write",
                "names",
                format!("item names are not mapped through a bijection: {}", e),
                json!({"text1": text1}),
            );
            return;
        }
        let n0 = normalize(&p0, None);
        let n1 = normalize(&p1, Some(&p0));
        if n0 != n1 {
            r.differences("not-equivalent", "write", &n0, &n1, json!({"text1": text1}));
            return;
        }
        bump("round1_equal_after_normalization");
        if !eq && !clash {
            bump("round1_only_where_clause_order_differs");
        }
    }

    // ---- second round
    bump("write_calls");
    let text2 = match drive::guarded(|| write_program(&p1)) {
        Caught::Ok(Ok(t)) => t,
        Caught::Ok(Err(_)) => {
            r.deviation("write-error", "rewrite", "fmt-error", "write_items returned fmt::Error on P1".into(), json!({"text1": text1}));
            return;
        }
        Caught::Panic(loc, msg) => {
            r.panic("write(P1)", &loc, &msg, json!({"text1": text1}));
            return;
        }
        _ => return,
    };
    bump("load_calls");
    let p2 = match drive::guarded(|| load(&text2)) {
        Caught::Ok(Ok(p)) => p,
        Caught::Ok(Err(e)) => {
            r.deviation(
                "round2-reparse-fails",
                "rereparse",
                &err_site(&e, is_clash),
                format!("the second rendering does not parse/lower: {}", first_line(&e)),
                json!({"text1": text1, "text2": text2, "error": e}),
            );
            return;
        }
        Caught::Panic(loc, msg) => {
            r.panic("lower(text2)", &loc, &msg, json!({"text1": text1, "text2": text2}));
            return;
        }
        _ => return,
    };
    bump("round2_checked");
    // Strong reading: P1 must reproduce itself exactly. It is demanded unless one
    // of the two blessed sources of non-convergence applies to P1 itself: an
    // equality bound (gains one more duplicate), or names that clash in P1 (the
    // writer legitimately renames again).
    if !eq && !has_name_clash(&p1) {
        if text2 != text1 {
            let line = text1
                .lines()
                .zip(text2.lines())
                .find(|(a, b)| a != b)
                .map(|(a, b)| format!("`{}` -> `{}`", a, b))
                .unwrap_or_else(|| "different number of lines".into());
            r.deviation(
                "round2-text-differs",
                "rewrite",
                "text",
                format!("second rendering differs from the first: {}", line),
                json!({"text1": text1, "text2": text2}),
            );
            return;
        }
        if *p2 != *p1 {
            r.differences("round2-not-equivalent", "rewrite", &p1, &p2, json!({"text1": text1, "text2": text2}));
            return;
        }
        bump("round2_byte_identical");
    } else {
        if let Err(e) = check_name_bijection(&p1, &p2) {
            r.deviation("name-map-inconsistent", "rewrite", "names", e, json!({"text1": text1, "text2": text2}));
            return;
        }
        let n1 = normalize(&p1, None);
        let n2 = normalize(&p2, Some(&p1));
        if n1 != n2 {
            r.differences("round2-not-equivalent", "rewrite", &n1, &n2, json!({"text1": text1, "text2": text2}));
            return;
        }
        bump("round2_equal_after_normalization");
    }

    // ---- same program through the name-collapsing view (see `CollapsedNames`).
    // Only reached when the plain round trip is fine, so whatever goes wrong
    // here is caused by how the writer tells equally named items apart.
    bump("write_calls");
    let text1c = match drive::guarded(|| write_program_collapsed(&p0)) {
        Caught::Ok(Ok(t)) => t,
        Caught::Ok(Err(_)) => {
            r.push("write-error", "write/collapsed-names".into(), "write_items returned fmt::Error".into(), json!({"names": "collapsed"}));
            return;
        }
        Caught::Panic(loc, msg) => {
            r.panic("write(P0, all names `Foo`)", &loc, &msg, json!({"names": "collapsed"}));
            return;
        }
        _ => return,
    };
    bump("load_calls");
    let p1c = match drive::guarded(|| load(&text1c)) {
        Caught::Ok(Ok(p)) => p,
        Caught::Ok(Err(e)) => {
            r.push(
                "reparse-fails",
                "reparse/collapsed-names".into(),
                format!("with every item named `Foo`, the rendered program does not parse/lower: {}", first_line(&e)),
                json!({"names": "collapsed", "text1": text1c, "error": e}),
            );
            return;
        }
        Caught::Panic(loc, msg) => {
            r.panic("lower(text1, all names `Foo`)", &loc, &msg, json!({"names": "collapsed", "text1": text1c}));
            return;
        }
        _ => return,
    };
    if let Err(e) = check_name_bijection(&p0, &p1c) {
        r.push(
            "name-map-inconsistent",
            "write/collapsed-names".into(),
            format!("with every item named `Foo`, names are not disambiguated through a bijection: {}", e),
            json!({"names": "collapsed", "text1": text1c}),
        );
        return;
    }
    let n0 = normalize(&p0, None);
    let n1 = normalize(&p1c, Some(&p0));
    if n0 != n1 {
        let ds = diffs(&n0, &n1);
        r.push(
            "not-equivalent",
            "write/collapsed-names".into(),
            format!("with every item named `Foo`, the reparsed program differs in {}", ds[0].1),
            json!({"names": "collapsed", "text1": text1c,
                   "difference": ds.iter().map(|(_, d)| d.as_str()).collect::<Vec<_>>().join(" ;; ")}),
        );
        return;
    }
    bump("collapsed_names_round_trip_ok");
}

/// Re-executes one recorded case (`input` of a replay file: needs `text0`,
/// optionally `family`) and prints the renderings and every deviation found.
/// Not wired into `main.rs::replay` (which is solver specific); call it from
/// there when `input["text0"]` is present.
#[allow(dead_code)]
pub fn replay_c22(input: &serde_json::Value) -> i32 {
    let Some(text0) = input["text0"].as_str() else {
        println!("replay input has no text0");
        return 2;
    };
    let family = match input["family"].as_str() {
        Some("clash") => "clash",
        Some("types") => "types",
        _ => "replay",
    };
    let cx = Ctx {
        found: Mutex::new(vec![]),
        seen: (0..1).map(|_| Mutex::new(HashSet::new())).collect(),
        samples: Mutex::new(BTreeMap::new()),
    };
    let mut counts = BTreeMap::new();
    run_case(&cx, family, text0, &mut counts, Some((0, 0)));
    println!("text0:\n{}", text0);
    if let Some(s) = cx.samples.lock().unwrap().get(&(0, 0)) {
        println!("text1:\n{}", s["text1"].as_str().unwrap_or(""));
    }
    println!("counters: {:?}", counts);
    let found = cx.found.into_inner().unwrap();
    for f in &found {
        println!("deviation: kind={} site={} :: {}", f.v.kind, f.v.site, f.v.what);
    }
    if found.is_empty() {
        println!("no deviation");
    }
    0
}

pub fn run_c22(rep: &Report) -> i32 {
    let thorough = rep.is_thorough();
    let fams = families(thorough);
    let cx = Ctx {
        found: Mutex::new(vec![]),
        seen: (0..256).map(|_| Mutex::new(HashSet::new())).collect(),
        samples: Mutex::new(BTreeMap::new()),
    };
    // smallest families first
    for (fi, fam) in fams.iter().enumerate() {
        let name = fam.name;
        let n_chunks = fam.chunks.len();
        fam.chunks.par_iter().enumerate().for_each(|(ci, chunk)| {
            let texts = chunk();
            let n = texts.len();
            // per-chunk local counters, merged once
            let merged: BTreeMap<String, u64> = texts
                .par_iter()
                .enumerate()
                .fold(BTreeMap::new, |mut acc: BTreeMap<String, u64>, (i, item)| {
                    let text0 = format!("{}{}", CTX, item);
                    // sample candidates: a few fixed positions of each family's last chunk
                    let key = if ci + 1 == n_chunks && (i == n / 2 || i == n / 3 || i + 1 == n) {
                        Some((fi, i))
                    } else {
                        None
                    };
                    run_case(&cx, name, &text0, &mut acc, key);
                    acc
                })
                .reduce(BTreeMap::new, |mut a, b| {
                    for (k, v) in b {
                        *a.entry(k).or_insert(0) += v;
                    }
                    a
                });
            rep.merge_counts(&merged);
        });
    }

    // one sample per family (largest position = a full-size case), at most 8
    {
        let samples = cx.samples.lock().unwrap();
        let mut last_of_family: BTreeMap<usize, &serde_json::Value> = BTreeMap::new();
        for ((fi, _), v) in samples.iter() {
            last_of_family.insert(*fi, v);
        }
        for v in last_of_family.values() {
            rep.sample((*v).clone());
        }
    }

    // deterministic, smallest-first reporting
    let mut found = cx.found.into_inner().unwrap();
    found.sort_by(|a, b| (a.size, &a.text0).cmp(&(b.size, &b.text0)));
    // (the report keeps the first cases of each (kind, site) group and counts the rest)
    let mut per_group: BTreeMap<(String, String), u64> = BTreeMap::new();
    for f in found {
        *per_group.entry((f.v.kind.clone(), f.v.site.clone())).or_insert(0) += 1;
        rep.violation(f.v);
    }
    rep.note(
        "deviation_groups",
        json!(per_group
            .iter()
            .map(|((k, s), n)| json!({"kind": k, "site": s, "programs": n}))
            .collect::<Vec<_>>()),
    );
    rep.note(
        "families",
        json!(fams.iter().map(|f| f.name).collect::<Vec<_>>()),
    );

    let mut must: Vec<String> = vec![
        "accepted".into(),
        "nontrivial".into(),
        "with_equality_bound".into(),
        "with_name_clash".into(),
        "rejected_first_lowering".into(),
        "round1_literally_equal".into(),
        "round1_equal_after_normalization".into(),
        "round2_byte_identical".into(),
        "round2_equal_after_normalization".into(),
        "collapsed_names_round_trip_ok".into(),
    ];
    for f in &fams {
        must.push(format!("accepted/{}", f.name));
    }
    let must_ref: Vec<&str> = must.iter().map(|s| s.as_str()).collect();
    crate::props::c01::vacuity(rep, &must_ref);

    let states = rep.get("accepted");
    let transitions = rep.get("write_calls") + rep.get("load_calls");
    rep.finish(
        states,
        transitions,
        rep.get("nontrivial"),
        "cases = distinct program texts (context items + one generated item group) from exhaustive products of item features per family (ADT attributes, ADT bodies, trait attributes, trait bodies, impls, opaque types, fn definitions, type forms, name-clash assignments) that the first lowering accepts; a case is non-trivial iff in the lowered program some item carries a flag, attribute, repr, non-default variance, non-default fn signature, where-clause, bound, or an associated type with bounds/where-clauses or an impl with associated values",
        true,
        &[
            "the space is the stated finite product per family, not all programs; closures, coroutines, foreign types, custom clauses, int/float variable kinds, fn-def names used as types, `Self` outside traits and dyn types with equality bounds are outside it",
            "where-clause lists (incl. opaque bounds) are compared as sets with the trait bound implied by each equality bound added, and ADT/trait/associated/opaque type names through a per-namespace bijection; everything else literally via Program's Eq",
            "deviating programs are reported smallest first; group sizes are also in coverage.deviation_groups",
            "parsing uses one chalk_parse::parser::ProgramParser per thread (chalk_parse::parse_program builds a new one per call, which is 20x slower); same grammar, same parse entry point",
            "the collapsed-names rendering leaves fn-def names alone (the writer does not disambiguate them) and is only judged for programs whose plain round trip is fine",
        ],
    )
}
