//! C20: the orphan check implements the orphan rules.

use crate::drive::{self, guarded, Caught};
use crate::report::{panic_site, Report, Violation};
use chalk_integration::interner::ChalkIr;
use chalk_integration::SolverChoice;
use chalk_solve::coherence::orphan::perform_orphan_check;
use rayon::prelude::*;
use serde_json::json;

#[derive(Clone, Debug)]
struct Arg {
    text: &'static str,
    local: bool,
    mentions_param: bool,
}

fn menu() -> Vec<Arg> {
    let a = |text, local, mentions_param| Arg { text, local, mentions_param };
    vec![
        a("Local", true, false),
        a("Up", false, false),
        a("FUp<Local>", true, false), // fundamental constructors are looked through
        a("FUp<Up>", false, false),
        a("FUp<T>", false, true),
        a("FUp<FUp<Local>>", true, false),
        a("Up1<T>", false, true),
        a("Up1<u32>", false, false),
        a("Up1<Local>", false, false), // not fundamental: an upstream type stays upstream
        a("u32", false, false),
        a("(u32, u32)", false, false),
        a("(Local, u32)", false, false), // tuples are never local
        a("T", false, true),
        // the impl parameter inside a tuple (first / last element) and inside a two-parameter
        // fundamental constructor (visible means ALL arguments visible, local means SOME argument local)
        a("(u32, T)", false, true),
        a("(T, u32)", false, true),
        a("FUp2<Up, T>", false, true),
        a("FUp2<Local, T>", true, true),
        a("FUp2<Up, u32>", false, false),
    ]
}

pub fn run_c20(rep: &Report) -> i32 {
    let thorough = rep.is_thorough();
    let menu = menu();
    let n = menu.len();
    // (trait is local?, number of trait parameters)
    let mut jobs: Vec<(bool, Vec<usize>)> = vec![];
    for trait_local in [false, true] {
        for a0 in 0..n {
            jobs.push((trait_local, vec![a0]));
            for a1 in 0..n {
                jobs.push((trait_local, vec![a0, a1]));
                for a2 in 0..n {
                    if !thorough && trait_local && a2 % 3 != 0 {
                        continue; // quick: thin the (trivially allowed) local-trait cube
                    }
                    jobs.push((trait_local, vec![a0, a1, a2]));
                }
            }
        }
    }
    rep.note("argument_menu", json!(menu.iter().map(|a| a.text).collect::<Vec<_>>()));
    jobs.par_iter().enumerate().for_each(|(ji, (trait_local, args))| {
        let uses_t = args.iter().any(|a| menu[*a].mentions_param);
        let nparams = args.len() - 1;
        let tparams = ["", "<P0>", "<P0, P1>"][nparams];
        let targs = if nparams == 0 {
            String::new()
        } else {
            format!("<{}>", args[1..].iter().map(|a| menu[*a].text).collect::<Vec<_>>().join(", "))
        };
        let text = format!(
            "struct Local {{}} #[upstream] struct Up {{}} #[upstream] #[fundamental] struct FUp<T> {{}} #[upstream] #[fundamental] struct FUp2<T, U> {{}} #[upstream] struct Up1<T> {{}} \
             {}trait Tr{} {{}} impl{} Tr{} for {} {{}}",
            if *trait_local { "" } else { "#[upstream] " },
            tparams,
            if uses_t { "<T>" } else { "" },
            targs,
            menu[args[0]].text
        );
        let program = match drive::load_program(&text) {
            Ok(p) => p,
            Err(e) => {
                rep.machinery_error(format!("c20 program does not lower: {} :: {}", e, text));
                return;
            }
        };
        rep.count("programs", 1);
        // the orphan rule, as stated by the property
        let mut expected = *trait_local;
        for (i, a) in args.iter().enumerate() {
            if menu[*a].local && args[..i].iter().all(|b| !menu[*b].mentions_param) {
                expected = true;
            }
        }
        if expected {
            rep.count("expected_allowed", 1);
        } else {
            rep.count("expected_rejected", 1);
        }
        let impl_id = *program.impl_data.keys().next().unwrap();
        for choice in [SolverChoice::slg_default(), SolverChoice::recursive_default()] {
            let sname = if matches!(choice, SolverChoice::SLG { .. }) { "slg" } else { "recursive" };
            let r = guarded(|| {
                let mut solver = choice.into_solver();
                perform_orphan_check::<ChalkIr>(&*program, &mut *solver, impl_id).is_ok()
            });
            rep.count("orphan_checks", 1);
            let input = || json!({"program": text, "solver": sname});
            match r {
                Caught::Ok(allowed) => {
                    if allowed != expected {
                        // discriminate by the first argument that makes the difference
                        let blocker = args
                            .iter()
                            .map(|a| menu[*a].text)
                            .find(|t| t.contains("u32") || t.starts_with('('))
                            .map(|_| "builtin-type-before-local")
                            .unwrap_or("other");
                        rep.violation(Violation {
                            property: "C20".into(),
                            kind: if allowed { "accepts-orphan-impl".into() } else { "rejects-legal-impl".into() },
                            site: format!("{}/{}", sname, blocker),
                            what: format!(
                                "orphan check ({}) {} `impl{} Tr{} for {}` ({} trait); the orphan rules {} it",
                                sname,
                                if allowed { "accepts" } else { "rejects" },
                                if uses_t { "<T>" } else { "" },
                                targs,
                                menu[args[0]].text,
                                if *trait_local { "local" } else { "upstream" },
                                if expected { "allow" } else { "forbid" }
                            ),
                            input: input(),
                        });
                    }
                }
                Caught::Panic(loc, msg) => rep.violation(Violation {
                    property: "C20".into(),
                    kind: "panic".into(),
                    site: panic_site(&loc, &msg),
                    what: format!("orphan check ({}) panics: {} :: {}", sname, msg, text),
                    input: input(),
                }),
                _ => {}
            }
        }
        if ji % 701 == 0 {
            rep.sample(json!({"program": text, "expected_allowed": expected}));
        }
    });
    crate::props::c01::vacuity(rep, &["expected_allowed", "expected_rejected"]);
    let states = rep.get("programs");
    let tr = rep.get("orphan_checks");
    let nt = rep.get("programs");
    rep.finish(
        states,
        tr,
        nt,
        "every impl `impl<T?> Tr<A1, A2> for A0` with 1-3 type arguments drawn from a 13-entry menu (local struct, upstream struct, fundamental upstream struct around local/upstream/parameter/nested, non-fundamental upstream struct around parameter/scalar/local, scalar, tuples of scalars / with a local type, bare parameter) of a local or #[upstream] trait, through perform_orphan_check with both solvers; the verdict must equal the orphan rule of the statement; every program is non-trivial (one rule evaluation each)",
        true,
        &["orphan rule: trait local, or some argument is local (looking through fundamental constructors; tuples and non-fundamental upstream constructors are never local) and no earlier argument mentions an impl type parameter"],
    )
}
