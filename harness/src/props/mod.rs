//! One module per property, plus the shared case iterator.

use crate::ast::*;
use crate::drive::{self, Peeled};
use crate::gen;
use crate::oracle::{peel_ast, PeeledAst};
use crate::refsem::Ref;
use crate::report::Report;
use rayon::prelude::*;
use serde_json::json;
use std::sync::Arc;

pub mod c01;
pub mod c03;
pub mod c04;
pub mod c05;
pub mod c06;
pub mod c07;
pub mod c08;
pub mod c09;
pub mod rulecheck;
pub mod c10;
pub mod c11;
pub mod c12;
pub mod c13;
pub mod c14;
pub mod c16;
pub mod c17;
pub mod c18;
pub mod c19;
pub mod c20;
pub mod c21;
pub mod c22;
pub mod c23;
pub mod c24;
pub mod c25;
pub mod c26;
pub mod c27;
pub mod c28;
pub mod c29;
pub mod textcorpus;

pub struct Corpus {
    pub frag: &'static str,
    pub programs: Vec<Program>,
    pub goals: Vec<Goal>,
}

/// The C01 fragment at the given tier.
pub fn core_corpora(thorough: bool, scale: usize) -> Vec<Corpus> {
    // `scale` lets other properties reuse the corpus at reduced weight (0 = full).
    let (w1a, n1a, w1b, n1b, f0n) = match (thorough, scale) {
        (false, 0) => (4, 3, 4, 3, 3),
        (false, _) => (3, 2, 3, 2, 2),
        (true, 0) => (5, 3, 5, 3, 4),
        (true, _) => (4, 3, 4, 3, 3),
    };
    vec![
        Corpus {
            frag: "f0",
            programs: gen::programs_f0(f0n, false),
            goals: gen::goals_f0(),
        },
        Corpus {
            frag: "f0co",
            programs: gen::programs_f0(f0n, true),
            goals: gen::goals_f0(),
        },
        // the four-atom propositional fragment is large: only in the full thorough corpus here
        // (C10 adds it explicitly in both tiers, see `f0x_corpora`)
        Corpus {
            frag: "f0x",
            programs: if thorough && scale == 0 { gen::programs_f0x(3, false) } else { vec![] },
            goals: gen::goals_f0x(),
        },
        Corpus {
            frag: "f0xco",
            programs: if thorough && scale == 0 { gen::programs_f0x(3, true) } else { vec![] },
            goals: gen::goals_f0x(),
        },
        Corpus {
            frag: "f1a",
            programs: gen::programs_f1a(w1a, n1a, false),
            goals: gen::goals_f1a(thorough),
        },
        Corpus {
            frag: "f1aco",
            programs: gen::programs_f1a(w1a.min(4), n1a, true),
            goals: gen::goals_f1a(false),
        },
        Corpus {
            frag: "f1b",
            programs: gen::programs_f1b(w1b, n1b),
            goals: gen::goals_f1b(thorough),
        },
    ]
}

/// The four-atom propositional fragments (history-sensitive checks use them in both tiers).
pub fn f0x_corpora() -> Vec<Corpus> {
    vec![
        Corpus { frag: "f0x", programs: gen::programs_f0x(3, false), goals: gen::goals_f0x() },
        Corpus { frag: "f0xco", programs: gen::programs_f0x(3, true), goals: gen::goals_f0x() },
    ]
}

/// Structural class of a program, used as root-cause discriminator in finding
/// sites: `co-trait-cycle` = some #[coinductive] trait depends on itself
/// through impl where-clauses (via coinductive traits only); `co` = has
/// coinductive traits but no such cycle; `plain` = no coinductive trait.
pub fn program_class(p: &Program) -> &'static str {
    let co: Vec<&str> = p
        .traits
        .iter()
        .filter(|t| t.coinductive)
        .map(|t| t.name.as_str())
        .collect();
    if co.is_empty() {
        return "plain";
    }
    // edges between coinductive traits
    let mut reach: Vec<(String, String)> = vec![];
    for r in &p.impls {
        if !co.contains(&r.head.tr.as_str()) {
            continue;
        }
        for b in &r.body {
            if co.contains(&b.tr.as_str()) {
                reach.push((r.head.tr.clone(), b.tr.clone()));
            }
        }
    }
    // transitive closure (tiny)
    loop {
        let mut add = vec![];
        for (a, b) in &reach {
            for (c, d) in &reach {
                if b == c && !reach.contains(&(a.clone(), d.clone())) && !add.contains(&(a.clone(), d.clone())) {
                    add.push((a.clone(), d.clone()));
                }
            }
        }
        if add.is_empty() {
            break;
        }
        reach.extend(add);
    }
    if reach.iter().any(|(a, b)| a == b) {
        "co-trait-cycle"
    } else {
        "co"
    }
}

pub struct ProgCtx<'a> {
    pub class: &'static str,
    pub frag: &'static str,
    pub pi: usize,
    pub ast: &'a Program,
    pub text: String,
    pub chalk: Arc<chalk_integration::program::Program>,
    pub refm: Ref,
}

pub struct GoalCtx<'a> {
    pub gi: usize,
    pub goal: &'a Goal,
    pub text: String,
    pub peeled: Peeled,
    pub pa: PeeledAst,
}

impl<'a> ProgCtx<'a> {
    pub fn input(&self, g: &GoalCtx, solver: &str) -> serde_json::Value {
        json!({
            "fragment": self.frag, "program_index": self.pi, "goal_index": g.gi,
            "program": self.text, "goal": g.text, "solver": solver,
        })
    }
}

/// Calls `f` for every program of every corpus (in parallel), with the goals prepared.
pub fn for_each_program<F>(rep: &Report, corpora: &[Corpus], f: F)
where
    F: Fn(&ProgCtx, &[GoalCtx]) + Sync,
{
    for c in corpora {
        rep.count(&format!("programs_{}", c.frag), c.programs.len() as u64);
        rep.count("programs", c.programs.len() as u64);
        c.programs.par_iter().enumerate().for_each(|(pi, p)| {
            let text = p.render();
            let chalk = match drive::load_program(&text) {
                Ok(c) => c,
                Err(e) => {
                    rep.machinery_error(format!("program does not lower: {}\n{}", e, text));
                    return;
                }
            };
            let pc = ProgCtx {
                class: program_class(p),
                frag: c.frag,
                pi,
                ast: p,
                text,
                chalk,
                refm: Ref::from_program(p),
            };
            let mut gs = vec![];
            for (gi, g) in c.goals.iter().enumerate() {
                let gt = goal_str(g);
                match drive::peel(&pc.chalk, &gt) {
                    Ok(peeled) => gs.push(GoalCtx {
                        gi,
                        goal: g,
                        text: gt,
                        peeled,
                        pa: peel_ast(g),
                    }),
                    Err(e) => {
                        // goals mentioning a trait/struct the program lacks are skipped silently
                        if !e.contains("invalid") && !e.contains("not found") && !e.contains("Unknown") {
                            rep.machinery_error(format!("goal does not lower: {} :: {}", e, gt));
                        }
                    }
                }
            }
            f(&pc, &gs);
        });
    }
}
