//! C17: combining candidate answers only generalizes (anti-unifier
//! `merge_into_guidance`, `may_invalidate`, `Solution::combine`).

use crate::drive::{self, Caught};
use crate::report::{panic_site, Report, Violation};
use chalk_integration::interner::ChalkIr;
use chalk_ir::cast::Cast;
use chalk_ir::*;
use chalk_solve::{Guidance, Solution};
use rayon::prelude::*;
use serde_json::json;
use std::collections::BTreeMap;

/// Entry terms of canonical substitutions.
#[derive(Clone, Debug, PartialEq, Eq, Hash, PartialOrd, Ord)]
pub enum W {
    /// bound variable of the canonical binder (kind given by position of use)
    B(usize),
    Ph(usize, usize),
    Static,
    LPh(usize, usize),
    C(u32),
    CPh(usize, usize),
    App(&'static str, Vec<W>),
}

#[derive(Copy, Clone, Debug, PartialEq, Eq, Hash, PartialOrd, Ord)]
pub enum K {
    Ty,
    Lt,
    Ct,
}

pub fn show(w: &W) -> String {
    match w {
        W::B(i) => format!("^{}", i),
        W::Ph(u, i) => format!("!{}_{}", u, i),
        W::Static => "'static".into(),
        W::LPh(u, i) => format!("'!{}_{}", u, i),
        W::C(n) => format!("{}", n),
        W::CPh(u, i) => format!("c!{}_{}", u, i),
        W::App(n, a) if a.is_empty() => n.to_string(),
        W::App(n, a) => format!("{}<{}>", n, a.iter().map(show).collect::<Vec<_>>().join(", ")),
    }
}

struct Cx {
    a: AdtId<ChalkIr>,
    b: AdtId<ChalkIr>,
    s: AdtId<ChalkIr>,
    /// `struct L<'a> {}`: an ADT whose argument is a lifetime
    l: AdtId<ChalkIr>,
}

fn usize_ty() -> Ty<ChalkIr> {
    TyKind::Scalar(Scalar::Uint(UintTy::Usize)).intern(ChalkIr)
}

impl Cx {
    fn new() -> Cx {
        let p = drive::load_program("struct A {} struct B {} struct S<T> {} struct L<'a> {}").unwrap();
        let get = |n: &str| *p.adt_ids.iter().find(|(k, _)| k.to_string() == n).unwrap().1;
        Cx { a: get("A"), b: get("B"), s: get("S"), l: get("L") }
    }
    fn lt(&self, w: &W) -> Lifetime<ChalkIr> {
        let i = ChalkIr;
        match w {
            W::B(k) => LifetimeData::BoundVar(BoundVar::new(DebruijnIndex::INNERMOST, *k)).intern(i),
            W::Static => LifetimeData::Static.intern(i),
            W::LPh(u, x) => LifetimeData::Placeholder(PlaceholderIndex { ui: UniverseIndex { counter: *u }, idx: *x }).intern(i),
            o => panic!("not a lifetime {:?}", o),
        }
    }
    fn ct(&self, w: &W) -> Const<ChalkIr> {
        let i = ChalkIr;
        let value = match w {
            W::B(k) => ConstValue::BoundVar(BoundVar::new(DebruijnIndex::INNERMOST, *k)),
            W::C(n) => ConstValue::Concrete(ConcreteConst { interned: *n }),
            W::CPh(u, x) => ConstValue::Placeholder(PlaceholderIndex { ui: UniverseIndex { counter: *u }, idx: *x }),
            o => panic!("not a const {:?}", o),
        };
        ConstData { ty: usize_ty(), value }.intern(i)
    }
    fn ty(&self, w: &W) -> Ty<ChalkIr> {
        let i = ChalkIr;
        match w {
            W::B(k) => TyKind::BoundVar(BoundVar::new(DebruijnIndex::INNERMOST, *k)).intern(i),
            W::Ph(u, x) => TyKind::Placeholder(PlaceholderIndex { ui: UniverseIndex { counter: *u }, idx: *x }).intern(i),
            W::App("A", _) => TyKind::Adt(self.a, Substitution::empty(i)).intern(i),
            W::App("Bs", _) => TyKind::Adt(self.b, Substitution::empty(i)).intern(i),
            W::App("S", a) => TyKind::Adt(self.s, Substitution::from1(i, self.ty(&a[0]))).intern(i),
            W::App("u8", _) => TyKind::Scalar(Scalar::Uint(UintTy::U8)).intern(i),
            W::App("i8", _) => TyKind::Scalar(Scalar::Int(IntTy::I8)).intern(i),
            W::App("str", _) => TyKind::Str.intern(i),
            W::App("never", _) => TyKind::Never.intern(i),
            W::App("tuple", a) => TyKind::Tuple(a.len(), Substitution::from_iter(i, a.iter().map(|x| self.ty(x)))).intern(i),
            W::App("slice", a) => TyKind::Slice(self.ty(&a[0])).intern(i),
            W::App("ptrc", a) => TyKind::Raw(Mutability::Not, self.ty(&a[0])).intern(i),
            W::App("ptrm", a) => TyKind::Raw(Mutability::Mut, self.ty(&a[0])).intern(i),
            W::App("ref", a) => TyKind::Ref(Mutability::Not, self.lt(&a[0]), self.ty(&a[1])).intern(i),
            W::App("L", a) => TyKind::Adt(self.l, Substitution::from1(i, self.lt(&a[0]))).intern(i),
            W::App("array", a) => TyKind::Array(self.ty(&a[0]), self.ct(&a[1])).intern(i),
            o => panic!("not a type {:?}", o),
        }
    }
    fn arg(&self, k: K, w: &W) -> GenericArg<ChalkIr> {
        match k {
            K::Ty => self.ty(w).cast(ChalkIr),
            K::Lt => self.lt(w).cast(ChalkIr),
            K::Ct => self.ct(w).cast(ChalkIr),
        }
    }
    fn back_lt(&self, l: &Lifetime<ChalkIr>) -> W {
        match l.data(ChalkIr) {
            LifetimeData::BoundVar(b) => W::B(b.index),
            LifetimeData::Static => W::Static,
            LifetimeData::Placeholder(p) => W::LPh(p.ui.counter, p.idx),
            o => panic!("unexpected lifetime {:?}", o),
        }
    }
    fn back_ct(&self, c: &Const<ChalkIr>) -> W {
        match &c.data(ChalkIr).value {
            ConstValue::BoundVar(b) => W::B(b.index),
            ConstValue::Concrete(c) => W::C(c.interned),
            ConstValue::Placeholder(p) => W::CPh(p.ui.counter, p.idx),
            ConstValue::InferenceVar(v) => panic!("unexpected const inference variable {:?}", v),
        }
    }
    fn back(&self, t: &Ty<ChalkIr>) -> W {
        let i = ChalkIr;
        match t.kind(i) {
            TyKind::BoundVar(b) => W::B(b.index),
            TyKind::Placeholder(p) => W::Ph(p.ui.counter, p.idx),
            TyKind::Adt(id, s) => {
                if *id == self.a {
                    W::App("A", vec![])
                } else if *id == self.b {
                    W::App("Bs", vec![])
                } else if *id == self.l {
                    W::App("L", vec![self.back_lt(s.at(i, 0).assert_lifetime_ref(i))])
                } else {
                    W::App("S", vec![self.back(s.at(i, 0).assert_ty_ref(i))])
                }
            }
            TyKind::Scalar(Scalar::Uint(_)) => W::App("u8", vec![]),
            TyKind::Scalar(Scalar::Int(_)) => W::App("i8", vec![]),
            TyKind::Str => W::App("str", vec![]),
            TyKind::Never => W::App("never", vec![]),
            TyKind::Tuple(_, s) => W::App("tuple", s.iter(i).map(|a| self.back(a.assert_ty_ref(i))).collect()),
            TyKind::Slice(x) => W::App("slice", vec![self.back(x)]),
            TyKind::Raw(Mutability::Not, x) => W::App("ptrc", vec![self.back(x)]),
            TyKind::Raw(Mutability::Mut, x) => W::App("ptrm", vec![self.back(x)]),
            TyKind::Ref(_, l, x) => W::App("ref", vec![self.back_lt(l), self.back(x)]),
            TyKind::Array(x, c) => W::App("array", vec![self.back(x), self.back_ct(c)]),
            o => panic!("unexpected type {:?}", o),
        }
    }
    fn back_arg(&self, a: &GenericArg<ChalkIr>) -> W {
        match a.data(ChalkIr) {
            GenericArgData::Ty(t) => self.back(t),
            GenericArgData::Lifetime(l) => self.back_lt(l),
            GenericArgData::Const(c) => self.back_ct(c),
        }
    }
}

/// Collect (bound var index -> kind) of an entry.
fn binder_kinds(k: K, w: &W, out: &mut BTreeMap<usize, K>) {
    match w {
        W::B(i) => {
            out.insert(*i, k);
        }
        W::App("ref", a) => {
            binder_kinds(K::Lt, &a[0], out);
            binder_kinds(K::Ty, &a[1], out);
        }
        W::App("L", a) => binder_kinds(K::Lt, &a[0], out),
        W::App("array", a) => {
            binder_kinds(K::Ty, &a[0], out);
            binder_kinds(K::Ct, &a[1], out);
        }
        W::App(_, a) => a.iter().for_each(|x| binder_kinds(K::Ty, x, out)),
        _ => {}
    }
}

/// A canonical substitution: entries with kinds.
#[derive(Clone, Debug, PartialEq, Eq, Hash)]
pub struct CS {
    pub entries: Vec<(K, W)>,
}

impl CS {
    fn show(&self) -> String {
        format!("[{}]", self.entries.iter().map(|(_, w)| show(w)).collect::<Vec<_>>().join(", "))
    }
    fn binders(&self) -> Option<Vec<K>> {
        let mut m = BTreeMap::new();
        for (k, w) in &self.entries {
            binder_kinds(*k, w, &mut m);
        }
        // indices must be 0..n
        let n = m.len();
        if m.keys().cloned().eq(0..n) {
            Some(m.values().cloned().collect())
        } else {
            None
        }
    }
    fn canonical_subst(&self, cx: &Cx) -> Canonical<Substitution<ChalkIr>> {
        let i = ChalkIr;
        let binders = self.binders().expect("well-numbered");
        Canonical {
            binders: CanonicalVarKinds::from_iter(
                i,
                binders.iter().map(|k| {
                    CanonicalVarKind::new(
                        match k {
                            K::Ty => VariableKind::Ty(TyVariableKind::General),
                            K::Lt => VariableKind::Lifetime,
                            K::Ct => VariableKind::Const(usize_ty()),
                        },
                        UniverseIndex::root(),
                    )
                }),
            ),
            value: Substitution::from_iter(i, self.entries.iter().map(|(k, w)| cx.arg(*k, w))),
        }
    }
    fn constrained(&self, cx: &Cx) -> Canonical<ConstrainedSubst<ChalkIr>> {
        let c = self.canonical_subst(cx);
        Canonical {
            binders: c.binders,
            value: ConstrainedSubst { subst: c.value, constraints: Constraints::empty(ChalkIr) },
        }
    }
}

/// Consistent matching: is `inst` (its own bound variables read as constants)
/// an instance of pattern `pat`? `linear` = repeated pattern variables renamed apart.
fn matches(pat: &W, inst: &W, s: &mut BTreeMap<usize, W>, linear: bool, lifetimes_free: bool) -> bool {
    match (pat, inst) {
        (W::B(i), t) => {
            if linear {
                return true;
            }
            match s.get(i) {
                Some(prev) => prev == t,
                None => {
                    s.insert(*i, t.clone());
                    true
                }
            }
        }
        (W::App("ref", a), W::App("ref", b)) => {
            (lifetimes_free || matches(&a[0], &b[0], s, linear, lifetimes_free)) && matches(&a[1], &b[1], s, linear, lifetimes_free)
        }
        (W::App(n, a), W::App(m, b)) => n == m && a.len() == b.len() && a.iter().zip(b).all(|(x, y)| matches(x, y, s, linear, lifetimes_free)),
        (x, y) => x == y,
    }
}

fn is_instance(pat: &[W], inst: &[(K, W)], linear: bool) -> bool {
    let mut s = BTreeMap::new();
    pat.len() == inst.len() && pat.iter().zip(inst).all(|(p, (k, i))| *k == K::Lt || matches(p, i, &mut s, linear, false))
}

fn entry_terms(thorough: bool) -> Vec<(K, W)> {
    let a = || W::App("A", vec![]);
    let leaves = vec![a(), W::App("Bs", vec![]), W::App("u8", vec![]), W::App("i8", vec![]), W::App("str", vec![]), W::Ph(1, 0), W::Ph(2, 0), W::Ph(1, 1), W::B(0), W::B(1)];
    let mut tys = leaves.clone();
    let unary: &[&'static str] = if thorough { &["S", "slice", "ptrc", "ptrm"] } else { &["S", "slice"] };
    for u in unary {
        for l in &leaves {
            tys.push(W::App(u, vec![l.clone()]));
        }
    }
    for l in [a(), W::B(0), W::B(1), W::Ph(1, 0)] {
        for r in [a(), W::B(0), W::B(1)] {
            tys.push(W::App("tuple", vec![l.clone(), r.clone()]));
        }
        for lt in [W::Static, W::LPh(1, 1)] {
            tys.push(W::App("ref", vec![lt, l.clone()]));
        }
        tys.push(W::App("S", vec![W::App("L", vec![W::Static])]));
        tys.push(W::App("S", vec![W::App("L", vec![W::LPh(1, 1)])]));
        for c in [W::C(3), W::C(4), W::CPh(1, 2)] {
            tys.push(W::App("array", vec![l.clone(), c]));
        }
    }
    tys.push(W::App("tuple", vec![]));
    tys.push(W::App("never", vec![]));
    // an ADT over a lifetime: the lifetime is an ordinary generic argument here
    for lt in [W::Static, W::LPh(1, 1), W::LPh(1, 3), W::B(0)] {
        tys.push(W::App("L", vec![lt]));
    }
    let mut out: Vec<(K, W)> = tys.into_iter().map(|t| (K::Ty, t)).collect();
    for c in [W::C(3), W::C(4), W::CPh(1, 2), W::B(0)] {
        out.push((K::Ct, c));
    }
    for l in [W::Static, W::LPh(1, 1), W::B(0)] {
        out.push((K::Lt, l));
    }
    out
}

/// All canonical substitutions with 1 entry, and 2-entry ones over a reduced term set.
fn substitutions(thorough: bool) -> Vec<CS> {
    let terms = entry_terms(thorough);
    let mut out = vec![];
    for t in &terms {
        let cs = CS { entries: vec![t.clone()] };
        if cs.binders().is_some() {
            out.push(cs);
        }
    }
    let small: Vec<(K, W)> = terms
        .iter()
        .filter(|(k, w)| *k == K::Ty && match w { W::App(n, a) => a.len() <= 1 && *n != "slice" && *n != "ptrc" && *n != "ptrm", _ => true })
        .cloned()
        .collect();
    for t1 in &small {
        for t2 in &small {
            let cs = CS { entries: vec![t1.clone(), t2.clone()] };
            if cs.binders().is_some() {
                out.push(cs);
            }
        }
    }
    out
}

fn root_goal(cs: &CS) -> Canonical<InEnvironment<Goal<ChalkIr>>> {
    let i = ChalkIr;
    Canonical {
        binders: CanonicalVarKinds::from_iter(
            i,
            cs.entries.iter().map(|(k, _)| {
                CanonicalVarKind::new(
                    match k {
                        K::Ty => VariableKind::Ty(TyVariableKind::General),
                        K::Lt => VariableKind::Lifetime,
                        K::Ct => VariableKind::Const(usize_ty()),
                    },
                    UniverseIndex { counter: 1 },
                )
            }),
        ),
        value: InEnvironment::new(&Environment::new(i), GoalData::All(Goals::empty(i)).intern(i)),
    }
}

pub fn run_c17(rep: &Report) -> i32 {
    let thorough = rep.is_thorough();
    let cx = Cx::new();
    let subs = substitutions(thorough);
    rep.note("substitutions", json!(subs.len()));
    let i = ChalkIr;
    // group by shape (kinds of entries)
    let by_shape: BTreeMap<Vec<K>, Vec<&CS>> = {
        let mut m: BTreeMap<Vec<K>, Vec<&CS>> = BTreeMap::new();
        for s in &subs {
            m.entry(s.entries.iter().map(|e| e.0).collect()).or_default().push(s);
        }
        m
    };
    for (_shape, group) in &by_shape {
        group.par_iter().for_each(|g| {
            for a in group.iter() {
                rep.count("pairs", 1);
                let input = || json!({"guidance": g.show(), "answer": a.show()});
                // --- merge_into_guidance
                let rg = root_goal(g);
                let gc = g.canonical_subst(&cx);
                let ac = a.constrained(&cx);
                let merged = drive::guarded(|| chalk_engine::slg::verif_merge_into_guidance(i, &rg, gc.clone(), &ac));
                rep.count("merge_calls", 1);
                match merged {
                    Caught::Ok(m) => {
                        let pat: Vec<W> = m.value.iter(i).map(|x| cx.back_arg(x)).collect();
                        for (who, src) in [("guidance", g), ("answer", a)] {
                            if !is_instance(&pat, &src.entries, false) {
                                rep.violation(Violation {
                                    property: "C17".into(),
                                    kind: "merged-guidance-excludes-input".into(),
                                    site: format!("merge_into_guidance/{}", head_of(&src.entries[0].1)),
                                    what: format!("merge({}, {}) = [{}] of which the {} is not an instance", g.show(), a.show(), pat.iter().map(show).collect::<Vec<_>>().join(", "), who),
                                    input: input(),
                                });
                            }
                        }
                        if pat.iter().any(|p| !matches!(p, W::B(_))) {
                            rep.count("merges_keeping_structure", 1);
                        }
                        // sequences of length 3 (thorough, or quick on 1-entry substitutions): fold in a third answer
                        if thorough || g.entries.len() == 1 {
                            for b in group.iter().step_by(if thorough { 3 } else { 5 }) {
                                let bc = b.constrained(&cx);
                                let m2 = drive::guarded(|| chalk_engine::slg::verif_merge_into_guidance(i, &rg, m.clone(), &bc));
                                rep.count("merge_calls", 1);
                                rep.count("sequences_of_three", 1);
                                if let Caught::Ok(m2) = m2 {
                                    let pat2: Vec<W> = m2.value.iter(i).map(|x| cx.back_arg(x)).collect();
                                    for src in [g, a, b] {
                                        if !is_instance(&pat2, &src.entries, false) {
                                            rep.violation(Violation {
                                                property: "C17".into(),
                                                kind: "merged-guidance-excludes-input".into(),
                                                site: format!("merge_into_guidance/fold/{}", head_of(&src.entries[0].1)),
                                                what: format!("fold of {}, {}, {} = [{}] of which {} is not an instance", g.show(), a.show(), b.show(), pat2.iter().map(show).collect::<Vec<_>>().join(", "), src.show()),
                                                input: json!({"guidance": g.show(), "answer": a.show(), "third": b.show()}),
                                            });
                                        }
                                    }
                                }
                            }
                        }
                    }
                    Caught::Panic(loc, msg) => rep.violation(Violation {
                        property: "C17".into(),
                        kind: "panic".into(),
                        site: panic_site(&loc, &msg),
                        what: format!("merge_into_guidance({}, {}) panics: {}", g.show(), a.show(), msg),
                        input: input(),
                    }),
                    _ => {}
                }
                // --- may_invalidate(new = a, current = g)
                let new_subst = a.canonical_subst(&cx).value;
                let r = drive::guarded(|| chalk_engine::slg::verif_may_invalidate(i, &new_subst, &gc));
                rep.count("may_invalidate_calls", 1);
                match r {
                    Caught::Ok(false) => {
                        rep.count("may_invalidate_false", 1);
                        let pat: Vec<W> = g.entries.iter().map(|e| e.1.clone()).collect();
                        if !is_instance(&pat, &a.entries, false) {
                            let linear = is_instance(&pat, &a.entries, true);
                            rep.violation(Violation {
                                property: "C17".into(),
                                kind: "may-invalidate-wrongly-false".into(),
                                site: if linear { "may_invalidate/nonlinear-only".into() } else { format!("may_invalidate/{}", head_of(&a.entries[0].1)) },
                                what: format!("may_invalidate(new = {}, current = {}) = false although the new answer is not an instance of the current guidance", a.show(), g.show()),
                                input: input(),
                            });
                        }
                    }
                    Caught::Ok(true) => rep.count("may_invalidate_true", 1),
                    Caught::Panic(loc, msg) => rep.violation(Violation {
                        property: "C17".into(),
                        kind: "panic".into(),
                        site: panic_site(&loc, &msg),
                        what: format!("may_invalidate({}, {}) panics: {}", a.show(), g.show(), msg),
                        input: input(),
                    }),
                    _ => {}
                }
            }
        });
    }
    combine_check(rep, &cx);
    crate::props::c01::vacuity(rep, &["merges_keeping_structure", "may_invalidate_false", "may_invalidate_true", "combine_pairs"]);
    let states = rep.get("pairs") + rep.get("combine_pairs");
    let tr = rep.get("merge_calls") + rep.get("may_invalidate_calls") + rep.get("combine_calls");
    let nt = rep.get("merges_keeping_structure") + rep.get("may_invalidate_false");
    rep.finish(
        states,
        tr,
        nt,
        "all ordered pairs (and, folded in, triples) of canonical substitutions of the same shape with 1-2 entries over terms of depth <= 2 (ADTs, scalars, str, never, tuples, slices, raw pointers, references with lifetimes, arrays with consts, placeholders, bound variables incl. repeated ones, const and lifetime entries) through the real merge_into_guidance and may_invalidate (hook H3); all pairs of solutions (Unique/Definite/Suggested/Unknown over a pattern set) through Solution::combine with a set-semantics validity check over a ground domain; non-trivial = merges that keep some structure + may_invalidate answers `false`",
        true,
        &["instance = consistent first-order matching (a repeated variable must match equal terms); lifetimes are ignored by the anti-unifier and by the oracle"],
    )
}

fn head_of(w: &W) -> String {
    match w {
        W::App(n, _) => n.to_string(),
        W::B(_) => "bound".into(),
        W::Ph(..) => "placeholder".into(),
        W::C(_) | W::CPh(..) => "const".into(),
        W::Static | W::LPh(..) => "lifetime".into(),
    }
}

// ---------------------------------------------------------------------------
// Solution::combine

#[derive(Clone, Debug, PartialEq, Eq)]
enum Sol {
    Unique(CS),
    Definite(CS),
    Suggested(CS),
    Unknown,
}

impl Sol {
    fn to_chalk(&self, cx: &Cx) -> Solution<ChalkIr> {
        match self {
            Sol::Unique(c) => Solution::Unique(c.constrained(cx)),
            Sol::Definite(c) => Solution::Ambig(Guidance::Definite(c.canonical_subst(cx))),
            Sol::Suggested(c) => Solution::Ambig(Guidance::Suggested(c.canonical_subst(cx))),
            Sol::Unknown => Solution::Ambig(Guidance::Unknown),
        }
    }
    fn show(&self) -> String {
        match self {
            Sol::Unique(c) => format!("Unique{}", c.show()),
            Sol::Definite(c) => format!("Definite{}", c.show()),
            Sol::Suggested(c) => format!("Suggested{}", c.show()),
            Sol::Unknown => "Unknown".into(),
        }
    }
}

/// Which subsets (bitmask over `dom`) of the ground domain does a solution allow?
fn allowed(sol: &Solution<ChalkIr>, cx: &Cx, dom: &[Vec<(K, W)>]) -> Vec<u32> {
    let i = ChalkIr;
    let inst_mask = |vals: Vec<W>| -> u32 {
        let mut m = 0u32;
        for (k, d) in dom.iter().enumerate() {
            if is_instance(&vals, d, false) {
                m |= 1 << k;
            }
        }
        m
    };
    let all = (1u32 << dom.len()) - 1;
    match sol {
        Solution::Unique(c) => vec![inst_mask(c.value.subst.iter(i).map(|a| cx.back_arg(a)).collect())],
        Solution::Ambig(Guidance::Definite(c)) => {
            let m = inst_mask(c.value.iter(i).map(|a| cx.back_arg(a)).collect());
            (0..=all).filter(|s| s & !m == 0).collect()
        }
        Solution::Ambig(_) => (0..=all).collect(),
    }
}

fn combine_check(rep: &Report, cx: &Cx) {
    let a = || W::App("A", vec![]);
    let b = || W::App("Bs", vec![]);
    let s = |x: W| W::App("S", vec![x]);
    // one-variable and two-variable pattern sets with their ground domains
    let sets: Vec<(Vec<CS>, Vec<Vec<(K, W)>>)> = vec![
        (
            [a(), b(), s(a()), s(W::B(0)), W::B(0)].iter().map(|w| CS { entries: vec![(K::Ty, w.clone())] }).collect(),
            [a(), b(), s(a()), s(b())].iter().map(|w| vec![(K::Ty, w.clone())]).collect(),
        ),
        (
            [(W::B(0), W::B(1)), (W::B(0), W::B(0)), (a(), W::B(0)), (a(), b()), (a(), a()), (W::B(0), a())]
                .iter()
                .map(|(x, y)| CS { entries: vec![(K::Ty, x.clone()), (K::Ty, y.clone())] })
                .collect(),
            [(a(), a()), (a(), b()), (b(), a()), (b(), b())].iter().map(|(x, y)| vec![(K::Ty, x.clone()), (K::Ty, y.clone())]).collect(),
        ),
    ];
    for (pats, dom) in &sets {
        let mut sols = vec![Sol::Unknown];
        for p in pats {
            sols.push(Sol::Unique(p.clone()));
            sols.push(Sol::Definite(p.clone()));
            sols.push(Sol::Suggested(p.clone()));
        }
        for x in &sols {
            for y in &sols {
                rep.count("combine_pairs", 1);
                let (cx1, cy1) = (x.to_chalk(cx), y.to_chalk(cx));
                let xy = drive::guarded(|| cx1.clone().combine(cy1.clone(), ChalkIr));
                let yx = drive::guarded(|| cy1.clone().combine(cx1.clone(), ChalkIr));
                rep.count("combine_calls", 2);
                let input = json!({"a": x.show(), "b": y.show()});
                let (xy, yx) = match (xy, yx) {
                    (Caught::Ok(p), Caught::Ok(q)) => (p, q),
                    (Caught::Panic(loc, msg), _) | (_, Caught::Panic(loc, msg)) => {
                        rep.violation(Violation { property: "C17".into(), kind: "panic".into(), site: panic_site(&loc, &msg), what: format!("combine({}, {}) panics: {}", x.show(), y.show(), msg), input });
                        continue;
                    }
                    _ => continue,
                };
                if xy != yx {
                    rep.violation(Violation {
                        property: "C17".into(),
                        kind: "combine-not-commutative".into(),
                        site: "Solution::combine".into(),
                        what: format!("combine({}, {}) = {:?} but combine({}, {}) = {:?}", x.show(), y.show(), xy, y.show(), x.show(), yx),
                        input: input.clone(),
                    });
                }
                // set semantics: for every pair of allowed solution sets, the union must be allowed by the result
                let ax = allowed(&cx1, cx, dom);
                let ay = allowed(&cy1, cx, dom);
                let ao: std::collections::BTreeSet<u32> = allowed(&xy, cx, dom).into_iter().collect();
                'outer: for s1 in &ax {
                    for s2 in &ay {
                        if !ao.contains(&(s1 | s2)) {
                            rep.violation(Violation {
                                property: "C17".into(),
                                kind: "combine-claims-more-than-candidates".into(),
                                site: "Solution::combine".into(),
                                what: format!(
                                    "combine({}, {}) = {:?}: candidate solution sets {:#b} and {:#b} (over the domain {:?}) are allowed by the inputs but their union is not allowed by the result",
                                    x.show(), y.show(), xy, s1, s2, dom.iter().map(|d| d.iter().map(|e| show(&e.1)).collect::<Vec<_>>()).collect::<Vec<_>>()
                                ),
                                input: input.clone(),
                            });
                            break 'outer;
                        }
                    }
                }
                if rep.get("combine_pairs") % 97 == 0 {
                    rep.sample(json!({"combine": [x.show(), y.show()], "result": format!("{:?}", xy)}));
                }
            }
        }
    }
}
