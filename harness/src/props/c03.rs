//! C03: SLG answer enumeration is sound, duplicate-free and complete; `next` flag accurate.

use super::*;
use crate::drive::{AnySolver, Caught, DSubst, Decoder, SolverCfg};
use crate::oracle::{AnswerCheck, OracleInfo};
use crate::refsem::is_instance;
use crate::report::Violation;
use chalk_solve::SubstitutionResult;
use std::collections::BTreeMap;

const CAP: usize = 24;

#[derive(Clone, Debug, PartialEq, Eq)]
enum Ans {
    Definite(DSubst),
    Ambiguous(DSubst),
    Floundered,
}

struct Run {
    answers: Vec<(Ans, bool)>,
    ret: Caught<bool>,
    hit_cap: bool,
}

fn enumerate(solver: &mut AnySolver, pc: &ProgCtx, g: &GoalCtx) -> Run {
    let dec = Decoder::with_universes(&pc.chalk, &g.peeled.universes);
    let mut answers = vec![];
    let mut hit_cap = false;
    let (ret, _t) = solver.solve_multiple(&*pc.chalk, &g.peeled.ugoal, &mut |a, next| {
        let d = match &a {
            SubstitutionResult::Definite(c) => Ans::Definite(dec.constrained(c)),
            SubstitutionResult::Ambiguous(c) => Ans::Ambiguous(dec.constrained(c)),
            SubstitutionResult::Floundered => Ans::Floundered,
        };
        answers.push((d, next));
        if answers.len() >= CAP {
            hit_cap = true;
            false
        } else {
            true
        }
    });
    Run {
        answers,
        ret,
        hit_cap,
    }
}

pub fn run_c03(rep: &Report) -> i32 {
    let thorough = rep.is_thorough();
    let mut corpora = core_corpora(thorough, 0);
    corpora.push(Corpus {
        frag: "growing",
        programs: super::c09::growing_programs(),
        goals: gen::goals_f1a(true),
    });
    // the order in which a table's strands are created follows the order of the impls: the
    // one-parameter fragments are also enumerated with their impls declared in reverse order
    for c in corpora.iter_mut() {
        if c.frag.starts_with("f1a") {
            let rev: Vec<Program> = c
                .programs
                .iter()
                .filter(|p| p.impls.len() > 1)
                .map(|p| {
                    let mut q = p.clone();
                    q.impls.reverse();
                    q
                })
                .collect();
            c.programs.extend(rev);
        }
    }
    let depth0 = c01::ref_depth(thorough);
    for_each_program(rep, &corpora, |pc, goals| {
        let mut local: BTreeMap<String, u64> = BTreeMap::new();
        // witnesses one level deeper where the universe stays small (one unary constructor):
        // an enumeration that ends early typically loses the deeper solutions
        let depth = if pc.frag.starts_with("f1a") { depth0.max(4) } else { depth0 };
        for g in goals {
            if g.peeled.var_creation.is_empty() {
                continue;
            }
            *local.entry("cases".into()).or_insert(0) += 1;
            let mut solver = AnySolver::new(SolverCfg::SLG);
            let run1 = enumerate(&mut solver, pc, g);
            // second enumeration on the same solver (answers now tabled): it
            // must satisfy the same clauses (it need not be identical)
            let run2 = enumerate(&mut solver, pc, g);
            *local.entry("enumerations".into()).or_insert(0) += 2;
            // enumerations on a solver whose tables were left partially filled by an earlier,
            // shorter use: (a) an enumeration the caller stopped after the first answer,
            // (b) a plain `solve` (which stops pulling answers as soon as it can decide)
            let mut extra: Vec<(&str, Run)> = vec![];
            if run1.answers.len() >= 2 {
                let mut s3 = AnySolver::new(SolverCfg::SLG);
                let _ = s3.solve_multiple(&*pc.chalk, &g.peeled.ugoal, &mut |_a, _n| false);
                extra.push(("after-first-answer", enumerate(&mut s3, pc, g)));
                let mut s4 = AnySolver::new(SolverCfg::SLG);
                let _ = s4.solve(&*pc.chalk, &g.peeled.ugoal);
                extra.push(("after-solve", enumerate(&mut s4, pc, g)));
                *local.entry("enumerations".into()).or_insert(0) += 2;
                *local.entry("enumerations_after_a_partial_use".into()).or_insert(0) += 2;
            }
            let ac = AnswerCheck {
                refm: &pc.refm,
                pa: &g.pa,
                peeled: &g.peeled,
                depth,
                solver: "slg",
                class: pc.class,
            };
            let mut info = OracleInfo::default();
            let (_v, wit) = ac.true_witnesses(&mut info);
            if !wit.is_empty() {
                *local.entry("nontrivial_cases".into()).or_insert(0) += 1;
            }
            let mut ended = false;
            let mut runs: Vec<(&str, &Run)> = vec![("fresh", &run1), ("again", &run2)];
            runs.extend(extra.iter().map(|(l, r)| (*l, r)));
            for (label, run) in runs {
                ended = match &run.ret {
                    Caught::Ok(b) => *b,
                    _ => {
                        *local.entry("panics_or_budget(judged by C09)".into()).or_insert(0) += 1;
                        continue;
                    }
                };
                *local.entry("answers".into()).or_insert(0) += run.answers.len() as u64;
                if run.hit_cap {
                    *local.entry("enumerations_hit_cap".into()).or_insert(0) += 1;
                }
                let site = format!("slg/{}/{}", label, pc.class);
                let viol = |kind: &str, what: String| {
                    rep.violation(Violation {
                        property: "C03".into(),
                        kind: kind.into(),
                        site: site.clone(),
                        what: format!("SLG solve_multiple ({}) on `{}`: {}", label, g.text, what),
                        input: pc.input(g, "slg(max_size=10)"),
                    });
                };
                // return value: true iff the stream ended by itself
                if ended == run.hit_cap {
                    viol(
                        "return-value-wrong",
                        format!("returned {} but callback {} the enumeration", ended, if run.hit_cap { "stopped" } else { "never stopped" }),
                    );
                }
                // next flags
                for (k, (_a, next)) in run.answers.iter().enumerate() {
                    let has_next = k + 1 < run.answers.len();
                    let last_and_capped = run.hit_cap && k + 1 == run.answers.len();
                    if !last_and_capped && *next != has_next {
                        viol(
                            "next-flag-wrong",
                            format!("answer #{} had next={} but {} answer followed", k, next, if has_next { "an" } else { "no" }),
                        );
                        break;
                    }
                }
                // duplicates
                'dup: for i in 0..run.answers.len() {
                    for j in (i + 1)..run.answers.len() {
                        if run.answers[i].0 == run.answers[j].0 && run.answers[i].0 != Ans::Floundered {
                            viol(
                                "duplicate-answer",
                                format!("answers #{} and #{} are equal: {:?}", i, j, run.answers[i].0),
                            );
                            break 'dup;
                        }
                    }
                }
                // soundness of definite answers
                let mut all_definite = true;
                let mut pats = vec![];
                for (a, _) in &run.answers {
                    match a {
                        Ans::Definite(s) => {
                            if let Some(pat) = ac.pattern(s) {
                                if let Some(t) = ac.false_instance(s, &pat, &mut info) {
                                    viol(
                                        "answer-has-false-instance",
                                        format!(
                                            "answer {:?} has the FALSE instance {:?}",
                                            pat.iter().map(ty_str).collect::<Vec<_>>(),
                                            t.iter().map(ty_str).collect::<Vec<_>>()
                                        ),
                                    );
                                }
                                pats.push(pat);
                            } else {
                                all_definite = false;
                            }
                        }
                        _ => all_definite = false,
                    }
                }
                // completeness
                if ended && !run.hit_cap && all_definite {
                    *local.entry("complete_enumerations".into()).or_insert(0) += 1;
                    for w in &wit {
                        if !pats.iter().any(|p| is_instance(p, w)) {
                            viol(
                                "solution-never-yielded",
                                format!(
                                    "true witness {:?} is an instance of none of the {} yielded answers",
                                    w.iter().map(ty_str).collect::<Vec<_>>(),
                                    pats.len()
                                ),
                            );
                            break;
                        }
                    }
                }
            }
            if run1.answers != run2.answers {
                *local.entry("re_enumerations_that_differ_from_the_first(allowed)".into()).or_insert(0) += 1;
            }
            let run = &run1;
            if pc.pi % 499 == 0 && g.gi % 5 == 0 {
                rep.sample(json!({"program": pc.text, "goal": g.text,
                    "answers": run.answers.iter().map(|(a, n)| format!("{:?} next={}", a, n)).collect::<Vec<_>>(),
                    "returned": ended, "ref_true_witnesses": wit.len()}));
            }
        }
        rep.merge_counts(&local);
    });
    c01::vacuity(rep, &["answers", "complete_enumerations", "enumerations_hit_cap"]);
    let cases = rep.get("cases");
    let calls = rep.get("enumerations");
    let nt = rep.get("nontrivial_cases");
    rep.finish(
        cases,
        calls,
        nt,
        "every program of the C01 corpus and of the growing families x every goal with existential variables, enumerated with solve_multiple on a fresh SLG solver (cap 24 answers) and a second time on the same solver; non-trivial = REF finds at least one true witness",
        true,
        &["REF as in C01; completeness only judged for enumerations that ended by themselves with only definite answers"],
    )
}
