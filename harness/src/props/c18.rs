//! C18: clause pre-filtering (`could_match`, `Program::impls_for_trait`) never
//! discards an applicable clause.

use super::*;
use crate::drive::{decode_caught, AnySolver, Caught, SolverCfg};
use crate::report::{panic_site, Violation};
use chalk_integration::interner::ChalkIr;
use chalk_ir::cast::Cast;
use chalk_ir::could_match::CouldMatch;
use chalk_ir::Ty as CTy;
use chalk_ir::{
    AdtId, AssocTypeId, Binders, BoundVar, CanonicalVarKinds, ClausePriority, ClosureId, ConcreteConst, Const,
    ConstData, ConstValue, Constraints, CoroutineId, DebruijnIndex, DomainGoal, Environment, FnDefId, FnPointer,
    FnSig, FnSubst, GenericArg, GoalData, Goals, ImplId, InferenceVar, IntTy, Lifetime, LifetimeData, Mutability,
    OpaqueTyId, PlaceholderIndex, ProgramClause, ProgramClauseData, ProgramClauseImplication, ProgramClauses,
    Safety, Scalar, Substitution, TraitId, TraitRef, TyKind, TyVariableKind, UintTy, UnificationDatabase,
    UniverseIndex, WellFormed, WhereClause,
};
use chalk_solve::RustIrDatabase;
use std::collections::BTreeMap;

/// Types for the pair sweep. `side`-local unknowns: `B` = bound variable, `Inf` = inference variable.
#[derive(Clone, Debug, PartialEq, Eq, Hash, PartialOrd, Ord)]
enum X {
    B(usize),
    Inf(usize),
    Ph(usize),
    Lt(u8),
    Ct(u8),
    App(&'static str, Vec<X>),
}

fn show(x: &X) -> String {
    match x {
        X::B(i) => format!("^{}", i),
        X::Inf(i) => format!("?{}", i),
        X::Ph(i) => format!("!1_{}", i),
        X::Lt(0) => "'static".into(),
        X::Lt(9) => "'?7".into(),
        X::Lt(n) => format!("'!1_{}", n),
        X::Ct(n) => format!("{}", n),
        X::App(n, a) if a.is_empty() => n.to_string(),
        X::App(n, a) => format!("{}<{}>", n, a.iter().map(show).collect::<Vec<_>>().join(", ")),
    }
}

struct Cx {
    program: std::sync::Arc<chalk_integration::program::Program>,
    ids: BTreeMap<&'static str, AdtId<ChalkIr>>,
    tr: TraitId<ChalkIr>,
    tr2: TraitId<ChalkIr>,
}

impl Cx {
    fn new() -> Cx {
        let program = drive::load_program(
            "struct A {} struct Bs {} struct S<T> {} #[variance(Covariant)] struct C<T> {} struct P<T, U> {} struct Lr<'a> {} trait Tr<T> {} trait Tr2<T> {} \
             fn f1<T>(); fn f2<T>(); extern type E1; extern type E2; closure k1(self,) {} closure k2(self,) {}",
        )
        .unwrap();
        let mut ids = BTreeMap::new();
        for n in ["A", "Bs", "S", "C", "P", "Lr"] {
            ids.insert(n, *program.adt_ids.iter().find(|(k, _)| k.to_string() == n).unwrap().1);
        }
        let t = |n: &str| *program.trait_ids.iter().find(|(k, _)| k.to_string() == n).unwrap().1;
        let (tr, tr2) = (t("Tr"), t("Tr2"));
        Cx { program, ids, tr, tr2 }
    }
    fn lt(&self, x: &X) -> Lifetime<ChalkIr> {
        match x {
            X::Lt(0) => LifetimeData::Static.intern(ChalkIr),
            X::Lt(9) => LifetimeData::InferenceVar(InferenceVar::from(7)).intern(ChalkIr),
            X::Lt(n) => LifetimeData::Placeholder(PlaceholderIndex { ui: UniverseIndex { counter: 1 }, idx: 10 + *n as usize }).intern(ChalkIr),
            o => panic!("not a lifetime {:?}", o),
        }
    }
    fn ct(&self, x: &X) -> Const<ChalkIr> {
        match x {
            X::Ct(n) => ConstData {
                ty: TyKind::Scalar(Scalar::Uint(UintTy::Usize)).intern(ChalkIr),
                value: ConstValue::Concrete(ConcreteConst { interned: *n as u32 }),
            }
            .intern(ChalkIr),
            o => panic!("not a const {:?}", o),
        }
    }
    fn ty(&self, x: &X) -> CTy<ChalkIr> {
        let i = ChalkIr;
        let sub = |a: &Vec<X>| Substitution::from_iter(i, a.iter().map(|t| self.ty(t)));
        match x {
            X::B(k) => TyKind::BoundVar(BoundVar::new(DebruijnIndex::INNERMOST, *k)).intern(i),
            X::Inf(k) => TyKind::InferenceVar(InferenceVar::from(*k as u32), TyVariableKind::General).intern(i),
            X::Ph(k) => TyKind::Placeholder(PlaceholderIndex { ui: UniverseIndex { counter: 1 }, idx: *k }).intern(i),
            X::App(n, a) => match *n {
                "A" | "Bs" | "S" | "C" | "P" => TyKind::Adt(self.ids[n], sub(a)).intern(i),
                "Lr" => TyKind::Adt(self.ids[n], Substitution::from_iter(i, [self.lt(&a[0]).cast::<GenericArg<ChalkIr>>(i)])).intern(i),
                "u8" => TyKind::Scalar(Scalar::Uint(UintTy::U8)).intern(i),
                "i8" => TyKind::Scalar(Scalar::Int(IntTy::I8)).intern(i),
                "str" => TyKind::Str.intern(i),
                "never" => TyKind::Never.intern(i),
                "tuple" => TyKind::Tuple(a.len(), sub(a)).intern(i),
                "slice" => TyKind::Slice(self.ty(&a[0])).intern(i),
                "ptrc" => TyKind::Raw(Mutability::Not, self.ty(&a[0])).intern(i),
                "ptrm" => TyKind::Raw(Mutability::Mut, self.ty(&a[0])).intern(i),
                "ref" => TyKind::Ref(Mutability::Not, self.lt(&a[0]), self.ty(&a[1])).intern(i),
                "refmut" => TyKind::Ref(Mutability::Mut, self.lt(&a[0]), self.ty(&a[1])).intern(i),
                "array" => TyKind::Array(self.ty(&a[0]), self.ct(&a[1])).intern(i),
                "f1" | "f2" => {
                    let id = *self.program.fn_def_ids.iter().find(|(k, _)| k.to_string() == *n).unwrap().1;
                    TyKind::FnDef(id, sub(a)).intern(i)
                }
                "E1" | "E2" => {
                    let id = *self.program.foreign_ty_ids.iter().find(|(k, _)| k.to_string() == *n).unwrap().1;
                    TyKind::Foreign(id).intern(i)
                }
                "k1" | "k2" => {
                    let id = *self.program.closure_ids.iter().find(|(k, _)| k.to_string() == *n).unwrap().1;
                    TyKind::Closure(id, sub(a)).intern(i)
                }
                // applied associated types and opaque types: only the id and the arguments matter to the filter
                "AT1" | "AT2" => {
                    let raw = chalk_integration::interner::RawId { index: if *n == "AT1" { 901 } else { 902 } };
                    TyKind::AssociatedType(AssocTypeId(raw), sub(a)).intern(i)
                }
                "O1" | "O2" => {
                    let raw = chalk_integration::interner::RawId { index: if *n == "O1" { 911 } else { 912 } };
                    TyKind::OpaqueType(OpaqueTyId(raw), sub(a)).intern(i)
                }
                "fnptr_unsafe" | "fnptr_c" | "fnptr_var" => TyKind::Function(FnPointer {
                    num_binders: 0,
                    sig: FnSig {
                        abi: if *n == "fnptr_c" { chalk_integration::interner::ChalkFnAbi::C } else { chalk_integration::interner::ChalkFnAbi::Rust },
                        safety: if *n == "fnptr_unsafe" { Safety::Unsafe } else { Safety::Safe },
                        variadic: *n == "fnptr_var",
                    },
                    substitution: FnSubst(sub(a)),
                })
                .intern(i),
                "fnptr" => TyKind::Function(FnPointer {
                    num_binders: 0,
                    sig: FnSig { abi: chalk_integration::interner::ChalkFnAbi::Rust, safety: Safety::Safe, variadic: false },
                    substitution: FnSubst(sub(a)),
                })
                .intern(i),
                o => panic!("unknown ctor {}", o),
            },
            o => panic!("not a type {:?}", o),
        }
    }
}

/// REF: are `a` and `b` unifiable when the unknowns of the two sides are
/// distinct? (lifetimes and consts always are — the filter ignores them.)
fn unifiable(a: &X, b: &X) -> bool {
    #[derive(Clone, Debug, PartialEq, Eq, Hash, PartialOrd, Ord)]
    enum U {
        V(u8, bool, usize),
        T(X, u8),
    }
    // Robinson on terms tagged with their side
    fn tag(x: &X, side: u8) -> X2 {
        match x {
            X::B(i) => X2::V(side, 0, *i),
            X::Inf(i) => X2::V(side, 1, *i),
            X::Ph(i) => X2::A(format!("ph{}", i), vec![]),
            X::Lt(_) | X::Ct(_) => X2::Any,
            X::App(n, a) => X2::A(n.to_string(), a.iter().map(|t| tag(t, side)).collect()),
        }
    }
    #[derive(Clone, Debug, PartialEq)]
    enum X2 {
        V(u8, u8, usize),
        A(String, Vec<X2>),
        Any,
    }
    fn walk(t: &X2, s: &BTreeMap<(u8, u8, usize), X2>) -> X2 {
        let mut t = t.clone();
        while let X2::V(a, b, c) = &t {
            match s.get(&(*a, *b, *c)) {
                Some(n) => t = n.clone(),
                None => break,
            }
        }
        t
    }
    fn occurs(v: (u8, u8, usize), t: &X2, s: &BTreeMap<(u8, u8, usize), X2>) -> bool {
        match walk(t, s) {
            X2::V(a, b, c) => (a, b, c) == v,
            X2::A(_, xs) => xs.iter().any(|x| occurs(v, x, s)),
            X2::Any => false,
        }
    }
    fn uni(a: &X2, b: &X2, s: &mut BTreeMap<(u8, u8, usize), X2>) -> bool {
        let a = walk(a, s);
        let b = walk(b, s);
        match (&a, &b) {
            (X2::Any, _) | (_, X2::Any) => true,
            (X2::V(x, y, z), X2::V(p, q, r)) if (x, y, z) == (p, q, r) => true,
            (X2::V(x, y, z), t) | (t, X2::V(x, y, z)) => {
                if occurs((*x, *y, *z), t, s) {
                    return false;
                }
                s.insert((*x, *y, *z), t.clone());
                true
            }
            (X2::A(n, xs), X2::A(m, ys)) => n == m && xs.len() == ys.len() && xs.iter().zip(ys).all(|(p, q)| uni(p, q, s)),
        }
    }
    let _ = std::marker::PhantomData::<U>;
    uni(&tag(a, 0), &tag(b, 1), &mut BTreeMap::new())
}

fn type_set(thorough: bool) -> Vec<X> {
    let leaves = vec![
        X::App("A", vec![]),
        X::App("Bs", vec![]),
        X::App("u8", vec![]),
        X::App("i8", vec![]),
        X::App("str", vec![]),
        X::App("never", vec![]),
        X::B(0),
        X::B(1),
        X::Inf(0),
        X::Ph(0),
        X::App("tuple", vec![]),
        X::App("E1", vec![]),
        X::App("E2", vec![]),
    ];
    let mut v = leaves.clone();
    for u in ["S", "C", "slice", "ptrc", "ptrm", "f1", "f2", "k1", "k2", "AT1", "AT2", "O1", "O2"] {
        for l in &leaves {
            v.push(X::App(u, vec![l.clone()]));
        }
    }
    let few = [X::App("A", vec![]), X::App("u8", vec![]), X::B(0), X::B(1), X::Ph(0)];
    for l in &few {
        // 'static, two distinct placeholder lifetimes, an inference lifetime (lifetimes never make
        // unification fail: it emits outlives constraints instead)
        for lt in [X::Lt(0), X::Lt(1), X::Lt(2), X::Lt(9)] {
            if *l == few[0] {
                v.push(X::App("Lr", vec![lt.clone()]));
            }
            v.push(X::App("ref", vec![lt.clone(), l.clone()]));
            v.push(X::App("refmut", vec![lt, l.clone()]));
        }
        for c in [X::Ct(2), X::Ct(3)] {
            v.push(X::App("array", vec![l.clone(), c]));
        }
        v.push(X::App("tuple", vec![l.clone()]));
        v.push(X::App("fnptr", vec![l.clone()]));
        v.push(X::App("fnptr_unsafe", vec![l.clone()]));
        v.push(X::App("fnptr_c", vec![l.clone()]));
        v.push(X::App("fnptr_var", vec![l.clone()]));
        for r in &few {
            v.push(X::App("tuple", vec![l.clone(), r.clone()]));
            v.push(X::App("P", vec![l.clone(), r.clone()]));
            v.push(X::App("fnptr", vec![l.clone(), r.clone()]));
        }
    }
    if thorough {
        for l in &few {
            for u in ["S", "C", "slice"] {
                v.push(X::App("S", vec![X::App(u, vec![l.clone()])]));
                v.push(X::App("tuple", vec![X::App(u, vec![l.clone()]), X::B(0)]));
            }
        }
    }
    v
}

pub fn run_c18(rep: &Report) -> i32 {
    let thorough = rep.is_thorough();
    let cx = Cx::new();
    let tys = type_set(thorough);
    rep.note("types", json!(tys.len()));
    let i = ChalkIr;
    let chalk_tys: Vec<CTy<ChalkIr>> = tys.iter().map(|t| cx.ty(t)).collect();
    // (1a) all ordered pairs of types
    use rayon::prelude::*;
    (0..tys.len()).into_par_iter().for_each(|ia| {
        for ib in 0..tys.len() {
            let r = drive::guarded(|| chalk_tys[ia].could_match(i, &*cx.program, &chalk_tys[ib]));
            rep.count("could_match_calls", 1);
            match r {
                Caught::Ok(false) => {
                    rep.count("could_match_false", 1);
                    if unifiable(&tys[ia], &tys[ib]) {
                        rep.violation(Violation {
                            property: "C18".into(),
                            kind: "filter-rejects-unifiable".into(),
                            site: format!("could_match/{}", head(&tys[ia])),
                            what: format!("could_match({}, {}) = false although the two unify", show(&tys[ia]), show(&tys[ib])),
                            input: json!({"a": show(&tys[ia]), "b": show(&tys[ib])}),
                        });
                    }
                }
                Caught::Ok(true) => {
                    if !unifiable(&tys[ia], &tys[ib]) {
                        rep.count("could_match_true_but_not_unifiable(allowed imprecision)", 1);
                    }
                }
                Caught::Panic(loc, msg) => rep.violation(Violation {
                    property: "C18".into(),
                    kind: "panic".into(),
                    site: panic_site(&loc, &msg),
                    what: format!("could_match({}, {}) panics: {}", show(&tys[ia]), show(&tys[ib]), msg),
                    input: json!({"a": show(&tys[ia]), "b": show(&tys[ib])}),
                }),
                _ => {}
            }
        }
    });
    // (1b) domain goals: Implemented(ty: Tr<ty>) / WellFormed / different variants, against clauses
    {
        // a thinning of the type set that hits every constructor family (13 is coprime to the
        // family sizes); the loop below is quartic in its length
        let few: Vec<usize> = (0..tys.len()).step_by(if thorough { 5 } else { 13 }).collect();
        let mk = |tr: TraitId<ChalkIr>, s: usize, a: usize| -> DomainGoal<ChalkIr> {
            DomainGoal::Holds(WhereClause::Implemented(TraitRef {
                trait_id: tr,
                substitution: Substitution::from_iter(i, [chalk_tys[s].clone(), chalk_tys[a].clone()]),
            }))
        };
        for &s1 in &few {
            for &a1 in &few {
                for &s2 in &few {
                    for &a2 in few.iter().step_by(2) {
                        for (t1, t2) in [(cx.tr, cx.tr), (cx.tr, cx.tr2)] {
                            let g1 = mk(t1, s1, a1);
                            let g2 = mk(t2, s2, a2);
                            let clause: ProgramClause<ChalkIr> = ProgramClauseData(Binders::empty(
                                i,
                                ProgramClauseImplication { consequence: g1.clone(), conditions: Goals::empty(i), constraints: Constraints::empty(i), priority: ClausePriority::High },
                            ))
                            .intern(i);
                            let r = clause.could_match(i, &*cx.program, &g2);
                            rep.count("could_match_calls", 1);
                            let expect_unif = t1 == t2 && unifiable(&X::App("tuple", vec![tys[s1].clone(), tys[a1].clone()]), &X::App("tuple", vec![tys[s2].clone(), tys[a2].clone()]));
                            if !r {
                                rep.count("could_match_false", 1);
                                if expect_unif {
                                    rep.violation(Violation {
                                        property: "C18".into(),
                                        kind: "filter-rejects-unifiable".into(),
                                        site: "could_match/domain-goal".into(),
                                        what: format!("clause `{}: Tr<{}>` vs goal `{}: Tr<{}>`: could_match = false although they unify", show(&tys[s1]), show(&tys[a1]), show(&tys[s2]), show(&tys[a2])),
                                        input: json!({"clause": [show(&tys[s1]), show(&tys[a1])], "goal": [show(&tys[s2]), show(&tys[a2])]}),
                                    });
                                }
                            }
                        }
                        // different domain-goal variants never unify; nothing to check beyond no panic
                        let wf: DomainGoal<ChalkIr> = DomainGoal::WellFormed(WellFormed::Ty(chalk_tys[s2].clone()));
                        let g1: DomainGoal<ChalkIr> = mk(cx.tr, s1, a1);
                        let _ = g1.could_match(i, &*cx.program, &wf);
                        rep.count("could_match_calls", 1);
                    }
                }
            }
        }
    }
    // (2) impl headers vs trait-reference argument lists through Program::impls_for_trait, and
    // (3) end to end: answers unchanged when the filter is bypassed
    let corpora = core_corpora(thorough, 1);
    for_each_program(rep, &corpora, |pc, goals| {
        let mut local: BTreeMap<String, u64> = BTreeMap::new();
        let impl_ids: Vec<ImplId<ChalkIr>> = pc.chalk.impl_data.keys().cloned().collect();
        for g in goals {
            // (2) only for atomic goals `ty: Tr<..>` (after peeling)
            if let Goal::Atom(atom) = &g.pa.body {
                if let GoalData::DomainGoal(DomainGoal::Holds(WhereClause::Implemented(tr))) = g.peeled.ugoal.canonical.value.goal.data(i) {
                    let got = pc.chalk.impls_for_trait(tr.trait_id, tr.substitution.as_slice(i), &g.peeled.ugoal.canonical.binders);
                    *local.entry("impls_for_trait_calls".into()).or_insert(0) += 1;
                    for (k, rule) in pc.ast.impls.iter().enumerate() {
                        if rule.head.tr != atom.tr {
                            continue;
                        }
                        let applicable = heads_unify(&rule.head, atom);
                        let kept = impl_ids.get(k).map(|id| got.contains(id)).unwrap_or(false);
                        if applicable {
                            *local.entry("applicable_impl_headers".into()).or_insert(0) += 1;
                        }
                        if !kept {
                            *local.entry("impl_headers_filtered_out".into()).or_insert(0) += 1;
                        }
                        if applicable && !kept {
                            let mut s = String::new();
                            crate::ast::render_impl(rule, &mut s);
                            rep.violation(Violation {
                                property: "C18".into(),
                                kind: "impl-filtered-out-but-applicable".into(),
                                site: "Program::impls_for_trait".into(),
                                what: format!("goal `{}`: impls_for_trait drops `{}` although its header unifies with the goal", g.text, s.trim()),
                                input: pc.input(g, "n/a"),
                            });
                        }
                    }
                }
            }
            // (3) bypass
            for cfg in [SolverCfg::SLG, SolverCfg::REC] {
                let (a, _) = drive::solve_fresh(&pc.chalk, &g.peeled, cfg);
                let bypass = BypassDb { inner: pc.chalk.clone() };
                let mut solver = AnySolver::new(cfg);
                let (b, _) = solver.solve(&bypass, &g.peeled.ugoal);
                let b = decode_caught(&pc.chalk, &g.peeled, b);
                *local.entry("end_to_end_pairs".into()).or_insert(0) += 1;
                if let (Caught::Ok(a), Caught::Ok(b)) = (&a, &b) {
                    if a != b {
                        rep.violation(Violation {
                            property: "C18".into(),
                            kind: "answer-changes-when-filter-bypassed".into(),
                            site: format!("{}/{}", cfg.short(), pc.class),
                            what: format!("{} `{}`: with the impl pre-filter {:?}, without it {:?}", cfg.name(), g.text, a, b),
                            input: pc.input(g, &cfg.name()),
                        });
                    }
                }
            }
        }
        rep.merge_counts(&local);
    });
    // (3b) the same end-to-end comparison on the text-level families (associated types: goal
    // arguments containing projections, impls told apart by where-clauses; auto traits; built-ins;
    // lifetimes; custom clauses)
    {
        let texts = super::textcorpus::all(thorough);
        texts.par_iter().for_each(|case| {
            let Ok(program) = drive::load_program(&case.program) else { return };
            let mut local: BTreeMap<String, u64> = BTreeMap::new();
            for g in &case.goals {
                let Ok(peeled) = drive::peel(&program, g) else { continue };
                for cfg in [SolverCfg::SLG, SolverCfg::REC] {
                    let (a, _) = drive::solve_fresh(&program, &peeled, cfg);
                    let bypass = BypassDb { inner: program.clone() };
                    let mut solver = AnySolver::new(cfg);
                    let (b, _) = solver.solve(&bypass, &peeled.ugoal);
                    let b = decode_caught(&program, &peeled, b);
                    *local.entry("end_to_end_pairs".into()).or_insert(0) += 1;
                    *local.entry(format!("end_to_end_pairs_{}", case.family)).or_insert(0) += 1;
                    if let (Caught::Ok(a), Caught::Ok(b)) = (&a, &b) {
                        if a != b {
                            rep.violation(Violation {
                                property: "C18".into(),
                                kind: "answer-changes-when-filter-bypassed".into(),
                                site: format!("{}/{}", cfg.short(), case.family),
                                what: format!("{} `{}`: with the impl pre-filter {:?}, without it {:?}", cfg.name(), g, a, b),
                                input: json!({"program": case.program, "goal": g, "solver": cfg.name()}),
                            });
                        }
                    }
                }
            }
            rep.merge_counts(&local);
        });
    }
    rep.sample(json!({"pair": [show(&tys[12]), show(&tys[40])], "could_match": chalk_tys[12].could_match(i, &*cx.program, &chalk_tys[40])}));
    rep.sample(json!({"pair": ["tuple<A>", "tuple<A, A>"], "expected": "false (different arity), not unifiable"}));
    c01::vacuity(rep, &["could_match_false", "impl_headers_filtered_out", "applicable_impl_headers", "end_to_end_pairs"]);
    let states = (tys.len() * tys.len()) as u64 + rep.get("impls_for_trait_calls");
    let tr = rep.get("could_match_calls") + rep.get("impls_for_trait_calls") + 2 * rep.get("end_to_end_pairs");
    let nt = rep.get("could_match_false") + rep.get("impl_headers_filtered_out");
    rep.finish(
        states,
        tr,
        nt,
        "(1) every ordered pair of a set of types of depth <= 2 (3 in thorough) over ADTs (invariant and covariant), scalars, str, never, tuples of arity 0-2, slices, raw pointers, references, arrays, fn pointers (safe/unsafe/C/variadic), fn definitions, closures, foreign types, applied associated types and opaque types (two ids each), bound variables, inference variables and placeholders through could_match, plus clause-vs-goal pairs of trait references; (2) every impl header of the reduced C01 corpus against every atomic goal through Program::impls_for_trait; (3) every (program, goal, solver) solved with and without the pre-filter (database wrapper returning all impls of the trait); non-trivial = pairs the filter rejects (each checked to be non-unifiable by REF)",
        true,
        &["REF = Robinson unification with the unknowns of the two sides kept apart; lifetimes and consts unify with anything"],
    )
}

fn head(x: &X) -> String {
    match x {
        X::App(n, _) => n.to_string(),
        X::B(_) => "bound".into(),
        X::Inf(_) => "infer".into(),
        _ => "other".into(),
    }
}

/// Do an impl header and a goal atom unify (variables of the two kept apart)?
fn heads_unify(head: &Atom, goal: &Atom) -> bool {
    fn conv(t: &Ty) -> X {
        match t {
            Ty::Var(v) => X::B(*v as usize),
            Ty::Skolem(u, i) => X::Ph((*u * 8 + *i) as usize),
            Ty::App(n, a) => X::App(Box::leak(n.clone().into_boxed_str()), a.iter().map(conv).collect()),
        }
    }
    let a = X::App("tuple", head.tys().map(conv).collect());
    let b = X::App("tuple", goal.tys().map(conv).collect());
    unifiable(&a, &b)
}

/// Database wrapper that bypasses the impl pre-filter.
#[derive(Debug)]
struct BypassDb {
    inner: std::sync::Arc<chalk_integration::program::Program>,
}

macro_rules! fwd {
    ($( fn $name:ident(&self $(, $arg:ident : $ty:ty)*) -> $ret:ty; )*) => {
        $( fn $name(&self $(, $arg: $ty)*) -> $ret { self.inner.$name($($arg),*) } )*
    };
}

use chalk_solve::rust_ir::*;
use std::sync::Arc;
impl RustIrDatabase<ChalkIr> for BypassDb {
    fwd! {
        fn custom_clauses(&self) -> Vec<ProgramClause<ChalkIr>>;
        fn associated_ty_data(&self, ty: AssocTypeId<ChalkIr>) -> Arc<AssociatedTyDatum<ChalkIr>>;
        fn trait_datum(&self, id: TraitId<ChalkIr>) -> Arc<TraitDatum<ChalkIr>>;
        fn adt_datum(&self, id: AdtId<ChalkIr>) -> Arc<AdtDatum<ChalkIr>>;
        fn coroutine_datum(&self, id: CoroutineId<ChalkIr>) -> Arc<CoroutineDatum<ChalkIr>>;
        fn coroutine_witness_datum(&self, id: CoroutineId<ChalkIr>) -> Arc<CoroutineWitnessDatum<ChalkIr>>;
        fn adt_repr(&self, id: AdtId<ChalkIr>) -> Arc<AdtRepr<ChalkIr>>;
        fn adt_size_align(&self, id: AdtId<ChalkIr>) -> Arc<AdtSizeAlign>;
        fn fn_def_datum(&self, id: FnDefId<ChalkIr>) -> Arc<FnDefDatum<ChalkIr>>;
        fn impl_datum(&self, id: ImplId<ChalkIr>) -> Arc<ImplDatum<ChalkIr>>;
        fn associated_ty_from_impl(&self, impl_id: ImplId<ChalkIr>, assoc_type_id: AssocTypeId<ChalkIr>) -> Option<AssociatedTyValueId<ChalkIr>>;
        fn associated_ty_value(&self, id: AssociatedTyValueId<ChalkIr>) -> Arc<AssociatedTyValue<ChalkIr>>;
        fn opaque_ty_data(&self, id: OpaqueTyId<ChalkIr>) -> Arc<OpaqueTyDatum<ChalkIr>>;
        fn hidden_opaque_type(&self, id: OpaqueTyId<ChalkIr>) -> CTy<ChalkIr>;
        fn local_impls_to_coherence_check(&self, trait_id: TraitId<ChalkIr>) -> Vec<ImplId<ChalkIr>>;
        fn impl_provided_for(&self, auto_trait_id: TraitId<ChalkIr>, ty: &TyKind<ChalkIr>) -> bool;
        fn well_known_trait_id(&self, t: WellKnownTrait) -> Option<TraitId<ChalkIr>>;
        fn well_known_assoc_type_id(&self, t: WellKnownAssocType) -> Option<AssocTypeId<ChalkIr>>;
        fn interner(&self) -> ChalkIr;
        fn is_object_safe(&self, trait_id: TraitId<ChalkIr>) -> bool;
        fn closure_kind(&self, id: ClosureId<ChalkIr>, substs: &Substitution<ChalkIr>) -> ClosureKind;
        fn closure_inputs_and_output(&self, id: ClosureId<ChalkIr>, substs: &Substitution<ChalkIr>) -> Binders<FnDefInputsAndOutputDatum<ChalkIr>>;
        fn closure_upvars(&self, id: ClosureId<ChalkIr>, substs: &Substitution<ChalkIr>) -> Binders<CTy<ChalkIr>>;
        fn closure_fn_substitution(&self, id: ClosureId<ChalkIr>, substs: &Substitution<ChalkIr>) -> Substitution<ChalkIr>;
        fn discriminant_type(&self, ty: CTy<ChalkIr>) -> CTy<ChalkIr>;
    }
    fn impls_for_trait(
        &self,
        trait_id: TraitId<ChalkIr>,
        _parameters: &[GenericArg<ChalkIr>],
        _binders: &CanonicalVarKinds<ChalkIr>,
    ) -> Vec<ImplId<ChalkIr>> {
        // no pre-filter: every impl of the trait
        self.inner
            .impl_data
            .iter()
            .filter(|(_, d)| d.trait_id() == trait_id)
            .map(|(id, _)| *id)
            .collect()
    }
    fn program_clauses_for_env(&self, environment: &Environment<ChalkIr>) -> ProgramClauses<ChalkIr> {
        chalk_solve::program_clauses_for_env(self, environment)
    }
    fn unification_database(&self) -> &dyn UnificationDatabase<ChalkIr> {
        &*self.inner
    }
}

#[allow(dead_code)]
fn _unused(_: GenericArg<ChalkIr>) {
    let _ = |t: CTy<ChalkIr>| -> GenericArg<ChalkIr> { t.cast(ChalkIr) };
}
