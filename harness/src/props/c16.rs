//! C16: canonical forms identify queries up to renaming; instantiate/canonicalize
//! round trip; universe compression is monotone and can be undone.

use crate::drive::{self, Caught};
use crate::report::{Report, Violation};
use chalk_integration::interner::ChalkIr;
use chalk_ir::*;
use chalk_solve::infer::ucanonicalize::UniverseMapExt;
use chalk_solve::infer::InferenceTable;
use rayon::prelude::*;
use serde_json::json;

#[derive(Copy, Clone, Debug, PartialEq, Eq, Hash, PartialOrd, Ord)]
pub enum K {
    Ty,
    Lt,
    Const,
}

/// A value term. Variables are indexed into the table's variable list.
#[derive(Clone, Debug, PartialEq, Eq, Hash, PartialOrd, Ord)]
pub enum V {
    Var(usize),
    /// (kind, universe, idx)
    Ph(K, usize, usize),
    Static,
    CVal(u32),
    /// canonical bound variable (after canonicalization)
    Bound(usize),
    App(&'static str, Vec<V>),
}

/// (kind, universe) of the table's variables
pub const VARS: [(K, usize); 7] = [
    (K::Ty, 0),    // ?a
    (K::Ty, 2),    // ?b
    (K::Ty, 2),    // ?c
    (K::Lt, 0),    // 'x
    (K::Lt, 2),    // 'y
    (K::Const, 0), // ?N
    (K::Const, 2), // ?M
];
const NAMES: [&str; 7] = ["?a@U0", "?b@U2", "?c@U2", "'x@U0", "'y@U2", "?N@U0", "?M@U2"];

pub fn show(v: &V) -> String {
    match v {
        V::Var(i) => NAMES[*i].to_string(),
        V::Ph(k, u, i) => format!("{}!{}_{}", match k { K::Ty => "", K::Lt => "'", K::Const => "c" }, u, i),
        V::Static => "'static".into(),
        V::CVal(n) => format!("{}", n),
        V::Bound(i) => format!("^{}", i),
        V::App(n, a) if a.is_empty() => n.to_string(),
        V::App(n, a) => format!("{}<{}>", n, a.iter().map(show).collect::<Vec<_>>().join(", ")),
    }
}

fn usize_ty() -> Ty<ChalkIr> {
    TyKind::Scalar(Scalar::Uint(UintTy::Usize)).intern(ChalkIr)
}

struct Ctx {
    adt_a: AdtId<ChalkIr>,
    adt_s: AdtId<ChalkIr>,
    program: std::sync::Arc<chalk_integration::program::Program>,
}

impl Ctx {
    fn new() -> Ctx {
        let program = drive::load_program("struct A {} struct S<T> {}").unwrap();
        let get = |n: &str| *program.adt_ids.iter().find(|(k, _)| k.to_string() == n).unwrap().1;
        Ctx { adt_a: get("A"), adt_s: get("S"), program }
    }

    fn new_table(&self) -> (InferenceTable<ChalkIr>, Vec<InferenceVar>) {
        let mut t = InferenceTable::new();
        let us = [UniverseIndex::root(), t.new_universe(), t.new_universe(), t.new_universe()];
        let vars = VARS.iter().map(|(_, u)| InferenceVar::from(t.new_variable(us[*u]))).collect();
        (t, vars)
    }

    fn lifetime(&self, v: &V, vars: &[InferenceVar]) -> Lifetime<ChalkIr> {
        let i = ChalkIr;
        match v {
            V::Var(x) => vars[*x].to_lifetime(i),
            V::Ph(K::Lt, u, idx) => LifetimeData::Placeholder(PlaceholderIndex { ui: UniverseIndex { counter: *u }, idx: *idx }).intern(i),
            V::Static => LifetimeData::Static.intern(i),
            V::Bound(b) => LifetimeData::BoundVar(BoundVar::new(DebruijnIndex::INNERMOST, *b)).intern(i),
            o => panic!("not a lifetime: {:?}", o),
        }
    }

    fn konst(&self, v: &V, vars: &[InferenceVar]) -> Const<ChalkIr> {
        let i = ChalkIr;
        match v {
            V::Var(x) => vars[*x].to_const(i, usize_ty()),
            V::Ph(K::Const, u, idx) => PlaceholderIndex { ui: UniverseIndex { counter: *u }, idx: *idx }.to_const(i, usize_ty()),
            V::CVal(n) => ConstData {
                ty: usize_ty(),
                value: ConstValue::Concrete(ConcreteConst { interned: *n }),
            }
            .intern(i),
            V::Bound(b) => ConstData { ty: usize_ty(), value: ConstValue::BoundVar(BoundVar::new(DebruijnIndex::INNERMOST, *b)) }.intern(i),
            o => panic!("not a const: {:?}", o),
        }
    }

    fn ty(&self, v: &V, vars: &[InferenceVar]) -> Ty<ChalkIr> {
        let i = ChalkIr;
        match v {
            V::Var(x) => vars[*x].to_ty(i, TyVariableKind::General),
            V::Ph(K::Ty, u, idx) => TyKind::Placeholder(PlaceholderIndex { ui: UniverseIndex { counter: *u }, idx: *idx }).intern(i),
            V::Bound(b) => TyKind::BoundVar(BoundVar::new(DebruijnIndex::INNERMOST, *b)).intern(i),
            V::App("A", _) => TyKind::Adt(self.adt_a, Substitution::empty(i)).intern(i),
            V::App("S", a) => TyKind::Adt(self.adt_s, Substitution::from1(i, self.ty(&a[0], vars))).intern(i),
            V::App("tuple", a) => TyKind::Tuple(a.len(), Substitution::from_iter(i, a.iter().map(|x| self.ty(x, vars)))).intern(i),
            V::App("ref", a) => TyKind::Ref(Mutability::Not, self.lifetime(&a[0], vars), self.ty(&a[1], vars)).intern(i),
            V::App("array", a) => TyKind::Array(self.ty(&a[0], vars), self.konst(&a[1], vars)).intern(i),
            o => panic!("not a type: {:?}", o),
        }
    }

    fn back_lt(&self, l: &Lifetime<ChalkIr>) -> V {
        match l.data(ChalkIr) {
            LifetimeData::BoundVar(b) => V::Bound(b.index),
            LifetimeData::Placeholder(p) => V::Ph(K::Lt, p.ui.counter, p.idx),
            LifetimeData::Static => V::Static,
            LifetimeData::InferenceVar(v) => V::App("INFER", vec![V::CVal(v.index())]),
            o => panic!("unexpected lifetime {:?}", o),
        }
    }
    fn back_const(&self, c: &Const<ChalkIr>) -> V {
        match &c.data(ChalkIr).value {
            ConstValue::BoundVar(b) => V::Bound(b.index),
            ConstValue::Placeholder(p) => V::Ph(K::Const, p.ui.counter, p.idx),
            ConstValue::Concrete(c) => V::CVal(c.interned),
            ConstValue::InferenceVar(v) => V::App("INFER", vec![V::CVal(v.index())]),
        }
    }
    fn back(&self, t: &Ty<ChalkIr>) -> V {
        let i = ChalkIr;
        match t.kind(i) {
            TyKind::BoundVar(b) => V::Bound(b.index),
            TyKind::Placeholder(p) => V::Ph(K::Ty, p.ui.counter, p.idx),
            TyKind::Adt(id, s) => {
                if *id == self.adt_a {
                    V::App("A", vec![])
                } else {
                    V::App("S", vec![self.back(s.at(i, 0).assert_ty_ref(i))])
                }
            }
            TyKind::Tuple(_, s) => V::App("tuple", s.iter(i).map(|a| self.back(a.assert_ty_ref(i))).collect()),
            TyKind::Ref(_, l, x) => V::App("ref", vec![self.back_lt(l), self.back(x)]),
            TyKind::Array(x, c) => V::App("array", vec![self.back(x), self.back_const(c)]),
            TyKind::InferenceVar(v, _) => V::App("INFER", vec![V::CVal(v.index())]),
            o => panic!("unexpected type {:?}", o),
        }
    }
}

/// REF view of a (pre-unified) table: bindings and root universes.
#[derive(Clone, Debug)]
struct RefTable {
    /// var -> term it is bound to (another var, or a structure)
    bind: Vec<Option<V>>,
    universe: Vec<usize>,
}

impl RefTable {
    fn resolve(&self, v: &V) -> V {
        match v {
            V::Var(x) => match &self.bind[*x] {
                Some(b) => self.resolve(b),
                None => v.clone(),
            },
            V::App(n, a) => V::App(n, a.iter().map(|x| self.resolve(x)).collect()),
            o => o.clone(),
        }
    }
    /// first-occurrence numbering; returns (value, binders as (kind, universe))
    fn canon(&self, v: &V) -> (V, Vec<(K, usize)>) {
        let r = self.resolve(v);
        let mut order: Vec<usize> = vec![];
        fn go(v: &V, order: &mut Vec<usize>) -> V {
            match v {
                V::Var(x) => {
                    let i = order.iter().position(|y| y == x).unwrap_or_else(|| {
                        order.push(*x);
                        order.len() - 1
                    });
                    V::Bound(i)
                }
                V::App(n, a) => V::App(n, a.iter().map(|x| go(x, order)).collect()),
                o => o.clone(),
            }
        }
        let out = go(&r, &mut order);
        let b = order.iter().map(|x| (VARS[*x].0, self.universe[*x])).collect();
        (out, b)
    }
}

fn pre_states(cx: &Ctx) -> Vec<(&'static str, InferenceTable<ChalkIr>, Vec<InferenceVar>, RefTable)> {
    let base = RefTable { bind: vec![None; VARS.len()], universe: VARS.iter().map(|v| v.1).collect() };
    let a = || V::App("A", vec![]);
    let specs: Vec<(&'static str, Option<(V, V)>, Box<dyn Fn(&mut RefTable)>)> = vec![
        ("initial", None, Box::new(|_| {})),
        ("?a = ?b", Some((V::Var(0), V::Var(1))), Box::new(|r| { r.bind[1] = Some(V::Var(0)); r.universe[0] = 0; })),
        ("?b = ?c", Some((V::Var(1), V::Var(2))), Box::new(|r| { r.bind[2] = Some(V::Var(1)); })),
        ("?b = S<?c>", Some((V::Var(1), V::App("S", vec![V::Var(2)]))), Box::new(|r| { r.bind[1] = Some(V::App("S", vec![V::Var(2)])); })),
        ("?a = S<?b>", Some((V::Var(0), V::App("S", vec![V::Var(1)]))), Box::new(|r| { r.bind[0] = Some(V::App("S", vec![V::Var(1)])); r.universe[1] = 0; })),
        ("[A; ?N] = [A; ?M]", Some((V::App("array", vec![a(), V::Var(5)]), V::App("array", vec![a(), V::Var(6)]))), Box::new(|r| { r.bind[6] = Some(V::Var(5)); r.universe[5] = 0; })),
        ("&'x A = &'y A", Some((V::App("ref", vec![V::Var(3), a()]), V::App("ref", vec![V::Var(4), a()]))), Box::new(|r| { r.bind[4] = Some(V::Var(3)); r.universe[3] = 0; })),
        ("?c = !1_0 fails; ?b = !3_0 fails; table unchanged", None, Box::new(|_| {})),
    ];
    let env = Environment::new(ChalkIr);
    let mut out = vec![];
    for (name, op, f) in specs {
        let (mut t, vars) = cx.new_table();
        if let Some((x, y)) = op {
            let tx = cx.ty(&x, &vars);
            let ty = cx.ty(&y, &vars);
            t.relate(ChalkIr, &*cx.program, &env, Variance::Invariant, &tx, &ty).expect("pre-unification succeeds");
        }
        if name.starts_with("?c = !1_0") {
            let ph = cx.ty(&V::Ph(K::Ty, 3, 0), &vars);
            let b = cx.ty(&V::Var(1), &vars);
            assert!(t.relate(ChalkIr, &*cx.program, &env, Variance::Invariant, &b, &ph).is_err());
        }
        let mut r = base.clone();
        f(&mut r);
        out.push((name, t, vars, r));
    }
    out
}

fn ty_terms() -> Vec<V> {
    let ty_leaves = vec![V::Var(0), V::Var(1), V::Var(2), V::Ph(K::Ty, 1, 0), V::Ph(K::Ty, 3, 0), V::App("A", vec![])];
    let lts = vec![V::Var(3), V::Var(4), V::Ph(K::Lt, 1, 1), V::Ph(K::Lt, 3, 1), V::Static];
    let cs = vec![V::Var(5), V::Var(6), V::Ph(K::Const, 1, 2), V::Ph(K::Const, 3, 2), V::CVal(3)];
    let mut v = ty_leaves.clone();
    for t in &ty_leaves {
        v.push(V::App("S", vec![t.clone()]));
    }
    for l in &lts {
        for t in &ty_leaves {
            v.push(V::App("ref", vec![l.clone(), t.clone()]));
        }
    }
    for t in &ty_leaves {
        for c in &cs {
            v.push(V::App("array", vec![t.clone(), c.clone()]));
        }
    }
    v
}

fn binders_of(b: &CanonicalVarKinds<ChalkIr>) -> Vec<(K, usize)> {
    b.iter(ChalkIr)
        .map(|k| {
            (
                match k.kind {
                    VariableKind::Ty(_) => K::Ty,
                    VariableKind::Lifetime => K::Lt,
                    VariableKind::Const(_) => K::Const,
                },
                k.skip_kind().counter,
            )
        })
        .collect()
}

/// swap two variables in a value
fn swap(v: &V, x: usize, y: usize) -> V {
    match v {
        V::Var(i) if *i == x => V::Var(y),
        V::Var(i) if *i == y => V::Var(x),
        V::App(n, a) => V::App(n, a.iter().map(|t| swap(t, x, y)).collect()),
        o => o.clone(),
    }
}

pub fn run_c16(rep: &Report) -> i32 {
    let cx = Ctx::new();
    let terms = ty_terms();
    let states = pre_states(&cx);
    rep.note("terms", json!(terms.len()));
    rep.note("pre_unified_tables", json!(states.iter().map(|s| s.0).collect::<Vec<_>>()));
    let thorough = rep.is_thorough();
    for (sname, table, vars, reft) in &states {
        // values: pairs of terms (thorough: also triples with a fixed third component range)
        let n = terms.len();
        (0..n).into_par_iter().for_each(|i1| {
            for i2 in 0..n {
                let thirds: Vec<Option<usize>> = if thorough { (0..n).step_by(7).map(Some).chain(std::iter::once(None)).collect() } else { vec![None] };
                for i3 in &thirds {
                    let mut comps = vec![terms[i1].clone(), terms[i2].clone()];
                    if let Some(k) = i3 {
                        comps.push(terms[*k].clone());
                    }
                    let value = V::App("tuple", comps);
                    check_value(rep, &cx, sname, table, vars, reft, &value);
                }
            }
        });
    }
    crate::props::c01::vacuity(rep, &["values", "values_with_repeated_unknown", "ucanon_with_compression"]);
    let states_n = rep.get("distinct_canonical_forms_upper_bound");
    let _ = states_n;
    let values = rep.get("values");
    let calls = rep.get("api_calls");
    let nt = rep.get("values_with_unknowns");
    rep.finish(
        values,
        calls,
        nt,
        "every tuple of 2 (thorough: also 3) type terms of depth <= 2 over ADTs, references (lifetime position) and arrays (const position) with unknowns of every kind created in universes 0 and 2, placeholders of every kind from universes 1 and 3, repeated unknowns, canonicalized over 8 tables (initial and 7 pre-unified / previously-failed ones); oracles: first-occurrence numbering with kind and current universe (REF), invariance under swapping same-kind same-universe unknowns, canonicalize(instantiate(c)) = c, u_canonicalize monotone onto 0..n and undone by map_from_canonical; non-trivial = values containing at least one unknown",
        true,
        &["REF canonicalization = resolve through the expected bindings, then number unknowns left to right (harness/src/props/c16.rs)"],
    )
}

#[allow(clippy::too_many_arguments)]
fn check_value(
    rep: &Report,
    cx: &Ctx,
    sname: &str,
    table: &InferenceTable<ChalkIr>,
    vars: &[InferenceVar],
    reft: &RefTable,
    value: &V,
) {
    let i = ChalkIr;
    rep.count("values", 1);
    let input = || json!({"table": sname, "value": show(value)});
    let viol = |kind: &str, site: &str, what: String| {
        rep.violation(Violation { property: "C16".into(), kind: kind.into(), site: site.into(), what: format!("[{}] {} :: {}", sname, show(value), what), input: input() });
    };
    let ty = cx.ty(value, vars);
    let mut t = table.clone();
    let c = match drive::guarded(|| t.canonicalize(i, ty.clone())) {
        Caught::Ok(c) => c,
        Caught::Panic(loc, msg) => {
            viol("panic", &crate::report::panic_site(&loc, &msg), format!("canonicalize panics: {}", msg));
            return;
        }
        _ => return,
    };
    rep.count("api_calls", 1);
    let got = (cx.back(&c.quantified.value), binders_of(&c.quantified.binders));
    let want = reft.canon(value);
    if !want.1.is_empty() {
        rep.count("values_with_unknowns", 1);
    }
    {
        // repeated unknown?
        let mut seen = vec![];
        fn occ(v: &V, seen: &mut Vec<usize>, rep: &mut bool) {
            match v {
                V::Bound(i) => {
                    if seen.contains(i) {
                        *rep = true
                    } else {
                        seen.push(*i)
                    }
                }
                V::App(_, a) => a.iter().for_each(|x| occ(x, seen, rep)),
                _ => {}
            }
        }
        let mut r = false;
        occ(&want.0, &mut seen, &mut r);
        if r {
            rep.count("values_with_repeated_unknown", 1);
        }
    }
    // (a) numbering, kinds, universes
    if got != want {
        viol(
            "canonical-form-differs-from-first-occurrence-numbering",
            "canonicalize",
            format!("chalk: {} binders {:?}; expected: {} binders {:?}", show(&got.0), got.1, show(&want.0), want.1),
        );
        return;
    }
    if c.free_vars.len() != want.1.len() {
        viol("free-vars-length", "canonicalize", format!("{} free vars for {} binders", c.free_vars.len(), want.1.len()));
    }
    // (b) swapping same-kind same-universe unknowns (?b <-> ?c when both unbound and in the same universe)
    if reft.bind[1].is_none() && reft.bind[2].is_none() && reft.universe[1] == reft.universe[2] {
        let sw = swap(value, 1, 2);
        if sw != *value {
            let mut t2 = table.clone();
            let c2 = t2.canonicalize(i, cx.ty(&sw, vars));
            rep.count("api_calls", 1);
            rep.count("permutations_checked", 1);
            if c2.quantified != c.quantified {
                viol("renaming-changes-canonical-form", "canonicalize", format!("swapping ?b and ?c gives {:?}", c2.quantified));
            }
        }
    }
    // (d) instantiate then canonicalize gives it back
    {
        let mut fresh: InferenceTable<ChalkIr> = InferenceTable::new();
        for _ in 0..3 {
            fresh.new_universe();
        }
        let inst = fresh.instantiate_canonical(i, c.quantified.clone());
        let again = fresh.canonicalize(i, inst);
        rep.count("api_calls", 2);
        if again.quantified != c.quantified {
            viol("instantiate-canonicalize-round-trip", "instantiate_canonical", format!("got {:?}, expected {:?}", again.quantified, c.quantified));
        }
    }
    // (e) universe compression
    {
        let u = InferenceTable::u_canonicalize(i, &c.quantified);
        rep.count("api_calls", 1);
        let us = &u.universes.universes;
        if us.windows(2).any(|w| w[0] >= w[1]) || us.first().map(|x| x.counter) != Some(0) {
            viol("universe-map-not-monotone", "u_canonicalize", format!("map {:?}", us));
        }
        if u.quantified.universes != us.len() {
            viol("universe-count", "u_canonicalize", format!("universes={} map len={}", u.quantified.universes, us.len()));
        }
        // expected compressed form: every universe index replaced by its rank
        let rank = |x: usize| us.iter().position(|k| k.counter == x);
        fn remap(v: &V, rank: &dyn Fn(usize) -> Option<usize>) -> Option<V> {
            Some(match v {
                V::Ph(k, u, i) => V::Ph(*k, rank(*u)?, *i),
                V::App(n, a) => V::App(n, a.iter().map(|x| remap(x, rank)).collect::<Option<Vec<_>>>()?),
                o => o.clone(),
            })
        }
        let exp_val = remap(&got.0, &rank);
        let exp_b: Option<Vec<(K, usize)>> = got.1.iter().map(|(k, x)| rank(*x).map(|r| (*k, r))).collect();
        let ugot = (cx.back(&u.quantified.canonical.value), binders_of(&u.quantified.canonical.binders));
        match (exp_val, exp_b) {
            (Some(v), Some(b)) => {
                if (v.clone(), b.clone()) != ugot {
                    viol("compressed-form-wrong", "u_canonicalize", format!("got {} {:?}, expected {} {:?}", show(&ugot.0), ugot.1, show(&v), b));
                }
                if us.len() < 4 && us.iter().any(|x| x.counter > 0) && us.last().map(|x| x.counter + 1) != Some(us.len()) {
                    rep.count("ucanon_with_compression", 1);
                }
            }
            _ => viol("universe-missing-from-map", "u_canonicalize", format!("map {:?} misses a universe of {}", us, show(&got.0))),
        }
        let restored = u.universes.map_from_canonical(i, &u.quantified.canonical);
        rep.count("api_calls", 1);
        if restored != c.quantified {
            let site = if format!("{:?}", got.0).contains("Const") { "map_from_canonical/const-placeholder" } else { "map_from_canonical" };
            viol(
                "compression-not-undone",
                site,
                format!("map_from_canonical gives {} but the original canonical value is {}", show(&cx.back(&restored.value)), show(&got.0)),
            );
        }
    }
    // a handful of samples for the evidence: the first value seen and every 40 000th
    static FIRST: std::sync::atomic::AtomicBool = std::sync::atomic::AtomicBool::new(true);
    if FIRST.swap(false, std::sync::atomic::Ordering::Relaxed) || rep.get("values") % 40_000 == 1 {
        rep.sample(json!({"table": sname, "value": show(value), "canonical": show(&got.0), "binders": format!("{:?}", got.1)}));
    }
}
