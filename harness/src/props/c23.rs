//! C23: the logged program reproduces the solver's answers.

use super::*;
use crate::drive::{decode_caught, AnySolver, Caught, DSol, SolverCfg};
use crate::report::{panic_site, Violation};
use chalk_integration::program::Program as CProgram;
use chalk_solve::logging_db::LoggingRustIrDatabase;
use std::collections::BTreeMap;

/// All sequences of length 1..=max over 0..n.
fn sequences(n: usize, max: usize) -> Vec<Vec<usize>> {
    let mut out = vec![];
    fn rec(n: usize, max: usize, cur: &mut Vec<usize>, out: &mut Vec<Vec<usize>>) {
        if !cur.is_empty() {
            out.push(cur.clone());
        }
        if cur.len() == max {
            return;
        }
        for i in 0..n {
            cur.push(i);
            rec(n, max, cur, out);
            cur.pop();
        }
    }
    rec(n, max, &mut vec![], &mut out);
    out
}

#[allow(clippy::too_many_arguments)]
fn check_sequence(
    rep: &Report,
    local: &mut BTreeMap<String, u64>,
    family: &str,
    program_text: &str,
    program: &Arc<CProgram>,
    goal_texts: &[String],
    seq: &[usize],
    cfg: SolverCfg,
    // also print the recorded program after every goal but the last (printing must not disturb
    // what later prints contain: "after any goals" includes after a prefix)
    print_between: bool,
) {
    // 1. solve the sequence through the recording wrapper (one solver, one wrapper)
    let wrapped = LoggingRustIrDatabase::<_, CProgram, _>::new(program.clone());
    let mut solver = AnySolver::new(cfg);
    let mut originals: Vec<DSol> = vec![];
    for (k, &gi) in seq.iter().enumerate() {
        let peeled = match drive::peel(program, &goal_texts[gi]) {
            Ok(p) => p,
            Err(_) => return,
        };
        let (r, _) = solver.solve(&wrapped, &peeled.ugoal);
        *local.entry("solver_calls".into()).or_insert(0) += 1;
        match decode_caught(program, &peeled, r) {
            Caught::Ok(s) => originals.push(s),
            _ => return, // C09's business
        }
        if print_between && k + 1 < seq.len() {
            let _ = drive::guarded(|| chalk_integration::tls::set_current_program(program, || wrapped.to_string()));
            *local.entry("intermediate_prints".into()).or_insert(0) += 1;
        }
    }
    let input = || json!({"family": family, "program": program_text, "goals": seq.iter().map(|g| goal_texts[*g].clone()).collect::<Vec<_>>(), "solver": cfg.name(), "printed_after_each_goal": print_between});
    // 2. print the recorded program
    let printed = drive::guarded(|| chalk_integration::tls::set_current_program(program, || wrapped.to_string()));
    let printed = match printed {
        Caught::Ok(t) => t,
        Caught::Panic(loc, msg) => {
            rep.violation(Violation { property: "C23".into(), kind: "panic-while-printing".into(), site: panic_site(&loc, &msg), what: format!("printing the logged program panics: {}", msg), input: input() });
            return;
        }
        _ => return,
    };
    *local.entry("logged_programs".into()).or_insert(0) += 1;
    // 3. parse + lower it
    let reloaded = match drive::guarded(|| drive::load_program(&printed)) {
        Caught::Ok(Ok(p)) => p,
        Caught::Ok(Err(e)) => {
            let slug: String = e.chars().filter(|c| c.is_ascii_alphabetic() || *c == ' ').take(40).collect::<String>().trim().replace(' ', "-");
            rep.violation(Violation {
                property: "C23".into(),
                kind: "logged-program-does-not-lower".into(),
                site: format!("{}/{}", family, slug),
                what: format!("the logged program does not parse/lower: {} :: {}", e, printed.replace('\n', " ")),
                input: input(),
            });
            return;
        }
        Caught::Panic(loc, msg) => {
            rep.violation(Violation { property: "C23".into(), kind: "panic-while-reloading".into(), site: panic_site(&loc, &msg), what: format!("lowering the logged program panics: {}", msg), input: input() });
            return;
        }
        _ => return,
    };
    // 4. same goals, fresh solver, on the logged program
    let mut solver2 = AnySolver::new(cfg);
    for (k, &gi) in seq.iter().enumerate() {
        let peeled = match drive::peel(&reloaded, &goal_texts[gi]) {
            Ok(p) => p,
            Err(e) => {
                // the goal names an item the solver never asked the database about
                *local.entry("goals_naming_unrecorded_items".into()).or_insert(0) += 1;
                let trivially_none = matches!(originals[k], DSol::NoSolution);
                rep.violation(Violation {
                    property: "C23".into(),
                    kind: "goal-does-not-lower-on-logged-program".into(),
                    site: {
                        let _ = trivially_none;
                        "goal-names-unrecorded-item".to_string()
                    },
                    what: format!("`{}` does not lower against the logged program ({}); original answer {}", goal_texts[gi], e, originals[k].tag()),
                    input: input(),
                });
                continue;
            }
        };
        let (r, _) = solver2.solve(&*reloaded, &peeled.ugoal);
        *local.entry("solver_calls".into()).or_insert(0) += 1;
        match decode_caught(&reloaded, &peeled, r) {
            Caught::Ok(got) => {
                *local.entry("answers_compared".into()).or_insert(0) += 1;
                if !matches!(got, DSol::NoSolution) {
                    *local.entry("answers_compared_not_none".into()).or_insert(0) += 1;
                }
                if got != originals[k] {
                    rep.violation(Violation {
                        property: "C23".into(),
                        kind: "answer-differs-on-logged-program".into(),
                        // the printed program lists items in another order, so the order-dependence
                        // of SLG aggregation (D22, D1) shows up here too; keep it apart from anything else
                        site: if matches!(drive::solve_fresh(&reloaded, &peeled, cfg).0, Caught::Ok(ref f) if *f == originals[k]) {
                            // a FRESH solver on the logged program gives the original answer: the deviation
                            // is the solver's history dependence (D16, C10's subject), met on the logged
                            // program because it lists the impls in another order
                            format!("{}/history-dependent-on-logged-program", cfg.short())
                        } else if super::c13::trivial_unique_vs_unknown(&got, &originals[k]) {
                            format!("{}/trivial-unique-vs-unknown", cfg.short())
                        } else if super::c13::nonlinear_only(&got, &originals[k]) {
                            format!("{}/nonlinear-only", cfg.short())
                        } else if family == "auto"
                            && ["S1", "S2", "N", "A"].iter().any(|n| {
                                let pat = format!("Send for {}", n);
                                program_text.contains(&pat) && !printed.contains(&pat)
                            })
                        {
                            // an explicit impl that only acts through `impl_provided_for` (it suppresses the
                            // structural auto-trait rule of its ADT) is missing from the logged program
                            format!("{}/suppressing-impl-not-recorded", cfg.short())
                        } else {
                            format!("{}/{}", family, cfg.short())
                        },
                        what: format!("{} `{}`: original {:?}, on the logged program {:?} :: {}", cfg.name(), goal_texts[gi], originals[k], got, printed.replace('\n', " ")),
                        input: input(),
                    });
                }
            }
            Caught::Panic(loc, msg) => rep.violation(Violation { property: "C23".into(), kind: "panic-on-logged-program".into(), site: panic_site(&loc, &msg), what: format!("solving `{}` on the logged program panics: {}", goal_texts[gi], msg), input: input() }),
            _ => {}
        }
    }
}

pub fn run_c23(rep: &Report) -> i32 {
    let thorough = rep.is_thorough();
    let max_len = if thorough { 3 } else { 2 };
    let corpora = core_corpora(thorough, 1);
    for_each_program(rep, &corpora, |pc, goals| {
        if !thorough && pc.pi % 3 != 0 {
            return;
        }
        let mut local = BTreeMap::new();
        let alpha = super::c10::alphabet(pc.frag, goals, if thorough { 5 } else { 4 });
        let texts: Vec<String> = alpha.iter().map(|g| g.text.clone()).collect();
        // (thorough: sequences of length 3 on every fourth program — the full product took 80 minutes)
        let max_len_here = if max_len == 3 && pc.pi % 4 != 0 { 2 } else { max_len };
        for seq in sequences(texts.len(), max_len_here) {
            for cfg in [SolverCfg::SLG, SolverCfg::REC] {
                *local.entry("sequences".into()).or_insert(0) += 1;
                check_sequence(rep, &mut local, pc.frag, &pc.text, &pc.chalk, &texts, &seq, cfg, false);
                if seq.len() == 2 {
                    check_sequence(rep, &mut local, pc.frag, &pc.text, &pc.chalk, &texts, &seq, cfg, true);
                }
            }
        }
        rep.merge_counts(&local);
    });
    // text families (auto traits, associated types, built-ins, ...): first goals of each case
    // the property quantifies over the C01/C05/C07 fragments: core corpus (above), auto traits, associated types
    let mut texts = super::textcorpus::assoc(false);
    texts.extend(super::textcorpus::auto(false));
    use rayon::prelude::*;
    texts.par_iter().enumerate().for_each(|(ti, tc)| {
        if ti % (if thorough { 2 } else { 9 }) != 0 {
            return;
        }
        let program = match drive::load_program(&tc.program) {
            Ok(p) => p,
            Err(_) => return,
        };
        let mut local = BTreeMap::new();
        let goals: Vec<String> = tc.goals.iter().filter(|g| drive::peel(&program, g).is_ok()).step_by(3).take(5).cloned().collect();
        for seq in sequences(goals.len(), max_len.min(2)) {
            for cfg in [SolverCfg::SLG, SolverCfg::REC] {
                *local.entry("sequences".into()).or_insert(0) += 1;
                check_sequence(rep, &mut local, tc.family, &tc.program, &program, &goals, &seq, cfg, false);
                if seq.len() == 2 {
                    check_sequence(rep, &mut local, tc.family, &tc.program, &program, &goals, &seq, cfg, true);
                }
            }
        }
        if ti % 90 == 0 {
            rep.sample(json!({"family": tc.family, "program": tc.program, "goals": goals}));
        }
        rep.merge_counts(&local);
    });
    c01::vacuity(rep, &["logged_programs", "answers_compared_not_none"]);
    let states = rep.get("sequences");
    let tr = rep.get("solver_calls");
    let nt = rep.get("answers_compared_not_none");
    rep.finish(
        states,
        tr,
        nt,
        "for a thinning of the reduced C01 corpus and of the text families for associated types and auto traits: every sequence of length <= 2 (thorough 3) over an alphabet of 4-5 goals is solved on one solver through LoggingRustIrDatabase (sequences of length 2 also with the program printed after the first goal), the recorded program is printed, parsed and lowered again, the same goals are solved on it by a fresh solver of the same kind, and the decoded answers must be equal; non-trivial = compared answers that are not `No possible solution`",
        true,
        &["answers are compared by item name after decoding"],
    )
}
