//! Generic runner for properties whose reference semantics is a rule set
//! written from the property statement (C05, C06, C08, ...): each case is a
//! `.chalk` program text plus the Horn rules REF should use for it, and goals.

use super::*;
use crate::drive::{Caught, DSol, SolverCfg};
use crate::oracle::{peel_ast, AnswerCheck};
use crate::refsem::{Ref, Stats, Tri};
use crate::report::Violation;
use std::collections::BTreeMap;

pub struct RuleCase {
    pub family: &'static str,
    /// root-cause discriminator used in sites
    pub class: String,
    pub program: String,
    pub rules: Vec<Rule>,
    pub coinductive: Vec<String>,
    /// constructors for witness enumeration (name, arity)
    pub ctors: Vec<(String, usize)>,
    pub goals: Vec<Goal>,
    /// optional text overrides (parallel to `goals`): the `.chalk` goal text to
    /// pose when it is not simply the rendering of the REF-side goal (e.g. the
    /// REF-side goal carries the *elaborated* hypotheses)
    pub goal_texts: Vec<Option<String>>,
    /// number of leading goals used as history alphabet (0 = no history search)
    pub history: usize,
}

pub struct RuleOpts {
    pub property: &'static str,
    pub depth: usize,
    /// demand Unique/None (never Ambiguous) for closed goals REF decides within limits
    pub closed_must_be_definite: bool,
}

pub fn run_cases(rep: &Report, opts: &RuleOpts, cases: &[RuleCase]) {
    use rayon::prelude::*;
    rep.count("programs", cases.len() as u64);
    cases.par_iter().enumerate().for_each(|(ci, case)| {
        let mut local: BTreeMap<String, u64> = BTreeMap::new();
        let chalk = match drive::load_program(&case.program) {
            Ok(p) => p,
            Err(e) => {
                rep.machinery_error(format!("[{}] program does not lower: {}\n{}", case.family, e, case.program));
                return;
            }
        };
        let refm = Ref::new(case.rules.clone(), case.coinductive.clone(), case.ctors.clone());
        let mut prepared = vec![];
        for (gk, g) in case.goals.iter().enumerate() {
            let text = case.goal_texts.get(gk).cloned().flatten().unwrap_or_else(|| goal_str(g));
            match drive::peel(&chalk, &text) {
                Ok(p) => prepared.push((g, text, p, peel_ast(g))),
                Err(e) => rep.machinery_error(format!("[{}] goal does not lower: {} :: {}", case.family, e, text)),
            }
        }
        let mut fresh: BTreeMap<(usize, bool), DSol> = BTreeMap::new();
        for (gi, (_g, text, peeled, pa)) in prepared.iter().enumerate() {
            *local.entry("cases".into()).or_insert(0) += 1;
            *local.entry(format!("cases_{}", case.family)).or_insert(0) += 1;
            let mut nontrivial = false;
            for cfg in [SolverCfg::SLG, SolverCfg::REC] {
                let (r, _) = drive::solve_fresh(&chalk, peeled, cfg);
                *local.entry("solver_calls".into()).or_insert(0) += 1;
                let input = || json!({"family": case.family, "case_index": ci, "program": case.program, "goal": text, "solver": cfg.name()});
                let sol = match r {
                    Caught::Ok(s) => s,
                    Caught::Panic(loc, msg) => {
                        rep.violation(Violation {
                            property: opts.property.into(),
                            kind: "panic".into(),
                            site: crate::report::panic_site(&loc, &msg),
                            what: format!("{} panics on `{}`: {}", cfg.name(), text, msg),
                            input: input(),
                        });
                        continue;
                    }
                    _ => {
                        *local.entry("budget_exceeded(judged by C09)".into()).or_insert(0) += 1;
                        continue;
                    }
                };
                fresh.insert((gi, cfg.is_slg()), sol.clone());
                *local.entry(format!("answers_{}", sol.tag())).or_insert(0) += 1;
                let ac = AnswerCheck { refm: &refm, pa, peeled, depth: opts.depth, solver: cfg.short(), class: &case.class };
                let (issues, info) = ac.check(&sol);
                if info.true_witnesses > 0 || info.closed_value.map(|v| v.definite()).unwrap_or(false) {
                    nontrivial = true;
                }
                for is in issues {
                    rep.violation(Violation {
                        property: opts.property.into(),
                        kind: is.kind,
                        site: is.site,
                        what: format!("{} answers {} for `{}` :: {}", cfg.name(), sol.tag(), text, is.detail),
                        input: input(),
                    });
                }
                if opts.closed_must_be_definite && peeled.var_creation.is_empty() && sol.is_ambig() {
                    // recompute limits
                    let mut st = Stats::default();
                    let v = refm.eval(&pa.body, &pa.hyps, &pa.skolems, opts.depth, &mut st);
                    let max_size = cfg.max_size();
                    if v != Tri::Unknown && !st.capped && st.max_ty_size <= max_size && st.max_nodes < 40 {
                        rep.violation(Violation {
                            property: opts.property.into(),
                            kind: "ambiguous-on-closed-goal".into(),
                            site: format!("{}/closed/{}", cfg.short(), case.class),
                            what: format!("{} answers {} for closed goal `{}`; REF says {:?}", cfg.name(), sol.tag(), text, v),
                            input: input(),
                        });
                    }
                }
                if ci % 211 == 0 && gi % 6 == 0 && cfg.is_slg() {
                    rep.sample(json!({"family": case.family, "program": case.program, "goal": text, "slg_answer": sol.tag(),
                        "ref_closed_value": format!("{:?}", info.closed_value), "ref_true_witnesses": info.true_witnesses}));
                }
            }
            if nontrivial {
                *local.entry("nontrivial_cases".into()).or_insert(0) += 1;
            }
        }
        // history search: answers must not depend on the order in which goals are posed
        if case.history >= 2 {
            for cfg in [SolverCfg::SLG, SolverCfg::REC] {
                let n = case.history.min(prepared.len());
                let exp: Option<Vec<DSol>> = (0..n).map(|gi| fresh.get(&(gi, cfg.is_slg())).cloned()).collect();
                let Some(exp) = exp else { continue };
                let hg: Vec<super::c10::HistGoal> = prepared[..n].iter().map(|(_, t, p, _)| super::c10::HistGoal { text: t, peeled: p, tag: "" }).collect();
                super::c10::explore(rep, opts.property, &mut local, &chalk, &case.program, &hg, &exp, cfg, &case.class);
            }
        }
        rep.merge_counts(&local);
    });
}
