//! Exhaustive, size-indexed enumerators of programs and goals (fragments F0, F1, G1).
//! Deterministic; nothing is sampled.

use crate::ast::*;

pub fn a() -> Ty {
    Ty::app0("A")
}
pub fn b() -> Ty {
    Ty::app0("B")
}
pub fn s(t: Ty) -> Ty {
    Ty::app("S", vec![t])
}
pub fn x(i: u32) -> Ty {
    Ty::Var(i)
}
pub fn k(u: u32) -> Ty {
    Ty::Skolem(u, 0)
}
pub fn at(t: Ty, tr: &str) -> Atom {
    Atom::new(t, tr, vec![])
}
pub fn at1(t: Ty, tr: &str, arg: Ty) -> Atom {
    Atom::new(t, tr, vec![arg])
}

fn std_structs() -> Vec<StructDecl> {
    vec![
        StructDecl {
            name: "A".into(),
            arity: 0,
        },
        StructDecl {
            name: "B".into(),
            arity: 0,
        },
        StructDecl {
            name: "S".into(),
            arity: 1,
        },
    ]
}

fn weight_ty(t: &Ty) -> usize {
    t.depth() - 1
}

fn impl_weight(r: &Rule) -> usize {
    1 + r.body.len()
        + weight_ty(&r.head.self_ty)
        + r.head.args.iter().map(weight_ty).sum::<usize>()
        + r.body
            .iter()
            .map(|b| weight_ty(&b.self_ty) + b.args.iter().map(weight_ty).sum::<usize>())
            .sum::<usize>()
}

/// Impl shapes of fragment F1a: traits `T0`,`T1` (Self only).
pub fn impl_shapes_f1a(max_w: usize) -> Vec<Rule> {
    let traits = ["T0", "T1"];
    let selfs: Vec<(Ty, u32)> = vec![
        (a(), 0),
        (b(), 0),
        (x(0), 1),
        (s(a()), 0),
        (s(x(0)), 1),
        (s(s(x(0))), 1),
    ];
    let mut out = vec![];
    for tr in traits {
        for (st, nv) in &selfs {
            // body pool
            let mut pool: Vec<Atom> = vec![];
            for t2 in traits {
                if *nv > 0 {
                    pool.push(at(x(0), t2));
                    pool.push(at(s(x(0)), t2));
                }
                pool.push(at(a(), t2));
                pool.push(at(s(a()), t2));
            }
            let mut bodies: Vec<Vec<Atom>> = vec![vec![]];
            for i in 0..pool.len() {
                bodies.push(vec![pool[i].clone()]);
            }
            for i in 0..pool.len() {
                for j in (i + 1)..pool.len() {
                    bodies.push(vec![pool[i].clone(), pool[j].clone()]);
                }
            }
            for body in bodies {
                let r = Rule {
                    nvars: *nv,
                    head: at(st.clone(), tr),
                    body,
                };
                // a rule whose body repeats its head is kept (self loop) — interesting.
                if impl_weight(&r) <= max_w {
                    out.push(r);
                }
            }
        }
    }
    out.sort_by_key(|r| (impl_weight(r), r.clone()));
    out
}

/// Impl shapes of fragment F1b: trait `R<P0>` plus `T0`.
pub fn impl_shapes_f1b(max_w: usize) -> Vec<Rule> {
    let selfs: Vec<Ty> = vec![a(), b(), x(0), s(x(0)), s(a())];
    let args: Vec<Ty> = vec![a(), b(), x(0), x(1), s(x(0)), s(a())];
    let mut out = vec![];
    for st in &selfs {
        for ar in &args {
            let mut vs = vec![];
            st.vars(&mut vs);
            ar.vars(&mut vs);
            // variables must be numbered 0.. in order of first occurrence
            if vs.iter().enumerate().any(|(i, v)| *v != i as u32) {
                continue;
            }
            let nv = vs.len() as u32;
            let mut pool: Vec<Atom> = vec![];
            for v in 0..nv {
                pool.push(at(x(v), "T0"));
                pool.push(at1(x(v), "R", a()));
            }
            if nv == 2 {
                pool.push(at1(x(1), "R", x(0)));
            }
            pool.push(at(a(), "T0"));
            let mut bodies: Vec<Vec<Atom>> = vec![vec![]];
            for p in &pool {
                bodies.push(vec![p.clone()]);
            }
            for body in bodies {
                let r = Rule {
                    nvars: nv,
                    head: at1(st.clone(), "R", ar.clone()),
                    body,
                };
                if impl_weight(&r) <= max_w {
                    out.push(r);
                }
            }
        }
    }
    for st in [a(), b(), x(0), s(x(0))] {
        let mut vs = vec![];
        st.vars(&mut vs);
        let nv = vs.len() as u32;
        let mut bodies: Vec<Vec<Atom>> = vec![vec![]];
        if nv > 0 {
            bodies.push(vec![at1(x(0), "R", a())]);
            bodies.push(vec![at1(x(0), "R", x(0))]);
            bodies.push(vec![at(x(0), "T0")]);
        }
        bodies.push(vec![at1(a(), "R", b())]);
        for body in bodies {
            let r = Rule {
                nvars: nv,
                head: at(st.clone(), "T0"),
                body,
            };
            if impl_weight(&r) <= max_w {
                out.push(r);
            }
        }
    }
    out.sort_by_key(|r| (impl_weight(r), r.clone()));
    out.dedup();
    out
}

fn swap_names(r: &Rule, f: &dyn Fn(&str) -> String) -> Rule {
    fn ty(t: &Ty, f: &dyn Fn(&str) -> String) -> Ty {
        match t {
            Ty::App(n, a) => Ty::App(f(n), a.iter().map(|x| ty(x, f)).collect()),
            o => o.clone(),
        }
    }
    let at = |a: &Atom| Atom {
        tr: f(&a.tr),
        self_ty: ty(&a.self_ty, f),
        args: a.args.iter().map(|x| ty(x, f)).collect(),
    };
    Rule {
        nvars: r.nvars,
        head: at(&r.head),
        body: {
            let mut b: Vec<Atom> = r.body.iter().map(at).collect();
            b.sort();
            b
        },
    }
}

/// All multisets of impl shapes with total weight <= `max_w` and at most
/// `max_impls` impls, modulo the T0<->T1 and A<->B renamings.
fn programs_from_shapes(
    shapes: &[Rule],
    max_w: usize,
    max_impls: usize,
    symmetries: &[&dyn Fn(&str) -> String],
) -> Vec<Vec<Rule>> {
    let mut out: Vec<Vec<Rule>> = vec![];
    fn rec(
        shapes: &[Rule],
        start: usize,
        left: usize,
        max_impls: usize,
        cur: &mut Vec<Rule>,
        out: &mut Vec<Vec<Rule>>,
    ) {
        if !cur.is_empty() {
            out.push(cur.clone());
        }
        if cur.len() == max_impls {
            return;
        }
        for i in start..shapes.len() {
            let w = impl_weight(&shapes[i]);
            if w > left {
                continue;
            }
            cur.push(shapes[i].clone());
            // identical impls twice are allowed (i, not i+1) only once: skip exact duplicates
            rec(shapes, i + 1, left - w, max_impls, cur, out);
            cur.pop();
        }
    }
    rec(shapes, 0, max_w, max_impls, &mut vec![], &mut out);
    // symmetry reduction
    let canon = |p: &Vec<Rule>| -> Vec<Rule> {
        let mut q = p.clone();
        q.sort();
        q
    };
    let mut keep = vec![];
    for p in out {
        let me = canon(&p);
        let mut minimal = true;
        for sym in symmetries {
            let img = canon(&p.iter().map(|r| swap_names(r, *sym)).collect());
            if img < me {
                minimal = false;
                break;
            }
        }
        if minimal {
            keep.push(p);
        }
    }
    keep
}

/// `g` with struct and trait names mapped through `f`.
pub fn rename_goal(g: &Goal, f: &dyn Fn(&str) -> String) -> Goal {
    fn ty(t: &Ty, f: &dyn Fn(&str) -> String) -> Ty {
        match t {
            Ty::App(n, a) => Ty::App(f(n), a.iter().map(|x| ty(x, f)).collect()),
            o => o.clone(),
        }
    }
    let at = |a: &Atom| Atom { tr: f(&a.tr), self_ty: ty(&a.self_ty, f), args: a.args.iter().map(|x| ty(x, f)).collect() };
    match g {
        Goal::Atom(a) => Goal::Atom(at(a)),
        Goal::Eq(l, r) => Goal::Eq(ty(l, f), ty(r, f)),
        Goal::And(v) => Goal::And(v.iter().map(|x| rename_goal(x, f)).collect()),
        Goal::Exists(vs, b) => Goal::Exists(vs.clone(), Box::new(rename_goal(b, f))),
        Goal::Forall(u, n, b) => Goal::Forall(*u, *n, Box::new(rename_goal(b, f))),
        Goal::Not(b) => Goal::Not(Box::new(rename_goal(b, f))),
        Goal::If(hs, b) => Goal::If(hs.iter().map(at).collect(), Box::new(rename_goal(b, f))),
    }
}

/// Programs are kept up to the renamings in `symmetries`; so that every (program, goal) pair of
/// the unreduced space is still represented, the goal set has to be closed under the same
/// renamings: (P, g) is covered by (sigma P, sigma g).
pub fn close_goals_under(goals: Vec<Goal>, symmetries: &[&dyn Fn(&str) -> String]) -> Vec<Goal> {
    let mut seen: std::collections::BTreeSet<String> = goals.iter().map(goal_str).collect();
    let mut out = goals.clone();
    for g in &goals {
        for sym in symmetries {
            let h = rename_goal(g, *sym);
            if seen.insert(goal_str(&h)) {
                out.push(h);
            }
        }
    }
    out
}

pub fn swap_t(n: &str) -> String {
    match n {
        "T0" => "T1".into(),
        "T1" => "T0".into(),
        o => o.into(),
    }
}
pub fn swap_ab(n: &str) -> String {
    match n {
        "A" => "B".into(),
        "B" => "A".into(),
        o => o.into(),
    }
}
pub fn swap_both(n: &str) -> String {
    swap_t(&swap_ab(n))
}

/// F1a programs (two Self-only traits). `coinductive`: mark both traits `#[coinductive]`.
pub fn programs_f1a(max_w: usize, max_impls: usize, coinductive: bool) -> Vec<Program> {
    let shapes = impl_shapes_f1a(max_w);
    programs_from_shapes(&shapes, max_w, max_impls, &[&swap_t, &swap_ab, &swap_both])
        .into_iter()
        .map(|impls| Program {
            structs: std_structs(),
            traits: vec![
                TraitDecl {
                    name: "T0".into(),
                    arity: 0,
                    coinductive,
                },
                TraitDecl {
                    name: "T1".into(),
                    arity: 0,
                    coinductive,
                },
            ],
            impls,
        })
        .collect()
}

pub fn programs_f1b(max_w: usize, max_impls: usize) -> Vec<Program> {
    let shapes = impl_shapes_f1b(max_w);
    programs_from_shapes(&shapes, max_w, max_impls, &[&swap_ab])
        .into_iter()
        .filter(|impls| impls.iter().any(|r| r.head.tr == "R"))
        .map(|impls| Program {
            structs: std_structs(),
            traits: vec![
                TraitDecl {
                    name: "T0".into(),
                    arity: 0,
                    coinductive: false,
                },
                TraitDecl {
                    name: "R".into(),
                    arity: 1,
                    coinductive: false,
                },
            ],
            impls,
        })
        .collect()
}

/// F0: propositional Horn programs over atoms `A: T0`, `A: T1`, `A: T2`.
pub fn programs_f0(max_clauses: usize, coinductive: bool) -> Vec<Program> {
    let traits = ["T0", "T1", "T2"];
    let mut shapes = vec![];
    for h in traits {
        let mut bodies: Vec<Vec<Atom>> = vec![vec![]];
        for b1 in traits {
            bodies.push(vec![at(a(), b1)]);
        }
        for i in 0..3 {
            for j in (i + 1)..3 {
                bodies.push(vec![at(a(), traits[i]), at(a(), traits[j])]);
            }
        }
        for body in bodies {
            shapes.push(Rule {
                nvars: 0,
                head: at(a(), h),
                body,
            });
        }
    }
    let mut out: Vec<Vec<Rule>> = vec![];
    fn rec(shapes: &[Rule], start: usize, max: usize, cur: &mut Vec<Rule>, out: &mut Vec<Vec<Rule>>) {
        if !cur.is_empty() {
            out.push(cur.clone());
        }
        if cur.len() == max {
            return;
        }
        for i in start..shapes.len() {
            cur.push(shapes[i].clone());
            rec(shapes, i + 1, max, cur, out);
            cur.pop();
        }
    }
    rec(&shapes, 0, max_clauses, &mut vec![], &mut out);
    out.into_iter()
        .map(|impls| Program {
            structs: vec![StructDecl {
                name: "A".into(),
                arity: 0,
            }],
            traits: traits
                .iter()
                .map(|t| TraitDecl {
                    name: t.to_string(),
                    arity: 0,
                    coinductive,
                })
                .collect(),
            impls,
        })
        .collect()
}

/// F0x: propositional Horn programs over FOUR atoms `A: T0..T3`, bodies of up to
/// three atoms written in ascending and in descending order, up to `max_clauses`
/// clauses, modulo renaming of the traits. (Seeded change C01/patch1 needs a
/// three-member SCC whose head also depends on an unprovable fourth atom.)
pub fn programs_f0x(max_clauses: usize, coinductive: bool) -> Vec<Program> {
    let traits = ["T0", "T1", "T2", "T3"];
    let mut shapes: Vec<Rule> = vec![];
    for h in traits {
        let mut bodies: Vec<Vec<usize>> = vec![vec![]];
        for i in 0..4 {
            bodies.push(vec![i]);
        }
        for i in 0..4 {
            for j in (i + 1)..4 {
                bodies.push(vec![i, j]);
                bodies.push(vec![j, i]);
                for k in (j + 1)..4 {
                    bodies.push(vec![i, j, k]);
                    bodies.push(vec![k, j, i]);
                }
            }
        }
        for body in bodies {
            shapes.push(Rule {
                nvars: 0,
                head: at(a(), h),
                body: body.iter().map(|i| at(a(), traits[*i])).collect(),
            });
        }
    }
    let mut out: Vec<Vec<Rule>> = vec![];
    fn rec(shapes: &[Rule], start: usize, max: usize, cur: &mut Vec<Rule>, out: &mut Vec<Vec<Rule>>) {
        if !cur.is_empty() {
            out.push(cur.clone());
        }
        if cur.len() == max {
            return;
        }
        for i in start..shapes.len() {
            cur.push(shapes[i].clone());
            rec(shapes, i + 1, max, cur, out);
            cur.pop();
        }
    }
    rec(&shapes, 0, max_clauses, &mut vec![], &mut out);
    // symmetry reduction: keep a program only if no renaming of the traits gives a smaller one
    let perms: Vec<Vec<usize>> = {
        fn p(n: usize, cur: &mut Vec<usize>, out: &mut Vec<Vec<usize>>) {
            if cur.len() == n {
                out.push(cur.clone());
                return;
            }
            for i in 0..n {
                if !cur.contains(&i) {
                    cur.push(i);
                    p(n, cur, out);
                    cur.pop();
                }
            }
        }
        let mut o = vec![];
        p(4, &mut vec![], &mut o);
        o
    };
    let rename = |r: &Rule, perm: &[usize]| -> Rule {
        let f = |n: &str| -> String {
            match traits.iter().position(|t| *t == n) {
                Some(i) => traits[perm[i]].to_string(),
                None => n.to_string(),
            }
        };
        Rule {
            nvars: 0,
            head: Atom { tr: f(&r.head.tr), self_ty: r.head.self_ty.clone(), args: vec![] },
            body: r.body.iter().map(|b| Atom { tr: f(&b.tr), self_ty: b.self_ty.clone(), args: vec![] }).collect(),
        }
    };
    let canon = |p: &Vec<Rule>| {
        let mut q = p.clone();
        q.sort();
        q
    };
    out.into_iter()
        // every atom used must be "connected": skip programs that do not mention at least 3 traits
        .filter(|p| {
            let mut used: Vec<&str> = vec![];
            for r in p {
                for n in std::iter::once(&r.head.tr).chain(r.body.iter().map(|b| &b.tr)) {
                    if !used.contains(&n.as_str()) {
                        used.push(n.as_str());
                    }
                }
            }
            // F0 already covers several clauses per atom over three atoms; F0x looks at one clause per
            // atom over four atoms (cycles through three atoms with a fourth one hanging off)
            let mut heads: Vec<&str> = p.iter().map(|r| r.head.tr.as_str()).collect();
            heads.sort();
            heads.dedup();
            if !(used.len() >= 4 && heads.len() == p.len()) {
                return false;
            }
            // at least three atoms must depend on each other cyclically
            let idx = |n: &str| traits.iter().position(|t| *t == n).unwrap();
            let mut reach = [[false; 4]; 4];
            for r in p {
                for b in &r.body {
                    reach[idx(&r.head.tr)][idx(&b.tr)] = true;
                }
            }
            for k in 0..4 {
                for i in 0..4 {
                    for j in 0..4 {
                        if reach[i][k] && reach[k][j] {
                            reach[i][j] = true;
                        }
                    }
                }
            }
            (0..4).any(|i| (0..4).filter(|j| *j != i && reach[i][*j] && reach[*j][i]).count() >= 2)
        })
        .filter(|p| {
            let me = canon(p);
            // only renamings that stay inside the generated shape set (bodies ascending or
            // descending) compete; otherwise a class could lose its only representative
            let in_shape_set = |q: &Vec<Rule>| {
                q.iter().all(|r| {
                    let names: Vec<&str> = r.body.iter().map(|b| b.tr.as_str()).collect();
                    names.windows(2).all(|w| w[0] < w[1]) || names.windows(2).all(|w| w[0] > w[1])
                })
            };
            perms.iter().all(|perm| {
                let q: Vec<Rule> = p.iter().map(|r| rename(r, perm)).collect();
                !in_shape_set(&q) || canon(&q) >= me
            })
        })
        .map(|impls| Program {
            structs: vec![StructDecl { name: "A".into(), arity: 0 }],
            traits: traits.iter().map(|t| TraitDecl { name: t.to_string(), arity: 0, coinductive }).collect(),
            impls,
        })
        .collect()
}

pub fn goals_f0x() -> Vec<Goal> {
    let mut v = vec![];
    for t in ["T0", "T1", "T2", "T3"] {
        v.push(Goal::Atom(at(a(), t)));
    }
    v.push(Goal::And(vec![Goal::Atom(at(a(), "T0")), Goal::Atom(at(a(), "T1"))]));
    v.push(Goal::And(vec![Goal::Atom(at(a(), "T2")), Goal::Atom(at(a(), "T0"))]));
    v.push(Goal::Not(Box::new(Goal::Atom(at(a(), "T0")))));
    v
}

pub fn goals_f0() -> Vec<Goal> {
    let mut v = vec![];
    for t in ["T0", "T1", "T2"] {
        v.push(Goal::Atom(at(a(), t)));
        v.push(Goal::Not(Box::new(Goal::Atom(at(a(), t)))));
    }
    v.push(Goal::And(vec![
        Goal::Atom(at(a(), "T0")),
        Goal::Atom(at(a(), "T1")),
    ]));
    v.push(Goal::If(
        vec![at(a(), "T2")],
        Box::new(Goal::Atom(at(a(), "T0"))),
    ));
    v
}

fn ex(vs: &[u32], g: Goal) -> Goal {
    Goal::Exists(vs.to_vec(), Box::new(g))
}
fn fa(u: u32, g: Goal) -> Goal {
    Goal::Forall(u, 1, Box::new(g))
}
fn ga(t: Ty, tr: &str) -> Goal {
    Goal::Atom(at(t, tr))
}

/// Goal set G1 for F1a programs.
pub fn goals_f1a(thorough: bool) -> Vec<Goal> {
    let mut v = vec![];
    let mut grounds = vec![a(), b(), s(a()), s(b()), s(s(a()))];
    if thorough {
        grounds.push(s(s(b())));
        grounds.push(s(s(s(a()))));
    }
    for t in ["T0", "T1"] {
        for g in &grounds {
            v.push(ga(g.clone(), t));
        }
    }
    for t in ["T0", "T1"] {
        v.push(ex(&[0], ga(x(0), t)));
        v.push(ex(&[0], ga(s(x(0)), t)));
        v.push(fa(1, ga(k(1), t)));
        v.push(fa(1, ga(s(k(1)), t)));
        v.push(Goal::Not(Box::new(ga(a(), t))));
        v.push(Goal::Not(Box::new(ga(s(a()), t))));
    }
    v.push(ex(&[0], Goal::And(vec![ga(x(0), "T0"), ga(x(0), "T1")])));
    v.push(ex(&[0, 1], Goal::And(vec![ga(x(0), "T0"), ga(x(1), "T1")])));
    v.push(ex(&[0], Goal::And(vec![ga(x(0), "T0"), Goal::Eq(x(0), s(a()))])));
    v.push(ex(&[0], Goal::And(vec![Goal::Eq(s(x(0)), s(s(a()))), ga(x(0), "T0")])));
    v.push(Goal::And(vec![ga(a(), "T0"), ga(b(), "T1")]));
    v.push(Goal::And(vec![ga(a(), "T0"), Goal::Not(Box::new(ga(b(), "T0")))]));
    // hypotheses
    v.push(fa(
        1,
        Goal::If(vec![at(k(1), "T1")], Box::new(ga(k(1), "T0"))),
    ));
    v.push(fa(
        1,
        Goal::If(vec![at(k(1), "T1")], Box::new(ga(s(k(1)), "T0"))),
    ));
    v.push(fa(
        1,
        Goal::If(vec![at(k(1), "T0")], Box::new(ga(s(s(k(1))), "T0"))),
    ));
    v.push(Goal::If(vec![at(a(), "T1")], Box::new(ga(s(a()), "T0"))));
    v.push(Goal::If(vec![at(b(), "T0")], Box::new(ga(a(), "T0"))));
    v.push(fa(
        1,
        Goal::If(
            vec![at(k(1), "T1")],
            Box::new(ex(&[0], Goal::And(vec![ga(x(0), "T1"), ga(s(x(0)), "T0")]))),
        ),
    ));
    // a hypothesis that shares the unknown with the goal (the environment grows with the unknown
    // while the goal stays small)
    // (both ways round: programs are kept up to renaming of the two traits)
    v.push(ex(&[0], Goal::If(vec![at(x(0), "T0")], Box::new(ga(x(0), "T1")))));
    v.push(ex(&[0], Goal::If(vec![at(x(0), "T1")], Box::new(ga(x(0), "T0")))));
    // quantifier alternation
    v.push(ex(&[0], fa(1, Goal::Eq(x(0), k(1)))));
    v.push(fa(1, ex(&[0], Goal::Eq(x(0), k(1)))));
    v.push(fa(1, ex(&[0], Goal::And(vec![Goal::Eq(x(0), s(k(1))), ga(x(0), "T0")]))));
    v.push(fa(1, ex(&[0], ga(x(0), "T0"))));
    // two nested foralls (two universes), both placeholders satisfy the goal by hypothesis
    v.push(fa(
        1,
        Goal::Forall(
            2,
            1,
            Box::new(Goal::If(
                vec![at(k(1), "T0"), at(k(2), "T0")],
                Box::new(ex(&[0], ga(x(0), "T0"))),
            )),
        ),
    ));
    v.push(fa(
        1,
        Goal::Forall(
            2,
            1,
            Box::new(Goal::If(
                vec![at(k(1), "T0"), at(k(2), "T0")],
                Box::new(ex(&[0], ga(s(x(0)), "T0"))),
            )),
        ),
    ));
    if thorough {
        v.push(ex(&[0], ga(s(s(x(0))), "T0")));
        v.push(ex(&[0, 1], Goal::And(vec![ga(x(0), "T0"), ga(s(x(1)), "T0")])));
        v.push(fa(1, Goal::Forall(2, 1, Box::new(Goal::If(
            vec![at(k(1), "T0"), at(k(2), "T1")],
            Box::new(Goal::And(vec![ga(s(k(1)), "T0"), ga(s(k(2)), "T1")])),
        )))));
        v.push(Goal::Not(Box::new(fa(1, ga(k(1), "T0")))));
        v.push(Goal::Not(Box::new(Goal::And(vec![ga(a(), "T0"), ga(b(), "T0")]))));
    }
    // F1a programs are kept up to T0<->T1, A<->B and both
    close_goals_under(v, &[&swap_t, &swap_ab, &swap_both])
}

/// Goal set for F1b programs (trait `R<P0>`).
pub fn goals_f1b(_thorough: bool) -> Vec<Goal> {
    let mut v = vec![];
    let r = |t: Ty, arg: Ty| Goal::Atom(at1(t, "R", arg));
    for t in [a(), b(), s(a())] {
        for u in [a(), b(), s(a())] {
            v.push(r(t.clone(), u));
        }
    }
    // two arguments that are each within a small size limit while their sizes add up beyond it
    v.push(r(s(s(a())), s(a())));
    v.push(r(s(s(a())), s(s(b()))));
    v.push(ex(&[0, 1], r(x(0), x(1))));
    v.push(ex(&[0], r(x(0), x(0))));
    v.push(ex(&[0], r(a(), x(0))));
    v.push(ex(&[0], r(x(0), a())));
    v.push(ex(&[0], r(s(x(0)), x(0))));
    v.push(ex(&[0], r(s(a()), x(0))));
    v.push(ex(&[0, 1], r(s(x(0)), x(1))));
    v.push(fa(1, r(k(1), k(1))));
    v.push(fa(1, r(k(1), a())));
    v.push(fa(1, ex(&[0], r(k(1), x(0)))));
    v.push(fa(1, ex(&[0], r(x(0), k(1)))));
    v.push(ex(&[0], fa(1, r(k(1), x(0)))));
    v.push(fa(1, Goal::If(vec![at1(k(1), "R", a())], Box::new(r(s(k(1)), a())))));
    v.push(fa(
        1,
        Goal::If(vec![at(k(1), "T0")], Box::new(ex(&[0], r(k(1), x(0))))),
    ));
    v.push(ga(a(), "T0"));
    v.push(ga(s(a()), "T0"));
    v.push(ex(&[0], ga(x(0), "T0")));
    v.push(Goal::Not(Box::new(r(a(), b()))));
    // F1b programs are kept up to A<->B
    close_goals_under(v, &[&swap_ab])
}
