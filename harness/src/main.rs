//! vcheck-bin: bounded-exhaustive model checking of rust-lang/chalk.
//!   vcheck-bin check <ID> --tier quick|thorough
//!   vcheck-bin replay <file>

mod ast;
mod drive;
mod faultdb;
mod gen;
mod oracle;
mod props;
mod refsem;
mod report;

use report::Report;

/// Counting allocator (thread-local counters) used by C27 to check that
/// in-place folding frees exactly what it should.
#[global_allocator]
static GLOBAL: props::c27::CountingAlloc = props::c27::CountingAlloc;

fn usage() -> ! {
    eprintln!("usage: vcheck-bin check <ID> --tier quick|thorough | replay <file> | count");
    std::process::exit(2)
}

fn main() {
    let args: Vec<String> = std::env::args().collect();
    if args.len() < 2 {
        usage();
    }
    drive::install_panic_hook();
    // The recursive solver recurses natively up to its overflow depth; give
    // every worker a large (lazily committed) stack so that the configured
    // depth limit, not the native stack, is what bounds it.
    let threads = std::env::var("VERIF_THREADS")
        .ok()
        .and_then(|s| s.parse().ok())
        .unwrap_or(16usize);
    rayon::ThreadPoolBuilder::new()
        .num_threads(threads)
        .stack_size(1 << 30)
        .build_global()
        .expect("thread pool");
    if std::env::var("VERIF_TRACE").is_ok() {
        drive::start_watchdog(10.0, |d, t| {
            eprintln!("STUCK for {:.0}s: {}", t, d);
            3
        });
    }
    rayon::scope(|_| dispatch(&args));
}

fn dispatch(args: &[String]) {
    match args[1].as_str() {
        "check" => {
            if args.len() < 3 {
                usage();
            }
            let id = args[2].to_uppercase();
            let tier = args
                .iter()
                .position(|a| a == "--tier")
                .and_then(|i| args.get(i + 1).cloned())
                .or_else(|| std::env::var("VERIF_TIER").ok())
                .unwrap_or_else(|| "quick".into());
            if tier != "quick" && tier != "thorough" {
                usage();
            }
            let code = run_check(&id, &tier);
            std::process::exit(code);
        }
        "replay" => {
            if args.len() < 3 {
                usage();
            }
            std::process::exit(replay(&args[2]));
        }
        "solve" => {
            // vcheck-bin solve <program-file> <goal> [solver-name]
            let text = std::fs::read_to_string(&args[2]).expect("read program");
            let p = drive::load_program(&text).expect("program lowers");
            let peeled = drive::peel(&p, &args[3]).expect("goal lowers");
            let want = args.get(4).cloned();
            for cfg in drive::SolverCfg::all_configs() {
                if let Some(w) = &want {
                    if !cfg.name().starts_with(w.as_str()) {
                        continue;
                    }
                }
                let t0 = std::time::Instant::now();
                let (r, t) = drive::solve_fresh(&p, &peeled, cfg);
                println!("{} -> {:?}  ticks={} {:.3}s", cfg.name(), r, t, t0.elapsed().as_secs_f64());
            }
        }
        "enum" => {
            // vcheck-bin enum <program-file> <goal>: SLG answer enumeration on a fresh solver (cap 24)
            let text = std::fs::read_to_string(&args[2]).expect("read program");
            let p = drive::load_program(&text).expect("program lowers");
            let peeled = drive::peel(&p, &args[3]).expect("goal lowers");
            let dec = drive::Decoder::with_universes(&p, &peeled.universes);
            let mut solver = drive::AnySolver::new(drive::SolverCfg::SLG);
            let mut n = 0;
            let (r, t) = solver.solve_multiple(&*p, &peeled.ugoal, &mut |a, next| {
                n += 1;
                match &a {
                    chalk_solve::SubstitutionResult::Definite(c) => println!("#{} definite {:?} next={}", n, dec.constrained(c), next),
                    chalk_solve::SubstitutionResult::Ambiguous(c) => println!("#{} ambiguous {:?} next={}", n, dec.constrained(c), next),
                    chalk_solve::SubstitutionResult::Floundered => println!("#{} floundered next={}", n, next),
                }
                n < 24
            });
            println!("returned {:?} ticks={}", r, t);
        }
        "hist" => {
            // vcheck-bin hist <program-file> <solver-name-prefix> <goal> [<goal> ...]: one solver instance, goals in order
            let text = std::fs::read_to_string(&args[2]).expect("read program");
            let p = drive::load_program(&text).expect("program lowers");
            let cfg = drive::SolverCfg::all_configs()
                .into_iter()
                .find(|c| c.name().starts_with(args[3].as_str()))
                .expect("solver name");
            let mut solver = drive::AnySolver::new(cfg);
            for g in &args[4..] {
                let peeled = drive::peel(&p, g).expect("goal lowers");
                let (r, t) = solver.solve(&*p, &peeled.ugoal);
                let fresh = drive::solve_fresh(&p, &peeled, cfg).0;
                println!("{} :: {} -> {:?} (ticks {}) | fresh: {:?}", cfg.name(), g, drive::decode_caught(&p, &peeled, r), t, fresh);
            }
        }
        "count" => {
            for t in [false, true] {
                for c in props::core_corpora(t, 0) {
                    println!("thorough={} {}: {} programs x {} goals", t, c.frag, c.programs.len(), c.goals.len());
                }
            }
        }
        _ => usage(),
    }
}

fn level_of(id: &str) -> &'static str {
    match id {
        "C12" | "C27" => "fault_enumeration",
        _ => "model_checking",
    }
}

fn run_check(id: &str, tier: &str) -> i32 {
    let rep = Report::new(id, tier, level_of(id));
    match id {
        "C01" => props::c01::run_c01(&rep),
        "C02" => props::c01::run_c02(&rep),
        "C03" => props::c03::run_c03(&rep),
        "C04" => props::c04::run_c04(&rep),
        "C05" => props::c05::run_c05(&rep),
        "C06" => props::c06::run_c06(&rep),
        "C07" => props::c07::run_c07(&rep),
        "C08" => props::c08::run_c08(&rep),
        "C09" => props::c09::run_c09(&rep),
        "C10" => props::c10::run_c10(&rep),
        "C11" => props::c11::run_c11(&rep),
        "C12" => props::c12::run_c12(&rep),
        "C13" => props::c13::run_c13(&rep),
        "C14" => props::c14::run(&rep, "C14"),
        "C15" => props::c14::run(&rep, "C15"),
        "C16" => props::c16::run_c16(&rep),
        "C17" => props::c17::run_c17(&rep),
        "C18" => props::c18::run_c18(&rep),
        "C19" => props::c19::run_c19(&rep),
        "C20" => props::c20::run_c20(&rep),
        "C21" => props::c21::run_c21(&rep),
        "C22" => props::c22::run_c22(&rep),
        "C23" => props::c23::run_c23(&rep),
        "C24" => props::c24::run_c24(&rep),
        "C25" => props::c25::run_c25(&rep),
        "C26" => props::c26::run_c26(&rep),
        "C27" => props::c27::run_c27(&rep),
        "C28" => props::c28::run_c28(&rep),
        "C29" => props::c29::run_c29(&rep),
        _ => {
            eprintln!("no check for {}", id);
            2
        }
    }
}

/// Re-executes one recorded case twice (determinism) and prints what the real code answers.
fn replay(path: &str) -> i32 {
    let text = match std::fs::read_to_string(path) {
        Ok(t) => t,
        Err(e) => {
            eprintln!("cannot read {}: {}", path, e);
            return 2;
        }
    };
    let v: serde_json::Value = serde_json::from_str(&text).expect("replay file is JSON");
    let input = &v["input"];
    if input.get("text0").is_some() {
        return props::c22::replay_c22(input);
    }
    let (Some(program), Some(goal)) = (input["program"].as_str(), input["goal"].as_str()) else {
        println!("replay file has no program/goal text; re-run the check: {}", v["property"]);
        return 2;
    };
    let solver = input["solver"].as_str().unwrap_or("slg");
    let cfgs = drive::SolverCfg::all_configs();
    let cfg = cfgs
        .iter()
        .find(|c| c.name() == solver)
        .copied()
        .unwrap_or(if solver.starts_with("rec") { drive::SolverCfg::REC } else { drive::SolverCfg::SLG });
    let p = drive::load_program(program).expect("program lowers");
    let peeled = drive::peel(&p, goal).expect("goal lowers");
    println!("program:\n{}\ngoal: {}\nsolver: {}", program, goal, cfg.name());
    if let Some(hist) = input.get("history").and_then(|h| h.as_array()) {
        // a history violation: the recorded operations on ONE solver, then the goal; twice
        let run = || {
            let mut solver = drive::AnySolver::new(cfg);
            for h in hist {
                let h = h.as_str().unwrap_or("");
                if let Some(g) = h.strip_prefix("first answer of ") {
                    let pg = drive::peel(&p, g).expect("history goal lowers");
                    let _ = solver.solve_multiple(&*p, &pg.ugoal, &mut |_a, _n| false);
                } else {
                    let pg = drive::peel(&p, h).expect("history goal lowers");
                    let _ = solver.solve(&*p, &pg.ugoal);
                }
            }
            let (r, _) = solver.solve(&*p, &peeled.ugoal);
            drive::decode_caught(&p, &peeled, r)
        };
        let (h1, h2) = (run(), run());
        println!("history: {}", serde_json::Value::Array(hist.clone()));
        println!("answer after the history: {:?}", h1);
        println!("answer on a fresh solver: {:?}", drive::solve_fresh(&p, &peeled, cfg).0);
        if h1 != h2 {
            println!("NON-DETERMINISTIC: second run gave {:?}", h2);
            return 2;
        }
        println!("recorded: kind={} site={} :: {}", v["kind"], v["site"], v["what"]);
        return 0;
    }
    let (r1, _) = drive::solve_fresh(&p, &peeled, cfg);
    let (r2, _) = drive::solve_fresh(&p, &peeled, cfg);
    println!("answer: {:?}", r1);
    if r1 != r2 {
        println!("NON-DETERMINISTIC: second run gave {:?}", r2);
        return 2;
    }
    println!("recorded: kind={} site={} :: {}", v["kind"], v["site"], v["what"]);
    0
}
