//! REF: the reference semantics. A small three-valued evaluator for closed
//! goals over Horn rules with inductive (least fixed point) and coinductive
//! (greatest fixed point) predicates. It never sees a chalk data structure.
//!
//! Soundness of a *definite* verdict: `lower` under-approximates truth (frontier
//! atoms assumed false), `upper` over-approximates it (frontier atoms assumed
//! true; mixed cycles evaluated as greatest fixed point); a value is definite
//! only when both agree.

use crate::ast::*;
use rustc_hash::FxHashMap;
use std::collections::BTreeMap;

#[derive(Copy, Clone, Debug, PartialEq, Eq, Hash, PartialOrd, Ord)]
pub enum Tri {
    False,
    Unknown,
    True,
}

impl Tri {
    pub fn and(self, o: Tri) -> Tri {
        std::cmp::min(self, o)
    }
    pub fn or(self, o: Tri) -> Tri {
        std::cmp::max(self, o)
    }
    pub fn not(self) -> Tri {
        match self {
            Tri::True => Tri::False,
            Tri::False => Tri::True,
            Tri::Unknown => Tri::Unknown,
        }
    }
    pub fn definite(self) -> bool {
        self != Tri::Unknown
    }
}

#[derive(Clone, Debug, Default)]
pub struct Stats {
    /// largest type size of any atom in an explored dependency graph
    pub max_ty_size: usize,
    /// largest number of nodes of an explored dependency graph
    pub max_nodes: usize,
    /// deepest BFS layer (a bound on the dependency-path length of a derivation)
    pub max_depth: usize,
    /// true if some graph hit a cap (frontier atoms exist)
    pub capped: bool,
}

impl Stats {
    pub fn merge(&mut self, o: &Stats) {
        self.max_ty_size = self.max_ty_size.max(o.max_ty_size);
        self.max_nodes = self.max_nodes.max(o.max_nodes);
        self.max_depth = self.max_depth.max(o.max_depth);
        self.capped |= o.capped;
    }
}

pub struct Ref {
    pub rules: Vec<Rule>,
    /// rules indexed by trait name
    by_trait: FxHashMap<String, Vec<usize>>,
    pub coinductive: Vec<String>,
    pub node_cap: usize,
    pub size_cap: usize,
    /// names (with arity) of constructors for witness enumeration
    pub ctors: Vec<(String, usize)>,
    memo: std::cell::RefCell<FxHashMap<(Vec<Atom>, Atom), (Tri, Stats)>>,
}

impl Ref {
    pub fn new(rules: Vec<Rule>, coinductive: Vec<String>, ctors: Vec<(String, usize)>) -> Ref {
        let mut by_trait: FxHashMap<String, Vec<usize>> = FxHashMap::default();
        for (i, r) in rules.iter().enumerate() {
            by_trait.entry(r.head.tr.clone()).or_default().push(i);
        }
        Ref {
            rules,
            by_trait,
            coinductive,
            node_cap: 300,
            size_cap: 40,
            ctors,
            memo: Default::default(),
        }
    }

    pub fn from_program(p: &Program) -> Ref {
        Ref::new(
            p.impls.clone(),
            p.traits
                .iter()
                .filter(|t| t.coinductive)
                .map(|t| t.name.clone())
                .collect(),
            p.structs.iter().map(|s| (s.name.clone(), s.arity)).collect(),
        )
    }

    fn is_coinductive(&self, tr: &str) -> bool {
        self.coinductive.iter().any(|c| c == tr)
    }

    /// Truth of a ground atom given ground facts (hypotheses).
    pub fn prove(&self, facts: &[Atom], query: &Atom) -> (Tri, Stats) {
        debug_assert!(query.is_ground(), "query not ground: {:?}", query);
        let key = (facts.to_vec(), query.clone());
        if let Some(v) = self.memo.borrow().get(&key) {
            return v.clone();
        }
        let r = self.prove_uncached(facts, query);
        self.memo.borrow_mut().insert(key, r.clone());
        r
    }

    fn prove_uncached(&self, facts: &[Atom], query: &Atom) -> (Tri, Stats) {
        // 1. explore the reachable dependency graph
        let mut idx: FxHashMap<Atom, usize> = FxHashMap::default();
        let mut nodes: Vec<Atom> = vec![];
        let mut alts: Vec<Vec<Vec<usize>>> = vec![]; // per node: alternatives, each a body
        let mut frontier: Vec<bool> = vec![];
        let mut depth: Vec<usize> = vec![];
        let mut stats = Stats::default();
        idx.insert(query.clone(), 0);
        nodes.push(query.clone());
        alts.push(vec![]);
        frontier.push(false);
        depth.push(0);
        let mut next = 0;
        while next < nodes.len() {
            let n = next;
            next += 1;
            let atom = nodes[n].clone();
            stats.max_ty_size = stats.max_ty_size.max(atom.max_ty_size());
            stats.max_depth = stats.max_depth.max(depth[n]);
            if atom.size() > self.size_cap {
                frontier[n] = true;
                stats.capped = true;
                continue;
            }
            let mut my_alts: Vec<Vec<usize>> = vec![];
            if facts.iter().any(|f| *f == atom) {
                my_alts.push(vec![]);
            }
            let mut overflow = false;
            if let Some(rs) = self.by_trait.get(&atom.tr) {
                for &ri in rs {
                    let r = &self.rules[ri];
                    let mut s = BTreeMap::new();
                    if !r.head.match_into(&atom, &mut s) {
                        continue;
                    }
                    let mut body = vec![];
                    for b in &r.body {
                        let g = b.subst(&s);
                        debug_assert!(g.is_ground());
                        let j = match idx.get(&g) {
                            Some(&j) => j,
                            None => {
                                if nodes.len() >= self.node_cap {
                                    overflow = true;
                                    break;
                                }
                                let j = nodes.len();
                                idx.insert(g.clone(), j);
                                nodes.push(g);
                                alts.push(vec![]);
                                frontier.push(false);
                                depth.push(depth[n] + 1);
                                j
                            }
                        };
                        body.push(j);
                    }
                    if overflow {
                        break;
                    }
                    my_alts.push(body);
                }
            }
            if overflow {
                frontier[n] = true;
                stats.capped = true;
                // nodes never expanded also become frontier below
                continue;
            }
            alts[n] = my_alts;
        }
        stats.max_nodes = nodes.len();
        // any node that was created but whose expansion was skipped because we
        // stopped early is handled above (every node is visited by the loop).

        // 2. SCCs (Tarjan), emitted sinks-first
        let sccs = tarjan(&alts);
        let coind: Vec<bool> = nodes.iter().map(|a| self.is_coinductive(&a.tr)).collect();

        let eval = |upper: bool| -> Vec<bool> {
            let mut val = vec![false; nodes.len()];
            for scc in &sccs {
                let cyclic = scc.len() > 1
                    || alts[scc[0]].iter().any(|b| b.contains(&scc[0]));
                let all_co = scc.iter().all(|&n| coind[n]);
                let all_ind = scc.iter().all(|&n| !coind[n]);
                // start value: gfp for coinductive SCCs; for mixed cyclic SCCs
                // lfp in the lower run and gfp in the upper run.
                let start = if !cyclic {
                    false
                } else if all_co {
                    true
                } else if all_ind {
                    false
                } else {
                    upper
                };
                for &n in scc {
                    val[n] = if frontier[n] { upper } else { start };
                }
                // iterate to the fixed point (monotone up from false / down from true)
                loop {
                    let mut changed = false;
                    for &n in scc {
                        if frontier[n] {
                            continue;
                        }
                        let v = alts[n].iter().any(|b| b.iter().all(|&m| val[m]));
                        if v != val[n] {
                            val[n] = v;
                            changed = true;
                        }
                    }
                    if !changed {
                        break;
                    }
                }
            }
            val
        };
        let lo = eval(false)[0];
        let hi = eval(true)[0];
        let t = match (lo, hi) {
            (true, true) => Tri::True,
            (false, false) => Tri::False,
            (false, true) => Tri::Unknown,
            (true, false) => unreachable!("lower bound true but upper bound false"),
        };
        (t, stats)
    }

    /// Evaluate a closed goal. `scope` = the skolem constants bound by the
    /// enclosing `forall` binders (the ones an `exists` here may name). `exists` ranges over
    /// ground terms of depth <= `depth`.
    pub fn eval(&self, g: &Goal, facts: &[Atom], scope: &[Ty], depth: usize, st: &mut Stats) -> Tri {
        match g {
            Goal::Atom(a) => {
                let (t, s) = self.prove(facts, a);
                st.merge(&s);
                t
            }
            Goal::Eq(a, b) => {
                if a == b {
                    Tri::True
                } else {
                    Tri::False
                }
            }
            Goal::And(gs) => {
                let mut t = Tri::True;
                for x in gs {
                    t = t.and(self.eval(x, facts, scope, depth, st));
                }
                t
            }
            Goal::Not(b) => self.eval(b, facts, scope, depth, st).not(),
            Goal::If(hs, b) => {
                let mut f = facts.to_vec();
                for h in hs {
                    if !f.contains(h) {
                        f.push(h.clone());
                    }
                }
                f.sort();
                self.eval(b, &f, scope, depth, st)
            }
            Goal::Forall(u, n, b) => {
                let mut sc = scope.to_vec();
                for i in 0..*n {
                    sc.push(Ty::Skolem(*u, i));
                }
                self.eval(b, facts, &sc, depth, st)
            }
            Goal::Exists(vs, b) => {
                // TRUE if some witness tuple makes the body true; never FALSE
                // (the universe of types is unbounded).
                let univ = self.universe(depth, scope);
                let mut any_unknown = false;
                let mut found = false;
                for_each_tuple(&univ, vs.len(), &mut |tuple| {
                    let s: BTreeMap<u32, Ty> =
                        vs.iter().cloned().zip(tuple.iter().cloned()).collect();
                    match self.eval(&b.subst(&s), facts, scope, depth, st) {
                        Tri::True => {
                            found = true;
                            false
                        }
                        Tri::Unknown => {
                            any_unknown = true;
                            true
                        }
                        Tri::False => true,
                    }
                });
                let _ = any_unknown;
                if found {
                    Tri::True
                } else {
                    Tri::Unknown
                }
            }
        }
    }

    /// All ground terms of depth <= `depth` over the program's constructors and `consts`.
    pub fn universe(&self, depth: usize, consts: &[Ty]) -> Vec<Ty> {
        let mut layers: Vec<Vec<Ty>> = vec![];
        let mut all: Vec<Ty> = vec![];
        for d in 1..=depth {
            let mut layer = vec![];
            if d == 1 {
                for (n, ar) in &self.ctors {
                    if *ar == 0 {
                        layer.push(Ty::App(n.clone(), vec![]));
                    }
                }
                layer.extend(consts.iter().cloned());
            } else {
                let prev_all: Vec<Ty> = all.clone();
                let last = layers.last().unwrap().clone();
                for (n, ar) in &self.ctors {
                    if *ar == 0 {
                        continue;
                    }
                    // at least one argument from the last layer (depth exactly d-1)
                    for_each_tuple(&prev_all, *ar, &mut |tuple| {
                        if tuple.iter().any(|t| last.contains(t)) {
                            layer.push(Ty::App(n.clone(), tuple.to_vec()));
                        }
                        true
                    });
                }
            }
            all.extend(layer.iter().cloned());
            layers.push(layer);
        }
        all
    }
}

/// Calls `f` on every `k`-tuple over `items`; `f` returns false to stop.
pub fn for_each_tuple(items: &[Ty], k: usize, f: &mut dyn FnMut(&[Ty]) -> bool) {
    fn rec(items: &[Ty], k: usize, cur: &mut Vec<Ty>, f: &mut dyn FnMut(&[Ty]) -> bool) -> bool {
        if cur.len() == k {
            return f(cur);
        }
        for it in items {
            cur.push(it.clone());
            let go = rec(items, k, cur, f);
            cur.pop();
            if !go {
                return false;
            }
        }
        true
    }
    let mut cur = vec![];
    rec(items, k, &mut cur, f);
}

/// Tarjan's SCC algorithm; returns SCCs in reverse topological order
/// (an SCC appears after all SCCs it depends on... i.e. dependencies first).
fn tarjan(alts: &[Vec<Vec<usize>>]) -> Vec<Vec<usize>> {
    let n = alts.len();
    let succ: Vec<Vec<usize>> = alts
        .iter()
        .map(|a| {
            let mut v: Vec<usize> = a.iter().flatten().cloned().collect();
            v.sort();
            v.dedup();
            v
        })
        .collect();
    let mut index = vec![usize::MAX; n];
    let mut low = vec![0usize; n];
    let mut on = vec![false; n];
    let mut stack = vec![];
    let mut out = vec![];
    let mut counter = 0;
    // iterative DFS
    for root in 0..n {
        if index[root] != usize::MAX {
            continue;
        }
        let mut call: Vec<(usize, usize)> = vec![(root, 0)];
        index[root] = counter;
        low[root] = counter;
        counter += 1;
        stack.push(root);
        on[root] = true;
        while let Some(&mut (v, ref mut i)) = call.last_mut() {
            if *i < succ[v].len() {
                let w = succ[v][*i];
                *i += 1;
                if index[w] == usize::MAX {
                    index[w] = counter;
                    low[w] = counter;
                    counter += 1;
                    stack.push(w);
                    on[w] = true;
                    call.push((w, 0));
                } else if on[w] {
                    low[v] = low[v].min(index[w]);
                }
            } else {
                call.pop();
                if let Some(&(p, _)) = call.last() {
                    low[p] = low[p].min(low[v]);
                }
                if low[v] == index[v] {
                    let mut scc = vec![];
                    loop {
                        let w = stack.pop().unwrap();
                        on[w] = false;
                        scc.push(w);
                        if w == v {
                            break;
                        }
                    }
                    out.push(scc);
                }
            }
        }
    }
    out
}

// ---------------------------------------------------------------------------
// Instances and matching with repeated variables

/// Is `ground` an instance of pattern `pat` (consistent matching: a repeated
/// pattern variable must match equal terms)?
pub fn is_instance(pat: &[Ty], ground: &[Ty]) -> bool {
    let mut s = BTreeMap::new();
    pat.len() == ground.len() && pat.iter().zip(ground).all(|(p, g)| p.match_into(g, &mut s))
}

/// Instance test after renaming repeated variables apart (linear matching).
pub fn is_linear_instance(pat: &[Ty], ground: &[Ty]) -> bool {
    fn lin(p: &Ty, g: &Ty) -> bool {
        match (p, g) {
            (Ty::Var(_), _) => true,
            (Ty::App(n, a), Ty::App(m, b)) => {
                n == m && a.len() == b.len() && a.iter().zip(b).all(|(x, y)| lin(x, y))
            }
            (Ty::Skolem(u, i), Ty::Skolem(v, j)) => u == v && i == j,
            _ => false,
        }
    }
    pat.len() == ground.len() && pat.iter().zip(ground).all(|(p, g)| lin(p, g))
}
