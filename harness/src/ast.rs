//! Harness-owned syntax: types, atoms, rules, programs and goals. Nothing in
//! here refers to a chalk data structure; programs are rendered to `.chalk`
//! text and go through the real parser and lowerer.

use std::collections::BTreeMap;
use std::fmt::Write;

/// A type term. Constructors are identified by name. Built-in constructors
/// use reserved names (see `render_ty`).
#[derive(Clone, Debug, PartialEq, Eq, Hash, PartialOrd, Ord)]
pub enum Ty {
    /// Named constructor applied to arguments (`A`, `S<..>`, `u32`, `tuple`, ...).
    App(String, Vec<Ty>),
    /// Pattern variable: impl parameter, existential of a goal, or a variable
    /// bound by a canonical answer.
    Var(u32),
    /// Universally quantified opaque constant (`forall`), by (universe, index).
    Skolem(u32, u32),
}

impl Ty {
    pub fn app0(n: &str) -> Ty {
        Ty::App(n.to_string(), vec![])
    }
    pub fn app(n: &str, a: Vec<Ty>) -> Ty {
        Ty::App(n.to_string(), a)
    }
    pub fn is_ground(&self) -> bool {
        match self {
            Ty::App(_, a) => a.iter().all(|t| t.is_ground()),
            Ty::Var(_) => false,
            Ty::Skolem(..) => true,
        }
    }
    pub fn depth(&self) -> usize {
        match self {
            Ty::App(_, a) => 1 + a.iter().map(|t| t.depth()).max().unwrap_or(0),
            _ => 1,
        }
    }
    /// Node count (the measure used by chalk's `truncate.rs` is also a node count).
    pub fn size(&self) -> usize {
        match self {
            Ty::App(_, a) => 1 + a.iter().map(|t| t.size()).sum::<usize>(),
            _ => 1,
        }
    }
    pub fn vars(&self, out: &mut Vec<u32>) {
        match self {
            Ty::App(_, a) => a.iter().for_each(|t| t.vars(out)),
            Ty::Var(v) => {
                if !out.contains(v) {
                    out.push(*v)
                }
            }
            Ty::Skolem(..) => {}
        }
    }
    pub fn max_skolem_universe(&self) -> u32 {
        match self {
            Ty::App(_, a) => a.iter().map(|t| t.max_skolem_universe()).max().unwrap_or(0),
            Ty::Var(_) => 0,
            Ty::Skolem(u, _) => *u,
        }
    }
    pub fn subst(&self, s: &BTreeMap<u32, Ty>) -> Ty {
        match self {
            Ty::App(n, a) => Ty::App(n.clone(), a.iter().map(|t| t.subst(s)).collect()),
            Ty::Var(v) => s.get(v).cloned().unwrap_or(Ty::Var(*v)),
            Ty::Skolem(..) => self.clone(),
        }
    }
    /// One-way matching of pattern `self` against `target` (target may itself
    /// contain variables, which are treated as constants).
    pub fn match_into(&self, target: &Ty, s: &mut BTreeMap<u32, Ty>) -> bool {
        match (self, target) {
            (Ty::Var(v), t) => match s.get(v) {
                Some(prev) => prev == t,
                None => {
                    s.insert(*v, t.clone());
                    true
                }
            },
            (Ty::App(n, a), Ty::App(m, b)) => {
                n == m && a.len() == b.len() && a.iter().zip(b).all(|(x, y)| x.match_into(y, s))
            }
            (Ty::Skolem(u, i), Ty::Skolem(v, j)) => u == v && i == j,
            _ => false,
        }
    }
}

/// `self_ty: tr<args>`
#[derive(Clone, Debug, PartialEq, Eq, Hash, PartialOrd, Ord)]
pub struct Atom {
    pub tr: String,
    pub self_ty: Ty,
    pub args: Vec<Ty>,
}

impl Atom {
    pub fn new(self_ty: Ty, tr: &str, args: Vec<Ty>) -> Atom {
        Atom {
            tr: tr.to_string(),
            self_ty,
            args,
        }
    }
    pub fn tys(&self) -> impl Iterator<Item = &Ty> {
        std::iter::once(&self.self_ty).chain(self.args.iter())
    }
    pub fn is_ground(&self) -> bool {
        self.tys().all(|t| t.is_ground())
    }
    pub fn size(&self) -> usize {
        self.tys().map(|t| t.size()).sum()
    }
    pub fn max_ty_size(&self) -> usize {
        self.tys().map(|t| t.size()).max().unwrap_or(0)
    }
    pub fn vars(&self, out: &mut Vec<u32>) {
        self.tys().for_each(|t| t.vars(out))
    }
    pub fn subst(&self, s: &BTreeMap<u32, Ty>) -> Atom {
        Atom {
            tr: self.tr.clone(),
            self_ty: self.self_ty.subst(s),
            args: self.args.iter().map(|t| t.subst(s)).collect(),
        }
    }
    pub fn match_into(&self, target: &Atom, s: &mut BTreeMap<u32, Ty>) -> bool {
        self.tr == target.tr
            && self.args.len() == target.args.len()
            && self.self_ty.match_into(&target.self_ty, s)
            && self
                .args
                .iter()
                .zip(&target.args)
                .all(|(a, b)| a.match_into(b, s))
    }
}

/// A Horn rule `head :- body` with variables `0..nvars` (all occurring in the head).
#[derive(Clone, Debug, PartialEq, Eq, Hash, PartialOrd, Ord)]
pub struct Rule {
    pub nvars: u32,
    pub head: Atom,
    pub body: Vec<Atom>,
}

#[derive(Clone, Debug, PartialEq, Eq, Hash, PartialOrd, Ord)]
pub struct StructDecl {
    pub name: String,
    pub arity: usize,
}

#[derive(Clone, Debug, PartialEq, Eq, Hash, PartialOrd, Ord)]
pub struct TraitDecl {
    pub name: String,
    /// number of parameters besides Self
    pub arity: usize,
    pub coinductive: bool,
}

/// A program of the core fragment: structs, traits, impls.
#[derive(Clone, Debug, PartialEq, Eq, Hash, PartialOrd, Ord)]
pub struct Program {
    pub structs: Vec<StructDecl>,
    pub traits: Vec<TraitDecl>,
    pub impls: Vec<Rule>,
}

#[derive(Clone, Debug, PartialEq, Eq, Hash, PartialOrd, Ord)]
pub enum Goal {
    Atom(Atom),
    Eq(Ty, Ty),
    And(Vec<Goal>),
    /// binds `Ty::Var(ids)`
    Exists(Vec<u32>, Box<Goal>),
    /// binds `Ty::Skolem(universe, 0..n)`
    Forall(u32, u32, Box<Goal>),
    Not(Box<Goal>),
    If(Vec<Atom>, Box<Goal>),
}

pub fn var_name(v: u32) -> String {
    format!("X{}", v)
}
pub fn skolem_name(u: u32, i: u32) -> String {
    format!("K{}_{}", u, i)
}

pub fn render_ty(t: &Ty, out: &mut String) {
    match t {
        Ty::Var(v) => out.push_str(&var_name(*v)),
        Ty::Skolem(u, i) => out.push_str(&skolem_name(*u, *i)),
        Ty::App(n, a) => match n.as_str() {
            "tuple" => {
                out.push('(');
                for (i, x) in a.iter().enumerate() {
                    if i > 0 {
                        out.push_str(", ");
                    }
                    render_ty(x, out);
                }
                if a.len() == 1 {
                    out.push(',');
                }
                out.push(')');
            }
            "ref" => {
                out.push_str("&'static ");
                render_ty(a.last().unwrap(), out);
            }
            "refmut" => {
                out.push_str("&'static mut ");
                render_ty(a.last().unwrap(), out);
            }
            "ptr_const" => {
                out.push_str("*const ");
                render_ty(&a[0], out);
            }
            "ptr_mut" => {
                out.push_str("*mut ");
                render_ty(&a[0], out);
            }
            "slice" => {
                out.push('[');
                render_ty(&a[0], out);
                out.push(']');
            }
            "array" => {
                out.push('[');
                render_ty(&a[0], out);
                out.push_str("; 3]");
            }
            "never" => out.push('!'),
            "fnptr" => {
                // last argument is the return type
                out.push_str("fn(");
                for (i, x) in a[..a.len() - 1].iter().enumerate() {
                    if i > 0 {
                        out.push_str(", ");
                    }
                    render_ty(x, out);
                }
                out.push_str(") -> ");
                render_ty(&a[a.len() - 1], out);
            }
            "dyn" => {
                // a[0] must be App(traitname, [])
                if let Ty::App(tn, _) = &a[0] {
                    let _ = write!(out, "(dyn {} + 'static)", tn);
                }
            }
            _ => {
                out.push_str(n);
                if !a.is_empty() {
                    out.push('<');
                    for (i, x) in a.iter().enumerate() {
                        if i > 0 {
                            out.push_str(", ");
                        }
                        render_ty(x, out);
                    }
                    out.push('>');
                }
            }
        },
    }
}

pub fn ty_str(t: &Ty) -> String {
    let mut s = String::new();
    render_ty(t, &mut s);
    s
}

pub fn render_atom(a: &Atom, out: &mut String) {
    render_ty(&a.self_ty, out);
    out.push_str(": ");
    out.push_str(&a.tr);
    if !a.args.is_empty() {
        out.push('<');
        for (i, x) in a.args.iter().enumerate() {
            if i > 0 {
                out.push_str(", ");
            }
            render_ty(x, out);
        }
        out.push('>');
    }
}

pub fn atom_str(a: &Atom) -> String {
    let mut s = String::new();
    render_atom(a, &mut s);
    s
}

pub fn render_impl(r: &Rule, out: &mut String) {
    out.push_str("impl");
    if r.nvars > 0 {
        out.push('<');
        for v in 0..r.nvars {
            if v > 0 {
                out.push_str(", ");
            }
            out.push_str(&var_name(v));
        }
        out.push('>');
    }
    out.push(' ');
    out.push_str(&r.head.tr);
    if !r.head.args.is_empty() {
        out.push('<');
        for (i, x) in r.head.args.iter().enumerate() {
            if i > 0 {
                out.push_str(", ");
            }
            render_ty(x, out);
        }
        out.push('>');
    }
    out.push_str(" for ");
    render_ty(&r.head.self_ty, out);
    if !r.body.is_empty() {
        out.push_str(" where ");
        for (i, b) in r.body.iter().enumerate() {
            if i > 0 {
                out.push_str(", ");
            }
            render_atom(b, out);
        }
    }
    out.push_str(" { }\n");
}

impl Program {
    pub fn render(&self) -> String {
        let mut out = String::new();
        for s in &self.structs {
            let _ = write!(out, "struct {}", s.name);
            if s.arity > 0 {
                out.push('<');
                for i in 0..s.arity {
                    if i > 0 {
                        out.push_str(", ");
                    }
                    let _ = write!(out, "P{}", i);
                }
                out.push('>');
            }
            out.push_str(" { }\n");
        }
        for t in &self.traits {
            if t.coinductive {
                out.push_str("#[coinductive] ");
            }
            let _ = write!(out, "trait {}", t.name);
            if t.arity > 0 {
                out.push('<');
                for i in 0..t.arity {
                    if i > 0 {
                        out.push_str(", ");
                    }
                    let _ = write!(out, "P{}", i);
                }
                out.push('>');
            }
            out.push_str(" { }\n");
        }
        for r in &self.impls {
            render_impl(r, &mut out);
        }
        out
    }
    pub fn is_coinductive(&self, tr: &str) -> bool {
        self.traits.iter().any(|t| t.name == tr && t.coinductive)
    }
}

pub fn render_goal(g: &Goal, out: &mut String) {
    match g {
        Goal::Atom(a) => render_atom(a, out),
        Goal::Eq(a, b) => {
            render_ty(a, out);
            out.push_str(" = ");
            render_ty(b, out);
        }
        Goal::And(gs) => {
            for (i, x) in gs.iter().enumerate() {
                if i > 0 {
                    out.push_str(", ");
                }
                render_goal(x, out);
            }
        }
        Goal::Exists(vs, b) => {
            out.push_str("exists<");
            for (i, v) in vs.iter().enumerate() {
                if i > 0 {
                    out.push_str(", ");
                }
                out.push_str(&var_name(*v));
            }
            out.push_str("> { ");
            render_goal(b, out);
            out.push_str(" }");
        }
        Goal::Forall(u, n, b) => {
            out.push_str("forall<");
            for i in 0..*n {
                if i > 0 {
                    out.push_str(", ");
                }
                out.push_str(&skolem_name(*u, i));
            }
            out.push_str("> { ");
            render_goal(b, out);
            out.push_str(" }");
        }
        Goal::Not(b) => {
            out.push_str("not { ");
            render_goal(b, out);
            out.push_str(" }");
        }
        Goal::If(hs, b) => {
            out.push_str("if (");
            for (i, h) in hs.iter().enumerate() {
                if i > 0 {
                    out.push_str("; ");
                }
                render_atom(h, out);
            }
            out.push_str(") { ");
            render_goal(b, out);
            out.push_str(" }");
        }
    }
}

/// Shape of a goal below its quantifiers — part of the root-cause discriminator of answer
/// violations (a defect that only hits conjunctions must not absorb one that hits atoms).
pub fn goal_shape(g: &Goal) -> &'static str {
    match g {
        Goal::Atom(_) => "atom",
        Goal::Eq(..) => "eq",
        Goal::And(_) => "conj",
        Goal::Not(_) => "not",
        Goal::If(..) => "if",
        Goal::Exists(_, b) | Goal::Forall(_, _, b) => goal_shape(b),
    }
}

pub fn goal_str(g: &Goal) -> String {
    let mut s = String::new();
    render_goal(g, &mut s);
    s
}

impl Goal {
    pub fn subst(&self, s: &BTreeMap<u32, Ty>) -> Goal {
        match self {
            Goal::Atom(a) => Goal::Atom(a.subst(s)),
            Goal::Eq(a, b) => Goal::Eq(a.subst(s), b.subst(s)),
            Goal::And(gs) => Goal::And(gs.iter().map(|g| g.subst(s)).collect()),
            Goal::Exists(vs, b) => Goal::Exists(vs.clone(), Box::new(b.subst(s))),
            Goal::Forall(u, n, b) => Goal::Forall(*u, *n, Box::new(b.subst(s))),
            Goal::Not(b) => Goal::Not(Box::new(b.subst(s))),
            Goal::If(hs, b) => Goal::If(hs.iter().map(|h| h.subst(s)).collect(), Box::new(b.subst(s))),
        }
    }
    /// True if the goal contains no `exists` anywhere.
    pub fn exists_free(&self) -> bool {
        match self {
            Goal::Atom(_) | Goal::Eq(..) => true,
            Goal::And(gs) => gs.iter().all(|g| g.exists_free()),
            Goal::Exists(..) => false,
            Goal::Forall(_, _, b) | Goal::Not(b) | Goal::If(_, b) => b.exists_free(),
        }
    }
    pub fn has_not(&self) -> bool {
        match self {
            Goal::Atom(_) | Goal::Eq(..) => false,
            Goal::And(gs) => gs.iter().any(|g| g.has_not()),
            Goal::Not(_) => true,
            Goal::Exists(_, b) | Goal::Forall(_, _, b) | Goal::If(_, b) => b.has_not(),
        }
    }
}
