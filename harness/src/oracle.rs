//! The answer oracle (DESIGN §3.2): compares a decoded solver answer with REF.

use crate::ast::*;
use crate::drive::{DArg, DSol, DSubst, Peeled};
use crate::refsem::*;
use std::collections::BTreeMap;

/// The goal with its leading quantifiers / implications peeled, mirroring
/// `into_peeled_goal`.
#[derive(Clone, Debug)]
pub struct PeeledAst {
    /// existential variables in creation order with the skolems each may name
    pub exist: Vec<(u32, Vec<Ty>)>,
    pub hyps: Vec<Atom>,
    /// all skolems of the prefix
    pub skolems: Vec<Ty>,
    pub body: Goal,
}

pub fn peel_ast(g: &Goal) -> PeeledAst {
    let mut exist = vec![];
    let mut hyps: Vec<Atom> = vec![];
    let mut skolems: Vec<Ty> = vec![];
    let mut cur = g.clone();
    loop {
        match cur {
            Goal::Exists(vs, b) => {
                for v in vs {
                    exist.push((v, skolems.clone()));
                }
                cur = *b;
            }
            Goal::Forall(u, n, b) => {
                for i in 0..n {
                    skolems.push(Ty::Skolem(u, i));
                }
                cur = *b;
            }
            Goal::If(hs, b) => {
                for h in hs {
                    if !hyps.contains(&h) {
                        hyps.push(h);
                    }
                }
                cur = *b;
            }
            other => {
                hyps.sort();
                return PeeledAst {
                    exist,
                    hyps,
                    skolems,
                    body: other,
                };
            }
        }
    }
}

#[derive(Clone, Debug)]
pub struct Issue {
    pub kind: String,
    pub site: String,
    pub detail: String,
}

#[derive(Clone, Debug, Default)]
pub struct OracleInfo {
    /// number of definitely-true witnesses found
    pub true_witnesses: usize,
    /// REF value of a closed goal (no existential occurs)
    pub closed_value: Option<Tri>,
    pub stats: Stats,
    /// number of witness tuples evaluated
    pub tuples: usize,
}

pub struct AnswerCheck<'a> {
    pub refm: &'a Ref,
    pub pa: &'a PeeledAst,
    pub peeled: &'a Peeled,
    pub depth: usize,
    pub solver: &'a str,
    /// structural class of the program (root-cause discriminator for findings)
    pub class: &'a str,
}

impl<'a> AnswerCheck<'a> {
    /// AST variable of canonical variable `i`
    fn var_of(&self, i: usize) -> u32 {
        self.pa.exist[self.peeled.var_creation[i] as usize].0
    }

    fn eval_tuple(&self, vars: &[u32], tuple: &[Ty], st: &mut Stats) -> Tri {
        let s: BTreeMap<u32, Ty> = vars.iter().cloned().zip(tuple.iter().cloned()).collect();
        // variables that do not occur in the peeled goal are unconstrained and
        // cannot occur in the body at all.
        let body = self.pa.body.subst(&s);
        // hypotheses may mention the unknowns too (`exists<X> { if (X: T0) { .. } }`)
        let hyps: Vec<Atom> = self.pa.hyps.iter().map(|h| h.subst(&s)).collect();
        self.refm.eval(&body, &hyps, &self.pa.skolems, self.depth, st)
    }

    /// Enumerates the definitely-TRUE witness tuples for the canonical variables.
    pub fn true_witnesses(&self, info: &mut OracleInfo) -> (Vec<u32>, Vec<Vec<Ty>>) {
        let n = self.peeled.var_creation.len();
        let vars: Vec<u32> = (0..n).map(|i| self.var_of(i)).collect();
        let mut out = vec![];
        if n == 0 {
            return (vars, out);
        }
        // per-variable universes
        let univs: Vec<Vec<Ty>> = (0..n)
            .map(|i| {
                let scope = &self.pa.exist[self.peeled.var_creation[i] as usize].1;
                self.refm.universe(self.depth, scope)
            })
            .collect();
        let mut st = Stats::default();
        let mut idx = vec![0usize; n];
        'outer: loop {
            let tuple: Vec<Ty> = (0..n).map(|i| univs[i][idx[i]].clone()).collect();
            info.tuples += 1;
            if self.eval_tuple(&vars, &tuple, &mut st) == Tri::True {
                out.push(tuple);
            }
            // next
            let mut p = n;
            loop {
                if p == 0 {
                    break 'outer;
                }
                p -= 1;
                idx[p] += 1;
                if idx[p] < univs[p].len() {
                    break;
                }
                idx[p] = 0;
            }
        }
        info.stats.merge(&st);
        (vars, out)
    }

    pub fn pattern(&self, s: &DSubst) -> Option<Vec<Ty>> {
        let mut v = vec![];
        for a in &s.args {
            match a {
                DArg::Ty(t) => v.push(t.clone()),
                _ => return None,
            }
        }
        Some(v)
    }

    /// A ground instance of the answer pattern (binder variables instantiated
    /// over the bounded universe) that REF evaluates to definitely FALSE.
    pub fn false_instance(&self, s: &DSubst, pat: &[Ty], info: &mut OracleInfo) -> Option<Vec<Ty>> {
        let n = self.peeled.var_creation.len();
        let nb = s.binders.len();
        if nb > 2 || pat.len() != n {
            return None;
        }
        let vars: Vec<u32> = (0..n).map(|i| self.var_of(i)).collect();
        let buniv: Vec<Vec<Ty>> = s
            .binders
            .iter()
            .map(|b| {
                let scope: Vec<Ty> = self
                    .pa
                    .skolems
                    .iter()
                    .filter(|k| k.max_skolem_universe() as usize <= b.universe)
                    .cloned()
                    .collect();
                self.refm.universe(self.depth.saturating_sub(1).max(1), &scope)
            })
            .collect();
        if buniv.iter().any(|u| u.is_empty()) {
            return None;
        }
        let mut st = Stats::default();
        let mut idx = vec![0usize; nb];
        let mut found = None;
        'outer: loop {
            let bs: BTreeMap<u32, Ty> = (0..nb)
                .map(|j| (j as u32, buniv[j][idx[j]].clone()))
                .collect();
            let tuple: Vec<Ty> = pat.iter().map(|p| p.subst(&bs)).collect();
            if tuple.iter().all(|t| t.is_ground()) {
                info.tuples += 1;
                if self.eval_tuple(&vars, &tuple, &mut st) == Tri::False {
                    found = Some(tuple);
                    break 'outer;
                }
            }
            let mut p = nb;
            loop {
                if p == 0 {
                    break 'outer;
                }
                p -= 1;
                idx[p] += 1;
                if idx[p] < buniv[p].len() {
                    break;
                }
                idx[p] = 0;
            }
        }
        info.stats.merge(&st);
        found
    }

    /// Shape of the goal (below its quantifier prefix), part of every site: `hyp-` when the
    /// prefix carries hypotheses, then atom / conj / not / eq / if.
    pub fn shape(&self) -> String {
        format!("{}{}", if self.pa.hyps.is_empty() { "" } else { "hyp-" }, goal_shape(&self.pa.body))
    }

    pub fn check(&self, sol: &DSol) -> (Vec<Issue>, OracleInfo) {
        let mut issues = vec![];
        let mut info = OracleInfo::default();
        let n = self.peeled.var_creation.len();
        let slv = self.solver;

        if n == 0 {
            // closed (after peeling): REF decides it
            let mut st = Stats::default();
            let v = self.eval_tuple(&[], &[], &mut st);
            info.stats.merge(&st);
            info.closed_value = Some(v);
            match (sol, v) {
                (DSol::NoSolution, Tri::True) => issues.push(Issue {
                    kind: "none-but-goal-true".into(),
                    site: format!("{}/closed/{}/{}", slv, self.class, self.shape()),
                    detail: "REF: goal is TRUE".into(),
                }),
                (DSol::Unique(_), Tri::False) => issues.push(Issue {
                    kind: "unique-but-goal-false".into(),
                    site: format!("{}/closed/{}/{}", slv, self.class, self.shape()),
                    detail: "REF: goal is FALSE".into(),
                }),
                _ => {}
            }
            return (issues, info);
        }

        let (_vars, wit) = self.true_witnesses(&mut info);
        info.true_witnesses = wit.len();

        match sol {
            DSol::NoSolution => {
                if let Some(w) = wit.first() {
                    issues.push(Issue {
                        kind: "none-but-solution-exists".into(),
                        site: format!("{}/open/{}/{}", slv, self.class, self.shape()),
                        detail: format!("true witness {:?}", w.iter().map(ty_str).collect::<Vec<_>>()),
                    });
                }
            }
            DSol::Unique(s) | DSol::Definite(s) => {
                let is_unique = matches!(sol, DSol::Unique(_));
                if s.args.len() != n {
                    // C28 territory; do not judge here
                    return (issues, info);
                }
                let pat = match self.pattern(s) {
                    Some(p) => p,
                    None => return (issues, info),
                };
                // (ii) coverage
                for w in &wit {
                    if !is_instance(&pat, w) {
                        let linear = is_linear_instance(&pat, w);
                        issues.push(Issue {
                            kind: if is_unique {
                                "unique-excludes-solution".into()
                            } else {
                                "definite-guidance-excludes-solution".into()
                            },
                            site: format!(
                                "{}/{}",
                                slv,
                                if linear { "nonlinear-only" } else { "structural" }
                            ),
                            detail: format!(
                                "answer {:?} excludes true witness {:?}",
                                pat.iter().map(ty_str).collect::<Vec<_>>(),
                                w.iter().map(ty_str).collect::<Vec<_>>()
                            ),
                        });
                        break;
                    }
                }
                // (i) soundness of Unique: no instance is definitely false
                if is_unique {
                    if let Some(tuple) = self.false_instance(s, &pat, &mut info) {
                        issues.push(Issue {
                            kind: "unique-has-false-instance".into(),
                            site: format!("{}/open/{}/{}", slv, self.class, self.shape()),
                            detail: format!(
                                "instance {:?} of the unique answer is FALSE",
                                tuple.iter().map(ty_str).collect::<Vec<_>>()
                            ),
                        });
                    }
                }
            }
            DSol::Suggested(_) | DSol::Unknown => {}
        }
        (issues, info)
    }
}
