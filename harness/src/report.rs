//! Evidence files, violation records, KNOWN_FINDINGS matching, replay files.

use serde_json::{json, Value};
use std::collections::BTreeMap;
use std::path::PathBuf;
use std::sync::Mutex;
use std::time::Instant;

pub fn verif_dir() -> PathBuf {
    std::env::var("VERIF_DIR")
        .map(PathBuf::from)
        .unwrap_or_else(|_| PathBuf::from("/verif"))
}

#[derive(Clone, Debug)]
pub struct Violation {
    pub property: String,
    /// which clause of the property failed
    pub kind: String,
    /// root-cause discriminator (panic location, structural predicate, ...)
    pub site: String,
    /// human-readable one-liner
    pub what: String,
    /// everything needed to re-execute the case
    pub input: Value,
}

impl Violation {
    pub fn case_hash(&self) -> String {
        // FNV-1a over the canonical JSON of the input
        let s = serde_json::to_string(&self.input).unwrap();
        let mut h: u64 = 0xcbf29ce484222325;
        for b in s.bytes() {
            h ^= b as u64;
            h = h.wrapping_mul(0x100000001b3);
        }
        format!("{:016x}", h)
    }
}

/// Root-cause discriminator of a panic: source file (no line number, so that
/// unrelated edits do not move it) plus a slug of the message.
pub fn panic_site(loc: &str, msg: &str) -> String {
    let file = loc.rsplit_once(':').map(|(f, _)| f).unwrap_or(loc);
    let mut slug = String::new();
    for ch in msg.chars().take(60) {
        if ch.is_ascii_alphanumeric() || ch == '_' || ch == '.' {
            slug.push(ch);
        } else if !slug.ends_with('-') {
            slug.push('-');
        }
    }
    format!("{}:{}", file, slug.trim_matches('-'))
}

#[derive(Clone, Debug)]
pub struct Finding {
    pub property: String,
    pub kind: String,
    pub site: String,
    pub case: Option<String>,
    pub what: String,
}

pub fn load_findings() -> Vec<Finding> {
    let p = verif_dir().join("KNOWN_FINDINGS.txt");
    let text = std::fs::read_to_string(p).unwrap_or_default();
    let mut out = vec![];
    for line in text.lines() {
        let line = line.trim();
        if !line.starts_with("finding:") {
            continue;
        }
        let rest = line["finding:".len()..].trim();
        let mut f = Finding {
            property: String::new(),
            kind: String::new(),
            site: String::new(),
            case: None,
            what: String::new(),
        };
        let mut words = rest.split_whitespace().peekable();
        let mut what = vec![];
        while let Some(w) = words.next() {
            if what.is_empty() {
                if let Some(v) = w.strip_prefix("property=") {
                    f.property = v.to_string();
                    continue;
                }
                if let Some(v) = w.strip_prefix("kind=") {
                    f.kind = v.to_string();
                    continue;
                }
                if let Some(v) = w.strip_prefix("site=") {
                    f.site = v.to_string();
                    continue;
                }
                if let Some(v) = w.strip_prefix("case=") {
                    f.case = Some(v.to_string());
                    continue;
                }
            }
            what.push(w);
        }
        f.what = what.join(" ");
        out.push(f);
    }
    out
}

/// Collects what a check run did and found; writes evidence at the end.
pub struct Report {
    pub property: String,
    pub tier: String,
    pub level: String,
    pub seed: i64,
    start: Instant,
    inner: Mutex<Inner>,
    findings: Vec<Finding>,
}

#[derive(Default)]
struct Inner {
    violations: Vec<Violation>,
    known: BTreeMap<String, (Finding, usize, Option<Violation>)>,
    counters: BTreeMap<String, u64>,
    /// unlisted violations seen per (kind, site) group — private to the report: a check's own
    /// counters (`count`, `merge_counts`) can never collide with it and silence a group
    group_seen: BTreeMap<(String, String), u64>,
    samples: Vec<Value>,
    notes: BTreeMap<String, Value>,
    machinery_errors: Vec<String>,
}

impl Report {
    pub fn new(property: &str, tier: &str, level: &str) -> Report {
        Report {
            property: property.to_string(),
            tier: tier.to_string(),
            level: level.to_string(),
            seed: std::env::var("VERIF_SEED")
                .ok()
                .and_then(|s| s.parse().ok())
                .unwrap_or(0),
            start: Instant::now(),
            inner: Mutex::new(Inner::default()),
            findings: load_findings(),
        }
    }

    pub fn is_thorough(&self) -> bool {
        self.tier == "thorough"
    }

    pub fn count(&self, key: &str, n: u64) {
        let mut i = self.inner.lock().unwrap();
        *i.counters.entry(key.to_string()).or_insert(0) += n;
    }

    pub fn max(&self, key: &str, n: u64) {
        let mut i = self.inner.lock().unwrap();
        let e = i.counters.entry(key.to_string()).or_insert(0);
        if n > *e {
            *e = n;
        }
    }

    pub fn get(&self, key: &str) -> u64 {
        self.inner
            .lock()
            .unwrap()
            .counters
            .get(key)
            .copied()
            .unwrap_or(0)
    }

    pub fn merge_counts(&self, m: &BTreeMap<String, u64>) {
        let mut i = self.inner.lock().unwrap();
        for (k, v) in m {
            *i.counters.entry(k.clone()).or_insert(0) += v;
        }
    }

    pub fn sample(&self, v: Value) {
        let mut i = self.inner.lock().unwrap();
        if i.samples.len() < 8 {
            i.samples.push(v);
        }
    }

    pub fn note(&self, key: &str, v: Value) {
        self.inner.lock().unwrap().notes.insert(key.to_string(), v);
    }

    pub fn machinery_error(&self, msg: String) {
        let mut i = self.inner.lock().unwrap();
        if i.machinery_errors.len() < 20 {
            i.machinery_errors.push(msg);
        }
    }

    /// Record a violation; it is matched against KNOWN_FINDINGS.
    pub fn violation(&self, v: Violation) {
        if v.property != self.property {
            // a shared exploration serves several properties; each check only
            // reports its own
            self.count(&format!("violations_of_{}_seen_here(reported_by_its_own_check)", v.property), 1);
            return;
        }
        let case = v.case_hash();
        let m = self.findings.iter().find(|f| {
            f.property == v.property
                && f.kind == v.kind
                && f.site == v.site
                && f.case.as_ref().map(|c| *c == case).unwrap_or(true)
        });
        let mut i = self.inner.lock().unwrap();
        match m {
            Some(f) => {
                let key = format!("{}|{}|{}|{:?}", f.property, f.kind, f.site, f.case);
                let e = i.known.entry(key).or_insert((f.clone(), 0, None));
                e.1 += 1;
                if e.2.is_none() {
                    e.2 = Some(v);
                }
            }
            None => {
                // keep at most 25 recorded cases per (kind, site) group, count the rest
                let n = {
                    let e = i.group_seen.entry((v.kind.clone(), v.site.clone())).or_insert(0);
                    *e += 1;
                    *e
                };
                if n <= 25 && i.violations.len() < 2000 {
                    i.violations.push(v);
                }
            }
        }
    }

    pub fn n_violations(&self) -> usize {
        self.inner.lock().unwrap().violations.len()
    }

    /// Writes replay files + evidence, prints verdict lines, returns the exit code.
    pub fn finish(
        &self,
        states: u64,
        transitions: u64,
        distinct_nontrivial: u64,
        rule: &str,
        exhaustive: bool,
        assumptions: &[&str],
    ) -> i32 {
        let i = self.inner.lock().unwrap();
        let dir = verif_dir();
        let mut exit = 0;
        // group violations by (kind, site) and write one replay file per group (the first = smallest)
        let mut groups: BTreeMap<(String, String), Vec<&Violation>> = BTreeMap::new();
        for v in &i.violations {
            groups
                .entry((v.kind.clone(), v.site.clone()))
                .or_default()
                .push(v);
        }
        if let Ok(p) = std::env::var("VERIF_DUMP") {
            let mut s = String::new();
            for v in &i.violations {
                s.push_str(&serde_json::to_string(&json!({"kind": v.kind, "site": v.site, "what": v.what, "input": v.input})).unwrap());
                s.push('\n');
            }
            let _ = std::fs::write(p, s);
        }
        let rdir = dir.join("replays").join(&self.property);
        for ((kind, site), vs) in &groups {
            let v = vs[0];
            let _ = std::fs::create_dir_all(&rdir);
            let path = rdir.join(format!("{}.json", v.case_hash()));
            let body = json!({
                "property": v.property, "kind": kind, "site": site, "what": v.what,
                "case": v.case_hash(), "input": v.input, "occurrences_this_run": vs.len(),
            });
            let _ = std::fs::write(&path, serde_json::to_string_pretty(&body).unwrap());
            println!(
                "VIOLATION property={} replay={} kind={} site={} n={} :: {}",
                v.property,
                path.display(),
                kind,
                site,
                i.group_seen
                    .get(&(kind.clone(), site.clone()))
                    .copied()
                    .unwrap_or(vs.len() as u64),
                v.what
            );
            exit = 1;
        }
        for (_k, (f, n, first)) in &i.known {
            println!(
                "KNOWN-FINDING: property={} kind={} site={} occurrences={} {}",
                f.property, f.kind, f.site, n, f.what
            );
            if let Some(v) = first {
                let _ = std::fs::create_dir_all(&rdir);
                let path = rdir.join(format!("known-{}.json", v.case_hash()));
                let body = json!({
                    "property": v.property, "kind": v.kind, "site": v.site, "what": v.what,
                    "case": v.case_hash(), "input": v.input, "known_finding": true,
                });
                let _ = std::fs::write(&path, serde_json::to_string_pretty(&body).unwrap());
            }
        }
        if !i.machinery_errors.is_empty() {
            for m in &i.machinery_errors {
                eprintln!("MACHINERY-ERROR: {}", m);
            }
            if exit == 0 {
                exit = 2;
            }
        }
        let mut coverage = serde_json::Map::new();
        coverage.insert("states".into(), json!(states));
        coverage.insert("transitions".into(), json!(transitions));
        coverage.insert("traces_validated_against_impl".into(), json!(transitions));
        coverage.insert("evaluations".into(), json!(transitions));
        coverage.insert("distinct_nontrivial".into(), json!(distinct_nontrivial));
        coverage.insert("rule".into(), json!(rule));
        coverage.insert("samples".into(), json!(i.samples));
        coverage.insert("exhaustive".into(), json!(exhaustive));
        coverage.insert(
            "explanation".into(),
            json!("the explored transition system is the implementation itself: every transition is a call into the real chalk crates built from /repo's working tree; the oracle is the harness's reference model"),
        );
        for (k, v) in &i.counters {
            coverage.insert(k.clone(), json!(v));
        }
        for ((kind, site), n) in &i.group_seen {
            coverage.insert(format!("unlisted_violations[{}|{}]", kind, site), json!(n));
        }
        for (k, v) in &i.notes {
            coverage.insert(k.clone(), v.clone());
        }
        coverage.insert(
            "known_findings_hit".into(),
            json!(i
                .known
                .values()
                .map(|(f, n, _)| json!({"kind": f.kind, "site": f.site, "occurrences": n}))
                .collect::<Vec<_>>()),
        );
        let ev = json!({
            "property_id": self.property,
            "tier": self.tier,
            "seed": self.seed,
            "level": self.level,
            "coverage": Value::Object(coverage),
            "assumptions": assumptions,
            "wall_s": self.start.elapsed().as_secs_f64(),
            "violations": i.violations.len(),
        });
        let edir = dir.join("evidence");
        let _ = std::fs::create_dir_all(&edir);
        let path = edir.join(format!("{}.json", self.property));
        std::fs::write(&path, serde_json::to_string_pretty(&ev).unwrap()).expect("write evidence");
        println!(
            "{} {}: states={} transitions={} distinct_nontrivial={} violations={} known={} wall={:.1}s exit={}",
            self.property,
            self.tier,
            states,
            transitions,
            distinct_nontrivial,
            i.violations.len(),
            i.known.len(),
            self.start.elapsed().as_secs_f64(),
            exit
        );
        exit
    }
}
