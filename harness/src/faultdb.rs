//! Fault DB: wraps a `Program`, forwards every `RustIrDatabase` /
//! `UnificationDatabase` method, counts and logs the calls, and panics at the
//! n-th call when armed (crash-point injection for C12).

use crate::drive::InjectedFault;
use chalk_integration::interner::ChalkIr;
use chalk_integration::program::Program;
use chalk_ir::*;
use chalk_solve::rust_ir::*;
use chalk_solve::RustIrDatabase;
use std::cell::{Cell, RefCell};
use std::sync::Arc;

pub struct FaultDb {
    pub inner: Arc<Program>,
    calls: Cell<usize>,
    /// panic when the call counter reaches this value (1-based)
    armed: Cell<Option<usize>>,
    log: RefCell<Vec<&'static str>>,
    keep_log: Cell<bool>,
}

impl std::fmt::Debug for FaultDb {
    fn fmt(&self, f: &mut std::fmt::Formatter<'_>) -> std::fmt::Result {
        write!(f, "FaultDb")
    }
}

impl FaultDb {
    pub fn new(inner: Arc<Program>) -> FaultDb {
        FaultDb {
            inner,
            calls: Cell::new(0),
            armed: Cell::new(None),
            log: RefCell::new(vec![]),
            keep_log: Cell::new(false),
        }
    }
    pub fn reset(&self, arm: Option<usize>, keep_log: bool) {
        self.calls.set(0);
        self.armed.set(arm);
        self.log.borrow_mut().clear();
        self.keep_log.set(keep_log);
    }
    pub fn calls(&self) -> usize {
        self.calls.get()
    }
    pub fn take_log(&self) -> Vec<&'static str> {
        std::mem::take(&mut *self.log.borrow_mut())
    }
    #[inline]
    fn hit(&self, name: &'static str) {
        let n = self.calls.get() + 1;
        self.calls.set(n);
        if self.keep_log.get() {
            self.log.borrow_mut().push(name);
        }
        if self.armed.get() == Some(n) {
            self.armed.set(None);
            std::panic::panic_any(InjectedFault(n));
        }
    }
}

impl UnificationDatabase<ChalkIr> for FaultDb {
    fn fn_def_variance(&self, id: FnDefId<ChalkIr>) -> Variances<ChalkIr> {
        self.hit("fn_def_variance");
        self.inner.fn_def_variance(id)
    }
    fn adt_variance(&self, id: AdtId<ChalkIr>) -> Variances<ChalkIr> {
        self.hit("adt_variance");
        self.inner.adt_variance(id)
    }
}

impl RustIrDatabase<ChalkIr> for FaultDb {
    fn custom_clauses(&self) -> Vec<ProgramClause<ChalkIr>> {
        self.hit("custom_clauses");
        self.inner.custom_clauses()
    }
    fn associated_ty_data(&self, ty: AssocTypeId<ChalkIr>) -> Arc<AssociatedTyDatum<ChalkIr>> {
        self.hit("associated_ty_data");
        self.inner.associated_ty_data(ty)
    }
    fn trait_datum(&self, id: TraitId<ChalkIr>) -> Arc<TraitDatum<ChalkIr>> {
        self.hit("trait_datum");
        self.inner.trait_datum(id)
    }
    fn adt_datum(&self, id: AdtId<ChalkIr>) -> Arc<AdtDatum<ChalkIr>> {
        self.hit("adt_datum");
        self.inner.adt_datum(id)
    }
    fn coroutine_datum(&self, id: CoroutineId<ChalkIr>) -> Arc<CoroutineDatum<ChalkIr>> {
        self.hit("coroutine_datum");
        self.inner.coroutine_datum(id)
    }
    fn coroutine_witness_datum(&self, id: CoroutineId<ChalkIr>) -> Arc<CoroutineWitnessDatum<ChalkIr>> {
        self.hit("coroutine_witness_datum");
        self.inner.coroutine_witness_datum(id)
    }
    fn adt_repr(&self, id: AdtId<ChalkIr>) -> Arc<AdtRepr<ChalkIr>> {
        self.hit("adt_repr");
        self.inner.adt_repr(id)
    }
    fn adt_size_align(&self, id: AdtId<ChalkIr>) -> Arc<AdtSizeAlign> {
        self.hit("adt_size_align");
        self.inner.adt_size_align(id)
    }
    fn fn_def_datum(&self, id: FnDefId<ChalkIr>) -> Arc<FnDefDatum<ChalkIr>> {
        self.hit("fn_def_datum");
        self.inner.fn_def_datum(id)
    }
    fn impl_datum(&self, id: ImplId<ChalkIr>) -> Arc<ImplDatum<ChalkIr>> {
        self.hit("impl_datum");
        self.inner.impl_datum(id)
    }
    fn associated_ty_from_impl(
        &self,
        impl_id: ImplId<ChalkIr>,
        assoc_type_id: AssocTypeId<ChalkIr>,
    ) -> Option<AssociatedTyValueId<ChalkIr>> {
        self.hit("associated_ty_from_impl");
        self.inner.associated_ty_from_impl(impl_id, assoc_type_id)
    }
    fn associated_ty_value(&self, id: AssociatedTyValueId<ChalkIr>) -> Arc<AssociatedTyValue<ChalkIr>> {
        self.hit("associated_ty_value");
        self.inner.associated_ty_value(id)
    }
    fn opaque_ty_data(&self, id: OpaqueTyId<ChalkIr>) -> Arc<OpaqueTyDatum<ChalkIr>> {
        self.hit("opaque_ty_data");
        self.inner.opaque_ty_data(id)
    }
    fn hidden_opaque_type(&self, id: OpaqueTyId<ChalkIr>) -> Ty<ChalkIr> {
        self.hit("hidden_opaque_type");
        self.inner.hidden_opaque_type(id)
    }
    fn impls_for_trait(
        &self,
        trait_id: TraitId<ChalkIr>,
        parameters: &[GenericArg<ChalkIr>],
        binders: &CanonicalVarKinds<ChalkIr>,
    ) -> Vec<ImplId<ChalkIr>> {
        self.hit("impls_for_trait");
        self.inner.impls_for_trait(trait_id, parameters, binders)
    }
    fn local_impls_to_coherence_check(&self, trait_id: TraitId<ChalkIr>) -> Vec<ImplId<ChalkIr>> {
        self.hit("local_impls_to_coherence_check");
        self.inner.local_impls_to_coherence_check(trait_id)
    }
    fn impl_provided_for(&self, auto_trait_id: TraitId<ChalkIr>, ty: &TyKind<ChalkIr>) -> bool {
        self.hit("impl_provided_for");
        self.inner.impl_provided_for(auto_trait_id, ty)
    }
    fn well_known_trait_id(&self, t: WellKnownTrait) -> Option<TraitId<ChalkIr>> {
        self.hit("well_known_trait_id");
        self.inner.well_known_trait_id(t)
    }
    fn well_known_assoc_type_id(&self, t: WellKnownAssocType) -> Option<AssocTypeId<ChalkIr>> {
        self.hit("well_known_assoc_type_id");
        self.inner.well_known_assoc_type_id(t)
    }
    fn program_clauses_for_env(&self, environment: &Environment<ChalkIr>) -> ProgramClauses<ChalkIr> {
        self.hit("program_clauses_for_env");
        chalk_solve::program_clauses_for_env(self, environment)
    }
    fn interner(&self) -> ChalkIr {
        self.hit("interner");
        ChalkIr
    }
    fn is_object_safe(&self, trait_id: TraitId<ChalkIr>) -> bool {
        self.hit("is_object_safe");
        self.inner.is_object_safe(trait_id)
    }
    fn closure_kind(&self, id: ClosureId<ChalkIr>, substs: &Substitution<ChalkIr>) -> ClosureKind {
        self.hit("closure_kind");
        self.inner.closure_kind(id, substs)
    }
    fn closure_inputs_and_output(
        &self,
        id: ClosureId<ChalkIr>,
        substs: &Substitution<ChalkIr>,
    ) -> Binders<FnDefInputsAndOutputDatum<ChalkIr>> {
        self.hit("closure_inputs_and_output");
        self.inner.closure_inputs_and_output(id, substs)
    }
    fn closure_upvars(&self, id: ClosureId<ChalkIr>, substs: &Substitution<ChalkIr>) -> Binders<Ty<ChalkIr>> {
        self.hit("closure_upvars");
        self.inner.closure_upvars(id, substs)
    }
    fn closure_fn_substitution(&self, id: ClosureId<ChalkIr>, substs: &Substitution<ChalkIr>) -> Substitution<ChalkIr> {
        self.hit("closure_fn_substitution");
        self.inner.closure_fn_substitution(id, substs)
    }
    fn unification_database(&self) -> &dyn UnificationDatabase<ChalkIr> {
        self.hit("unification_database");
        self
    }
    fn trait_name(&self, id: TraitId<ChalkIr>) -> String {
        self.inner.trait_name(id)
    }
    fn adt_name(&self, id: AdtId<ChalkIr>) -> String {
        self.inner.adt_name(id)
    }
    fn assoc_type_name(&self, id: AssocTypeId<ChalkIr>) -> String {
        self.inner.assoc_type_name(id)
    }
    fn opaque_type_name(&self, id: OpaqueTyId<ChalkIr>) -> String {
        self.inner.opaque_type_name(id)
    }
    fn fn_def_name(&self, id: FnDefId<ChalkIr>) -> String {
        self.inner.fn_def_name(id)
    }
    fn discriminant_type(&self, ty: Ty<ChalkIr>) -> Ty<ChalkIr> {
        self.hit("discriminant_type");
        self.inner.discriminant_type(ty)
    }
}
