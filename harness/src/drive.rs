//! Driver: text -> chalk Program, goals, solvers, decoded solutions, panic capture.

use crate::ast;
use chalk_integration::interner::ChalkIr;
use chalk_integration::lowering::lower_goal;
use chalk_integration::program::Program;
use chalk_ir::cast::Cast;
use chalk_ir::*;
use chalk_solve::infer::InferenceTable;
use chalk_solve::{Guidance, RustIrDatabase, Solution, Solver, SubstitutionResult};
use std::cell::RefCell;
use std::panic::{catch_unwind, AssertUnwindSafe};
use std::sync::Arc;
use std::sync::Once;

pub type UGoal = UCanonical<InEnvironment<Goal<ChalkIr>>>;

// ---------------------------------------------------------------------------
// panic capture

thread_local! {
    static LAST_PANIC: RefCell<Option<(String, String)>> = RefCell::new(None);
    static QUIET: RefCell<bool> = RefCell::new(false);
}

static HOOK: Once = Once::new();

pub fn install_panic_hook() {
    HOOK.call_once(|| {
        let prev = std::panic::take_hook();
        std::panic::set_hook(Box::new(move |info| {
            let loc = info
                .location()
                .map(|l| format!("{}:{}", shorten(l.file()), l.line()))
                .unwrap_or_else(|| "?".into());
            let msg = if let Some(s) = info.payload().downcast_ref::<&str>() {
                s.to_string()
            } else if let Some(s) = info.payload().downcast_ref::<String>() {
                s.clone()
            } else if info
                .payload()
                .downcast_ref::<chalk_solve::verif_hooks::BudgetExceeded>()
                .is_some()
            {
                "BUDGET".to_string()
            } else if info.payload().downcast_ref::<InjectedFault>().is_some() {
                "INJECTED".to_string()
            } else {
                "<non-string payload>".to_string()
            };
            LAST_PANIC.with(|p| *p.borrow_mut() = Some((loc, msg)));
            if !QUIET.with(|q| *q.borrow()) {
                prev(info);
            }
        }));
    });
}

/// Payload of a panic injected by the fault database.
#[derive(Debug)]
pub struct InjectedFault(pub usize);

fn shorten(f: &str) -> String {
    // keep path from the crate directory on, so sites survive a checkout elsewhere
    if let Some(i) = f.find("chalk-") {
        f[i..].to_string()
    } else if let Some(i) = f.find("/harness/") {
        f[i + 1..].to_string()
    } else {
        f.to_string()
    }
}

#[derive(Clone, Debug, PartialEq, Eq)]
pub enum Caught<T> {
    Ok(T),
    /// (location, message)
    Panic(String, String),
    Budget,
    Injected,
}

impl<T> Caught<T> {
    pub fn is_ok(&self) -> bool {
        matches!(self, Caught::Ok(_))
    }
}

/// Forget the last recorded panic (frees its strings; used by C27's heap accounting).
pub fn clear_last_panic() {
    LAST_PANIC.with(|p| *p.borrow_mut() = None);
}

/// Runs `f` with panics captured (quietly).
pub fn guarded<T>(f: impl FnOnce() -> T) -> Caught<T> {
    install_panic_hook();
    QUIET.with(|q| *q.borrow_mut() = true);
    LAST_PANIC.with(|p| *p.borrow_mut() = None);
    let r = catch_unwind(AssertUnwindSafe(f));
    QUIET.with(|q| *q.borrow_mut() = false);
    match r {
        Ok(v) => Caught::Ok(v),
        Err(_) => {
            let (loc, msg) = LAST_PANIC
                .with(|p| p.borrow_mut().take())
                .unwrap_or(("?".into(), "?".into()));
            if msg == "BUDGET" {
                Caught::Budget
            } else if msg == "INJECTED" {
                Caught::Injected
            } else {
                Caught::Panic(loc, msg)
            }
        }
    }
}

// ---------------------------------------------------------------------------
// programs and goals

pub fn load_program(text: &str) -> Result<Arc<Program>, String> {
    let parsed = chalk_parse::parse_program(text).map_err(|e| format!("parse: {}", e))?;
    use chalk_integration::lowering::Lower;
    let p = parsed.lower().map_err(|e| format!("lower: {}", e))?;
    Ok(Arc::new(p))
}

/// A goal peeled exactly as `GoalExt::into_peeled_goal` does, but remembering
/// how canonical variables and universes map back to the source goal.
#[derive(Clone, Debug)]
pub struct Peeled {
    pub ugoal: UGoal,
    /// canonical variable i  ->  creation index of the existential (prefix order)
    pub var_creation: Vec<u32>,
    /// canonical universe c -> original universe (k-th `forall` of the prefix, from 1)
    pub universes: Vec<usize>,
    /// number of existentials in the peeled prefix
    pub n_exist: u32,
}

pub fn lower_goal_text(program: &Program, goal_text: &str) -> Result<Goal<ChalkIr>, String> {
    let g = chalk_parse::parse_goal(goal_text).map_err(|e| format!("parse goal: {}", e))?;
    lower_goal(&g, program).map_err(|e| format!("lower goal: {}", e))
}

pub fn peel_goal(goal: Goal<ChalkIr>) -> Peeled {
    let interner = ChalkIr;
    let mut infer = InferenceTable::new();
    let mut n_exist = 0u32;
    let peeled = {
        let mut env_goal = InEnvironment::new(&Environment::new(interner), goal);
        loop {
            let InEnvironment { environment, goal } = env_goal;
            match goal.data(interner) {
                GoalData::Quantified(QuantifierKind::ForAll, subgoal) => {
                    let subgoal = infer.instantiate_binders_universally(interner, subgoal.clone());
                    env_goal = InEnvironment::new(&environment, subgoal);
                }
                GoalData::Quantified(QuantifierKind::Exists, subgoal) => {
                    n_exist += subgoal.binders.len(interner) as u32;
                    let subgoal =
                        infer.instantiate_binders_existentially(interner, subgoal.clone());
                    env_goal = InEnvironment::new(&environment, subgoal);
                }
                GoalData::Implies(wc, subgoal) => {
                    let new_environment =
                        environment.add_clauses(interner, wc.iter(interner).cloned());
                    env_goal = InEnvironment::new(&new_environment, Goal::clone(subgoal));
                }
                _ => break InEnvironment::new(&environment, goal),
            }
        }
    };
    let canonicalized = infer.canonicalize(interner, peeled);
    let var_creation = canonicalized
        .free_vars
        .iter()
        .map(|v| InferenceVar::from(*v.skip_kind()).index())
        .collect();
    let u = InferenceTable::u_canonicalize(interner, &canonicalized.quantified);
    let universes = u.universes.universes.iter().map(|u| u.counter).collect();
    Peeled {
        ugoal: u.quantified,
        var_creation,
        universes,
        n_exist,
    }
}

pub fn peel(program: &Program, goal_text: &str) -> Result<Peeled, String> {
    Ok(peel_goal(lower_goal_text(program, goal_text)?))
}

// ---------------------------------------------------------------------------
// solvers

#[derive(Copy, Clone, Debug, PartialEq, Eq, Hash, PartialOrd, Ord)]
pub enum SolverCfg {
    Slg { max_size: usize },
    Rec { overflow: usize, max_size: usize, cache: bool },
}

impl SolverCfg {
    pub const SLG: SolverCfg = SolverCfg::Slg { max_size: 10 };
    pub const REC: SolverCfg = SolverCfg::Rec {
        overflow: 100,
        max_size: 30,
        cache: true,
    };
    pub const REC_NOCACHE: SolverCfg = SolverCfg::Rec {
        overflow: 100,
        max_size: 30,
        cache: false,
    };
    pub fn name(&self) -> String {
        match self {
            SolverCfg::Slg { max_size } => format!("slg(max_size={})", max_size),
            SolverCfg::Rec {
                overflow,
                max_size,
                cache,
            } => format!(
                "recursive(overflow={},max_size={},cache={})",
                overflow, max_size, cache
            ),
        }
    }
    pub fn short(&self) -> &'static str {
        match self {
            SolverCfg::Slg { .. } => "slg",
            SolverCfg::Rec { .. } => "recursive",
        }
    }
    pub fn is_slg(&self) -> bool {
        matches!(self, SolverCfg::Slg { .. })
    }
    pub fn max_size(&self) -> usize {
        match self {
            SolverCfg::Slg { max_size } => *max_size,
            SolverCfg::Rec { max_size, .. } => *max_size,
        }
    }
    pub fn all_configs() -> Vec<SolverCfg> {
        vec![
            SolverCfg::SLG,
            SolverCfg::Slg { max_size: 4 },
            SolverCfg::Slg { max_size: 3 },
            SolverCfg::REC,
            SolverCfg::REC_NOCACHE,
            SolverCfg::Rec {
                overflow: 100,
                max_size: 4,
                cache: true,
            },
            SolverCfg::Rec {
                overflow: 10,
                max_size: 30,
                cache: true,
            },
        ]
    }
}

pub enum AnySolver {
    Slg(chalk_engine::solve::SLGSolver<ChalkIr>),
    Rec(chalk_recursive::RecursiveSolver<ChalkIr>),
}

pub const DEFAULT_BUDGET: u64 = 6_000;

impl AnySolver {
    pub fn new(cfg: SolverCfg) -> AnySolver {
        match cfg {
            SolverCfg::Slg { max_size } => {
                AnySolver::Slg(chalk_engine::solve::SLGSolver::new(max_size, None))
            }
            SolverCfg::Rec {
                overflow,
                max_size,
                cache,
            } => AnySolver::Rec(chalk_recursive::RecursiveSolver::new(
                overflow,
                max_size,
                if cache {
                    Some(chalk_recursive::Cache::default())
                } else {
                    None
                },
            )),
        }
    }

    fn as_dyn(&mut self) -> &mut dyn Solver<ChalkIr> {
        match self {
            AnySolver::Slg(s) => s,
            AnySolver::Rec(s) => s,
        }
    }

    /// `solve` under catch_unwind and a tick budget. Returns the raw solution and the ticks used.
    pub fn solve(
        &mut self,
        db: &dyn RustIrDatabase<ChalkIr>,
        goal: &UGoal,
    ) -> (Caught<Option<Solution<ChalkIr>>>, u64) {
        let b = std::env::var("VERIF_BUDGET")
            .ok()
            .and_then(|s| s.parse().ok())
            .unwrap_or(DEFAULT_BUDGET);
        self.solve_budget(db, goal, b)
    }

    pub fn solve_budget(
        &mut self,
        db: &dyn RustIrDatabase<ChalkIr>,
        goal: &UGoal,
        budget: u64,
    ) -> (Caught<Option<Solution<ChalkIr>>>, u64) {
        chalk_solve::verif_hooks::reset(Some(budget));
        let s = self.as_dyn();
        trace_case(|| format!("solver call on {:?}", goal));
        let r = guarded(|| s.solve(db, goal));
        let t = chalk_solve::verif_hooks::ticks();
        chalk_solve::verif_hooks::reset(None);
        (r, t)
    }

    pub fn solve_limited(
        &mut self,
        db: &dyn RustIrDatabase<ChalkIr>,
        goal: &UGoal,
        should_continue: &dyn Fn() -> bool,
    ) -> (Caught<Option<Solution<ChalkIr>>>, u64) {
        chalk_solve::verif_hooks::reset(Some(DEFAULT_BUDGET));
        let s = self.as_dyn();
        trace_case(|| format!("solver call on {:?}", goal));
        let r = guarded(|| s.solve_limited(db, goal, should_continue));
        let t = chalk_solve::verif_hooks::ticks();
        chalk_solve::verif_hooks::reset(None);
        (r, t)
    }

    pub fn solve_multiple(
        &mut self,
        db: &dyn RustIrDatabase<ChalkIr>,
        goal: &UGoal,
        f: &mut dyn FnMut(SubstitutionResult<Canonical<ConstrainedSubst<ChalkIr>>>, bool) -> bool,
    ) -> (Caught<bool>, u64) {
        chalk_solve::verif_hooks::reset(Some(DEFAULT_BUDGET));
        let s = self.as_dyn();
        trace_case(|| format!("solver call on {:?}", goal));
        let r = guarded(|| s.solve_multiple(db, goal, f));
        let t = chalk_solve::verif_hooks::ticks();
        chalk_solve::verif_hooks::reset(None);
        (r, t)
    }

    /// Canonical description of the persistent solver state.
    pub fn fingerprint(&self) -> String {
        match self {
            AnySolver::Slg(s) => s.verif_fingerprint().join("\n"),
            AnySolver::Rec(s) => {
                let (stack, graph, cache) = s.verif_fingerprint();
                format!("stack={} graph={}\n{}", stack, graph, cache.join("\n"))
            }
        }
    }

    /// (stack depth, search graph size) for the recursive solver.
    pub fn rec_residue(&self) -> Option<(usize, usize)> {
        match self {
            AnySolver::Slg(_) => None,
            AnySolver::Rec(s) => {
                let (a, b, _) = s.verif_fingerprint();
                Some((a, b))
            }
        }
    }
}

// ---------------------------------------------------------------------------
// decoding

#[derive(Clone, Debug, PartialEq, Eq, Hash, PartialOrd, Ord)]
pub enum DArg {
    Ty(ast::Ty),
    Lifetime(String),
    Const(String),
}

/// Kind + universe of a binder of a decoded canonical value.
#[derive(Clone, Debug, PartialEq, Eq, Hash, PartialOrd, Ord)]
pub struct DBinder {
    pub kind: String,
    pub universe: usize,
}

#[derive(Clone, Debug, PartialEq, Eq, Hash, PartialOrd, Ord)]
pub struct DSubst {
    pub binders: Vec<DBinder>,
    /// one entry per canonical variable of the query, in canonical order
    pub args: Vec<DArg>,
    /// rendered region constraints, sorted and deduplicated
    pub constraints: Vec<String>,
}

#[derive(Clone, Debug, PartialEq, Eq, Hash, PartialOrd, Ord)]
pub enum DSol {
    NoSolution,
    Unique(DSubst),
    Definite(DSubst),
    Suggested(DSubst),
    Unknown,
}

impl DSol {
    pub fn tag(&self) -> &'static str {
        match self {
            DSol::NoSolution => "None",
            DSol::Unique(_) => "Unique",
            DSol::Definite(_) => "Ambig(Definite)",
            DSol::Suggested(_) => "Ambig(Suggested)",
            DSol::Unknown => "Ambig(Unknown)",
        }
    }
    pub fn is_ambig(&self) -> bool {
        matches!(self, DSol::Definite(_) | DSol::Suggested(_) | DSol::Unknown)
    }
    /// Without constraints (for comparisons that ignore lifetimes).
    pub fn strip_constraints(&self) -> DSol {
        let strip = |s: &DSubst| DSubst {
            binders: s.binders.clone(),
            args: s.args.clone(),
            constraints: vec![],
        };
        match self {
            DSol::Unique(s) => DSol::Unique(strip(s)),
            DSol::Definite(s) => DSol::Definite(strip(s)),
            DSol::Suggested(s) => DSol::Suggested(strip(s)),
            x => x.clone(),
        }
    }
}

pub struct Decoder<'a> {
    pub program: &'a Program,
    /// canonical universe -> original universe
    pub universes: Option<&'a [usize]>,
}

impl<'a> Decoder<'a> {
    pub fn new(program: &'a Program) -> Self {
        Decoder {
            program,
            universes: None,
        }
    }
    pub fn with_universes(program: &'a Program, u: &'a [usize]) -> Self {
        Decoder {
            program,
            universes: Some(u),
        }
    }
    fn map_universe(&self, c: usize) -> usize {
        match self.universes {
            Some(u) => u.get(c).copied().unwrap_or(1000 + c),
            None => c,
        }
    }

    pub fn adt_name(&self, id: AdtId<ChalkIr>) -> String {
        self.program
            .adt_kinds
            .get(&id)
            .map(|k| k.name.to_string())
            .unwrap_or_else(|| format!("{:?}", id))
    }
    pub fn trait_name(&self, id: TraitId<ChalkIr>) -> String {
        self.program
            .trait_kinds
            .get(&id)
            .map(|k| k.name.to_string())
            .unwrap_or_else(|| format!("{:?}", id))
    }

    pub fn ty(&self, t: &Ty<ChalkIr>) -> ast::Ty {
        let i = ChalkIr;
        match t.kind(i) {
            TyKind::Adt(id, s) => ast::Ty::App(self.adt_name(*id), self.subst_tys(s)),
            TyKind::Scalar(sc) => ast::Ty::app0(&scalar_name(sc)),
            TyKind::Tuple(_, s) => ast::Ty::App("tuple".into(), self.subst_tys(s)),
            TyKind::Ref(m, l, ty) => ast::Ty::App(
                match m {
                    Mutability::Not => "ref".into(),
                    Mutability::Mut => "refmut".into(),
                },
                if matches!(l.data(i), LifetimeData::Static) {
                    vec![self.ty(ty)]
                } else {
                    vec![self.lifetime_as_ty(l), self.ty(ty)]
                },
            ),
            TyKind::Raw(m, ty) => ast::Ty::App(
                match m {
                    Mutability::Not => "ptr_const".into(),
                    Mutability::Mut => "ptr_mut".into(),
                },
                vec![self.ty(ty)],
            ),
            TyKind::Slice(ty) => ast::Ty::App("slice".into(), vec![self.ty(ty)]),
            TyKind::Array(ty, c) => ast::Ty::App(
                "array".into(),
                vec![self.ty(ty), ast::Ty::app0(&format!("{:?}", c))],
            ),
            TyKind::Str => ast::Ty::app0("str"),
            TyKind::Never => ast::Ty::app0("never"),
            TyKind::Placeholder(p) => {
                ast::Ty::Skolem(self.map_universe(p.ui.counter) as u32, p.idx as u32)
            }
            TyKind::BoundVar(b) => {
                if b.debruijn == DebruijnIndex::INNERMOST {
                    ast::Ty::Var(b.index as u32)
                } else {
                    ast::Ty::App(format!("^{}.{}", b.debruijn.depth(), b.index), vec![])
                }
            }
            TyKind::InferenceVar(v, _) => ast::Ty::App(format!("?{}", v.index()), vec![]),
            // placeholder associated types and projections by trait and item NAME (ids change when
            // items are reordered; answers are compared across reorderings)
            TyKind::AssociatedType(id, s) => match self.program.associated_ty_data.get(id) {
                Some(d) => ast::Ty::App(format!("({}::{})", self.trait_name(d.trait_id), d.name), self.subst_tys(s)),
                None => ast::Ty::App(format!("{:?}", t.kind(i)), vec![]),
            },
            TyKind::Alias(chalk_ir::AliasTy::Projection(p)) => match self.program.associated_ty_data.get(&p.associated_ty_id) {
                Some(d) => ast::Ty::App(format!("Alias({}::{})", self.trait_name(d.trait_id), d.name), self.subst_tys(&p.substitution)),
                None => ast::Ty::App(format!("{:?}", t.kind(i)), vec![]),
            },
            other => ast::Ty::App(format!("{:?}", other), vec![]),
        }
    }

    fn lifetime_as_ty(&self, l: &Lifetime<ChalkIr>) -> ast::Ty {
        ast::Ty::app0(&self.lifetime(l))
    }

    pub fn lifetime(&self, l: &Lifetime<ChalkIr>) -> String {
        match l.data(ChalkIr) {
            LifetimeData::BoundVar(b) => format!("'^{}.{}", b.debruijn.depth(), b.index),
            LifetimeData::InferenceVar(v) => format!("'?{}", v.index()),
            LifetimeData::Placeholder(p) => {
                format!("'!{}_{}", self.map_universe(p.ui.counter), p.idx)
            }
            LifetimeData::Static => "'static".into(),
            LifetimeData::Erased => "'erased".into(),
            LifetimeData::Error => "'error".into(),
            LifetimeData::Phantom(..) => unreachable!(),
        }
    }

    fn subst_tys(&self, s: &Substitution<ChalkIr>) -> Vec<ast::Ty> {
        s.iter(ChalkIr)
            .map(|a| match self.arg(a) {
                DArg::Ty(t) => t,
                DArg::Lifetime(l) => ast::Ty::app0(&l),
                DArg::Const(c) => ast::Ty::app0(&c),
            })
            .collect()
    }

    pub fn arg(&self, a: &GenericArg<ChalkIr>) -> DArg {
        match a.data(ChalkIr) {
            GenericArgData::Ty(t) => DArg::Ty(self.ty(t)),
            GenericArgData::Lifetime(l) => DArg::Lifetime(self.lifetime(l)),
            GenericArgData::Const(c) => DArg::Const(self.konst(c)),
        }
    }

    pub fn konst(&self, c: &Const<ChalkIr>) -> String {
        let d = c.data(ChalkIr);
        match &d.value {
            ConstValue::BoundVar(b) => format!("c^{}.{}", b.debruijn.depth(), b.index),
            ConstValue::InferenceVar(v) => format!("c?{}", v.index()),
            ConstValue::Placeholder(p) => {
                format!("c!{}_{}", self.map_universe(p.ui.counter), p.idx)
            }
            ConstValue::Concrete(v) => format!("c{:?}", v.interned),
        }
    }

    pub fn binders(&self, b: &CanonicalVarKinds<ChalkIr>) -> Vec<DBinder> {
        b.iter(ChalkIr)
            .map(|k| DBinder {
                kind: match &k.kind {
                    VariableKind::Ty(TyVariableKind::General) => "ty".into(),
                    VariableKind::Ty(TyVariableKind::Integer) => "int".into(),
                    VariableKind::Ty(TyVariableKind::Float) => "float".into(),
                    VariableKind::Lifetime => "lifetime".into(),
                    VariableKind::Const(_) => "const".into(),
                },
                universe: self.map_universe(k.skip_kind().counter),
            })
            .collect()
    }

    pub fn constraint(&self, c: &InEnvironment<Constraint<ChalkIr>>) -> String {
        match &c.goal {
            Constraint::LifetimeOutlives(a, b) => {
                format!("{}: {}", self.lifetime(a), self.lifetime(b))
            }
            Constraint::TypeOutlives(t, l) => {
                format!("{}: {}", ast::ty_str(&self.ty(t)), self.lifetime(l))
            }
        }
    }

    pub fn constrained(&self, c: &Canonical<ConstrainedSubst<ChalkIr>>) -> DSubst {
        let mut cs: Vec<String> = c
            .value
            .constraints
            .iter(ChalkIr)
            .map(|x| self.constraint(x))
            .collect();
        cs.sort();
        cs.dedup();
        DSubst {
            binders: self.binders(&c.binders),
            args: c.value.subst.iter(ChalkIr).map(|a| self.arg(a)).collect(),
            constraints: cs,
        }
    }

    pub fn plain(&self, c: &Canonical<Substitution<ChalkIr>>) -> DSubst {
        DSubst {
            binders: self.binders(&c.binders),
            args: c.value.iter(ChalkIr).map(|a| self.arg(a)).collect(),
            constraints: vec![],
        }
    }

    pub fn solution(&self, s: &Option<Solution<ChalkIr>>) -> DSol {
        match s {
            None => DSol::NoSolution,
            Some(Solution::Unique(c)) => DSol::Unique(self.constrained(c)),
            Some(Solution::Ambig(Guidance::Definite(c))) => DSol::Definite(self.plain(c)),
            Some(Solution::Ambig(Guidance::Suggested(c))) => DSol::Suggested(self.plain(c)),
            Some(Solution::Ambig(Guidance::Unknown)) => DSol::Unknown,
        }
    }
}

pub fn scalar_name(s: &Scalar) -> String {
    match s {
        Scalar::Bool => "bool".into(),
        Scalar::Char => "char".into(),
        Scalar::Int(i) => format!("{:?}", i).to_lowercase(),
        Scalar::Uint(i) => format!("{:?}", i).to_lowercase(),
        Scalar::Float(i) => format!("{:?}", i).to_lowercase(),
    }
}

/// Convenience: solve one goal text on a fresh solver, decoded.
pub fn solve_fresh(
    program: &Arc<Program>,
    peeled: &Peeled,
    cfg: SolverCfg,
) -> (Caught<DSol>, u64) {
    let mut solver = AnySolver::new(cfg);
    inflight_begin(|| {
        chalk_integration::tls::set_current_program(program, || {
            format!(
                "cfg={} goal={:?} impls={:?}",
                cfg.name(),
                peeled.ugoal,
                program.impl_data.values().collect::<Vec<_>>()
            )
        })
    });
    let (r, t) = solver.solve(&**program, &peeled.ugoal);
    inflight_end();
    (decode_caught(program, peeled, r), t)
}

pub fn decode_caught(
    program: &Program,
    peeled: &Peeled,
    r: Caught<Option<Solution<ChalkIr>>>,
) -> Caught<DSol> {
    match r {
        Caught::Ok(s) => {
            let d = Decoder::with_universes(program, &peeled.universes);
            Caught::Ok(d.solution(&s))
        }
        Caught::Panic(a, b) => Caught::Panic(a, b),
        Caught::Budget => Caught::Budget,
        Caught::Injected => Caught::Injected,
    }
}

/// Suppress "unused" warnings for helper re-exports used by some props only.
#[allow(dead_code)]
pub fn _unused(_: &dyn Fn(GenericArg<ChalkIr>) -> GenericArg<ChalkIr>) {
    let _ = |t: Ty<ChalkIr>| -> GenericArg<ChalkIr> { t.cast(ChalkIr) };
}

// ---------------------------------------------------------------------------
// in-flight registry + watchdog (a solve that never ticks cannot be stopped by
// the budget; the watchdog names the case so that it can be reported)

use std::collections::HashMap;
use std::sync::Mutex;
use std::time::Instant;

static INFLIGHT: Mutex<Option<HashMap<std::thread::ThreadId, (Instant, String)>>> = Mutex::new(None);
static WATCHDOG: Once = Once::new();

// ---------------------------------------------------------------------------
// case tracing: when VERIF_TRACE_FILE is set every call into chalk first appends
// a line describing the case (unbuffered), so that after an abort (stack
// overflow, double free, ...) the last line names the input that killed the
// process. `./vcheck` re-runs a crashed check this way, single-threaded.

static TRACE: std::sync::OnceLock<Option<Mutex<std::fs::File>>> = std::sync::OnceLock::new();

pub fn trace_enabled() -> bool {
    TRACE
        .get_or_init(|| {
            std::env::var("VERIF_TRACE_FILE")
                .ok()
                .and_then(|p| std::fs::OpenOptions::new().create(true).append(true).open(p).ok())
                .map(Mutex::new)
        })
        .is_some()
}

pub fn trace_case(desc: impl FnOnce() -> String) {
    if trace_enabled() {
        if let Some(Some(f)) = TRACE.get() {
            use std::io::Write;
            let line = desc().replace('\n', " ");
            let _ = writeln!(f.lock().unwrap(), "{}", line);
        }
    }
}

pub fn inflight_begin(desc: impl FnOnce() -> String) {
    if trace_enabled() {
        let d = desc();
        trace_case(|| d.clone());
        let mut g = INFLIGHT.lock().unwrap();
        g.get_or_insert_with(HashMap::new)
            .insert(std::thread::current().id(), (Instant::now(), d));
        return;
    }
    let mut g = INFLIGHT.lock().unwrap();
    g.get_or_insert_with(HashMap::new)
        .insert(std::thread::current().id(), (Instant::now(), desc()));
}

pub fn inflight_end() {
    let mut g = INFLIGHT.lock().unwrap();
    if let Some(m) = g.as_mut() {
        m.remove(&std::thread::current().id());
    }
}

/// Starts a watchdog thread: any case in flight for more than `limit_s`
/// seconds is handed to `on_stuck` once; the process then exits with `code`.
pub fn start_watchdog(limit_s: f64, on_stuck: impl Fn(&str, f64) -> i32 + Send + 'static) {
    WATCHDOG.call_once(move || {
        std::thread::spawn(move || loop {
            std::thread::sleep(std::time::Duration::from_millis(500));
            let stuck: Option<(String, f64)> = {
                let g = INFLIGHT.lock().unwrap();
                g.as_ref().and_then(|m| {
                    m.values()
                        .filter(|(t, _)| t.elapsed().as_secs_f64() > limit_s)
                        .map(|(t, d)| (d.clone(), t.elapsed().as_secs_f64()))
                        .next()
                })
            };
            if let Some((d, t)) = stuck {
                let code = on_stuck(&d, t);
                std::process::exit(code);
            }
        });
    });
}
