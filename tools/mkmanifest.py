#!/usr/bin/env python3
"""Regenerates /verif/MANIFEST.json from the table below (kept by hand).
Run: python3 tools/mkmanifest.py   (validates against the schema when jsonschema is importable)"""
import json, os, subprocess, sys

HERE = os.path.dirname(os.path.dirname(os.path.abspath(__file__)))

# id -> (level category, technique, level text, level note, design ref)
CHECKS = {}

def add(pid, technique, text, note, ref, category="model_checking"):
    CHECKS[pid] = dict(category=category, technique=technique, text=text, note=note, ref=ref)

EXH = "bounded-exhaustive enumeration; every case executes the real chalk code"

add("C01", "exhaustive small-scope enumeration of programs x goals on the real solvers, checked against an independent lfp/gfp reference semantics",
    "Every program of the C01 fragment up to a stated weight and every goal of a fixed goal set is solved by the real SLG and recursive solvers; each definite answer is compared with REF (three-valued least/greatest fixed point evaluator written independently of chalk): Unique must cover every true witness and have no false instance, None must have no true witness, Definite guidance must cover every true witness.",
    "Trusted: REF (harness/src/refsem.rs, ~400 lines) and the decoder. Bounds: program weight, ground-type depth for witnesses. Only concrete counter-witnesses alarm.",
    "DESIGN.md §4 C01")
add("C02", "exhaustive small-scope enumeration x 7 solver configurations against the reference semantics",
    "Every closed goal of the goal set on every program of the C01 fragment under SLG max_size 10/4/3 and recursive default / cache off / max_size 4 / overflow 10: the answer must be Unique iff REF says TRUE, None iff FALSE, and never Ambiguous when REF's dependency graph fits the configured limits.",
    "Trusted: REF and its computation of 'within limits' (largest type size, node count of the dependency graph).",
    "DESIGN.md §4 C02")

add("C03", "exhaustive small-scope enumeration of programs x existential goals; SLG solve_multiple driven answer by answer, checked against the reference semantics",
    "Every goal with existential variables on every program of the C01 fragment (and the growing families) is enumerated with the real solve_multiple, twice on the same solver: every definite answer must have no false ground instance, no answer may repeat, the `next` flag and return value must match what happens next, and an enumeration that ends by itself with only definite answers must cover every true witness REF finds.",
    "Trusted: REF; cap of 24 answers per enumeration (reported).",
    "DESIGN.md §4 C03")
add("C04", "exhaustive small-scope enumeration; differential oracle between the two real solvers",
    "Every (program, goal) of the C01 corpus and of five text-level families (associated types, auto traits, built-in traits, lifetimes, custom clauses) is solved by a fresh SLG and a fresh recursive solver; None-vs-Unique, unequal Unique substitutions and a Unique that is not an instance of the other's Definite guidance are violations.",
    "No reference semantics involved; lifetime constraints not compared.",
    "DESIGN.md §4 C04")
add("C05", "exhaustive small-scope enumeration of auto-trait programs x closed goals against a rule set written from the statement (greatest fixed point), plus explicit-state search over goal orders on one solver to closure",
    "Every program of the auto-trait family (two ADTs with every pair of field lists from a menu incl. self and mutual recursion, struct or enum, six explicit-impl options incl. negative, single-instance and blanket impls) and every closed goal `ty: Send` over a type universe is solved by both solvers and compared with REF; then all orders of 5-6 interrelated goals are explored on one solver instance until no new solver state appears, each answer compared with the fresh-solver answer (a cached result that relied on a later-falsified cyclic assumption would differ). The #[coinductive] programs of the C01 corpus are included.",
    "Trusted: the auto-trait rule as written in the property statement (harness/src/props/c05.rs) and REF's gfp evaluator.",
    "DESIGN.md §4 C05")
add("C06", "exhaustive small-scope enumeration of supertrait / where-clause structures x hypothesis sets x conclusions against an elaboration closure + lfp reference, plus explicit-state search over interleavings of hypothesis-carrying and hypothesis-free goals",
    "Every program from the product of supertrait structures (flat, chain, diamond, cycle), where-clauses on a trait parameter, struct where-clauses and impl subsets; every goal forall<T> { if (H) { G } } for 8 hypothesis sets x 7 conclusions and the hypothesis-free versions; the solver must prove G exactly when G follows from the program and the elaborated hypotheses; histories interleaving both versions on one solver are explored to closure and every answer must equal the fresh-solver answer (no leak).",
    "Trusted: the elaboration rule (trait hypothesis => the trait's where-clauses, FromEnv(type) => the struct's where-clauses, recursively) in harness/src/props/c06.rs.",
    "DESIGN.md §4 C06")
add("C07", "exhaustive enumeration of coherent associated-type programs x normalization / equality goals against a reference normalizer",
    "382 programs (subsets of concrete impls, one of five generic impls whose value is a parameter, a projection on the same or another trait, or a type containing a projection, subsets of impls of a second trait, associated type with/without a bound) x goals exists<U> { Normalize(<X as Tr>::X -> U) }, exists<U> { X: Tr<X = U> } and X: Tr<X = Y> for every ground X of depth <= 3 and candidate Y, plus forall / forall-if variants, both solvers: a normalization goal must be Unique with the applicable impl's (normalized) value or None when no impl applies; an equality goal must never be Unique for another type; any unique type must be the value.",
    "Trusted: REF normalize (unique applicable impl by header match + lfp where-clauses, substitute, normalize nested projections). Answers mentioning an unnormalized alias are counted, not judged (none occur).",
    "DESIGN.md §4 C07")
add("C08", "exhaustive enumeration of every type of a bounded universe x 5 built-in traits x programs against structural rules transcribed from the statement",
    "For 48 programs (field lists of a struct x explicit impl sets) with the lang-item traits declared, every closed goal `ty: Sized|Copy|Clone|Tuple|FnPtr` over every type of depth <= 2 plus depth-3 wrappers (ADTs, enum, tuples 0-3, arrays, slices, str, refs, raw pointers, fn pointers, scalars, never, dyn) must be answered Unique/None exactly as the rule set says, by both solvers.",
    "Trusted: the rule transcription in harness/src/props/c08.rs (builtin_rules).",
    "DESIGN.md §4 C08")
add("C09", "exhaustive small-scope enumeration x 6 configurations with a deterministic work budget (hook H1) and a wall-clock watchdog",
    "Every solve / solve_multiple call over the reduced C01 corpus and the growing families must return within a tick budget several times the largest count observed on returning calls, without panicking (the recursive solver's overflow-depth panic is allowed only where the search is that deep).",
    "Termination is decided in bounded form: 'returns within N ticks'. The budget and the observed maximum are in the evidence.",
    "DESIGN.md §4 C09")
add("C10", "explicit-state breadth-first search over solver histories (states rebuilt by replay, deduplicated by the solver-state fingerprint of hook H2) run to closure",
    "For every program of the corpus and each of SLG / recursive / recursive-without-cache, every sequence of solve(g) over an alphabet of goals that share subgoals is explored until no new solver state (tables, answers, suspended strands / cache entries) appears; on every transition the answer must equal the fresh-solver answer, the recursive solver must keep no stack or search-graph residue, and cache-on and cache-off answers must agree.",
    "State identity is the H2 fingerprint with forest-clock stamps dropped (argued in DESIGN §3.4). Alphabet size 4 (quick) / 6 (thorough).",
    "DESIGN.md §4 C10")
add("C11", "deviation-bounded exhaustive enumeration of interruption schedules (0, 1, 2 deviations from 'always continue') with continuation sequences on the same solver",
    "A clean solve_limited counts the N invocations of the continue-callback; then every schedule 'false exactly at k', 'false from k on', 'false at k and j' is executed on a fresh solver, followed by every continuation sequence (solve / interrupted again then solve / ...): the interrupted result must equal the full answer or be an ambiguous answer that does not contradict it, and every later uninterrupted solve must equal the fresh-solver answer.",
    "The full answer is the fresh-solver `solve` answer. N is capped per tier (reported when the cap truncates a schedule space).",
    "DESIGN.md §4 C11")
add("C12", "crash-point enumeration: the n-th database callback panics, for every n of a clean run, optionally followed by a second injected panic",
    "A counting wrapper around the program database records the N callbacks of a clean solve; for EVERY n in 1..N the n-th callback panics (whichever method it is), the panic is caught, and the same goal and every other alphabet goal are then solved on the same solver: no panic, and answers equal to a fresh solver's. Thorough adds every second crash point m <= 25 in the retry.",
    "Panics are injected only from database callbacks. Programs are a deterministic thinning of the corpus (stride reported).",
    "DESIGN.md §4 C12", category="fault_enumeration")
add("C13", "exhaustive enumeration of reorderings (all impl permutations, where-clause reversal, all trait and struct permutations, impls before declarations, everything reversed) of every corpus program; differential oracle against the source order",
    "Each reordered program is parsed, lowered and solved afresh by both solvers for the selected goals; the decoded answer (ids mapped to names, constraints included) must equal the source-order answer unless REF shows the search exceeds the solver's size limit.",
    "Reorderings are per block (impls / traits / structs) rather than all permutations of the flat item list, plus two cross-block placements.",
    "DESIGN.md §4 C13")
add("C14", "explicit-state breadth-first search over real InferenceTables (clonable states, canonical-state dedup), every transition compared with a reference unifier",
    "From a table with unknowns in three universes, integer/float unknowns and placeholders of two universes, every ordered pair of a term set (ADTs incl. a covariant one, tuples, slices, raw pointers, scalars; depth <= 3) is related invariantly from every reachable table state up to the tier's depth; success must coincide with REF-unifiability (occurs check, universe visibility, kinds) and the resulting table must be alpha-equivalent to REF's most general unifier including universes; covariant relation of lifetime-free types must agree after discharging its returned subtype goals.",
    "Trusted: the reference unifier in harness/src/props/c14.rs. Bounds: term depth, search depth 2 (quick) / 3 (thorough), frontier cap reported.",
    "DESIGN.md §4 C14")
add("C15", "same explicit-state search as C14; invariants evaluated on every failed transition",
    "In the C14 exploration every failed relate is applied to the state's own table (failures accumulate along the history): the full observable state (normalized value and universe of every unknown, next fresh universe) must be identical before and after, and for every pair relate(a,b) must succeed iff relate(b,a) does.",
    "Observable state = canonical form of the tuple of all original unknowns plus the next fresh universe on a clone.",
    "DESIGN.md §4 C15")
add("C16", "exhaustive enumeration of bounded values over 8 table states; every API result compared with a reference canonicalizer and with round-trip laws",
    "Every tuple of 2 (thorough: 3) type terms of depth <= 2 mixing unknowns of all three kinds in two universes, placeholders of all kinds in two other universes, repeated unknowns, over the initial table and seven pre-unified tables: canonicalize must number unknowns by first occurrence with kind and current universe, be invariant under swapping interchangeable unknowns, survive instantiate+canonicalize, and u_canonicalize must be a monotone compression onto 0..n that map_from_canonical undoes for every kind.",
    "Trusted: the 30-line reference canonicalizer. `invert` is not judged (the statement does not mention it).",
    "DESIGN.md §4 C16")
add("C17", "exhaustive enumeration of pairs and folded triples of bounded canonical substitutions through the real anti-unifier and may-invalidate check (hook H3), and of all solution pairs through Solution::combine, against first-order matching and a set-semantics model",
    "Every ordered pair (and triple, folded) of same-shape canonical substitutions with 1-2 entries over terms of depth <= 2 covering every constructor the anti-unifier distinguishes, placeholders, repeated bound variables, consts and lifetimes: both inputs must be instances of merge_into_guidance's result, and may_invalidate = false must imply that the new answer is an instance of the current guidance (consistent matching). Every pair of Unique/Definite/Suggested/Unknown solutions over a pattern set: combine must be commutative and, read as a claim about solution sets over a ground domain, must allow the union of any two sets its inputs allow.",
    "Trusted: 40 lines of consistent first-order matching; the reading of a solution as a constraint on solution sets (Unique = exactly the instances, Definite = subset of the instances, otherwise no claim).",
    "DESIGN.md §4 C17")
add("C18", "exhaustive enumeration of type pairs / clause-goal pairs through could_match, of impl headers vs goals through Program::impls_for_trait, and a differential run of both solvers with the filter bypassed",
    "could_match = false must imply REF-non-unifiability (unknowns of the two sides kept apart) for every ordered pair of a set of types of depth <= 2 (3 thorough) over all constructor kinds and for clause/goal pairs of trait references; every impl whose header unifies with an atomic goal must be returned by impls_for_trait; and for every (program, goal, solver) of the reduced corpus the answer must be identical when a database wrapper returns all impls of the trait instead of the filtered list.",
    "Trusted: Robinson unification over the harness term language.",
    "DESIGN.md §4 C18")
add("C19", "exhaustive enumeration of impl multisets of one trait (identical, blanket, chains, diamonds, negative, marker) through the real coherence solver, judged against ground applicability sets",
    "Every multiset of up to 3 (thorough 4) impls from 6 heads x where-clause x polarity, x 3 sets of supporting impls x plain/#[marker], both solvers: specialization_priorities must never panic; when it accepts a non-marker trait, two impls of equal priority must share no ground trait reference and an impl applying to a strict non-empty subset of another's references must have the higher priority.",
    "Ground sets over types of depth <= 3 (4 thorough); only concrete common witnesses alarm. Marker traits: only totality is judged.",
    "DESIGN.md §4 C19")
add("C20", "exhaustive enumeration of impl headers (1-3 type arguments from a 13-entry menu, local or upstream trait) through the real orphan check, compared with the orphan rule of the statement",
    "Every impl `impl<T?> Tr<A1, A2> for A0` with arguments from {local, upstream, fundamental-upstream around local/upstream/parameter, non-fundamental upstream around parameter/scalar/local, scalar, tuples, bare parameter} (about 2*13^3 programs): perform_orphan_check must accept exactly when the trait is local or some argument is local (through fundamental constructors) with no impl parameter mentioned before it; both solvers.",
    "Trusted: the 6-line statement of the rule in harness/src/props/c20.rs.",
    "DESIGN.md §4 C20")
add("C21", "exhaustive enumeration of declaration variants x impl subsets through checked_program; every accepted program is judged over a bounded universe of ground types",
    "24 declaration variants (supertrait on/off, struct where-clauses and field types that do or do not carry the needed bounds) x all subsets of 8 impls with sound or missing bounds: for each program the WF checker accepts, every well-formed ground type that implements a trait must satisfy the trait's where-clauses, and every field type of a well-formed struct instance must be well-formed (types of depth <= 3, thorough 4). Rejected programs are counted, not judged.",
    "Trusted: REF's definition of WF(type) and lfp implementation facts.",
    "DESIGN.md §4 C21")
add("C22", "exhaustive products of item features rendered to text; two write/parse/lower round trips compared as Program values under the normalization the statement allows",
    "Ten families (ADT attributes and bodies, trait attributes and bodies, impls, opaque types, fn definitions, type forms in every position, name clashes), each a full product of small option lists (1.4*10^5 programs quick, 3.3*10^6 thorough): lower(write(P0)) must be equivalent to P0 (where-clauses as sets, implied trait bound of an equality bound added, names up to a bijection), the second round trip must reproduce text and program exactly where no equality bound or clash is involved, and a collapsed-names pass exercises the disambiguator.",
    "Written by a helper agent; parses with a persistent ProgramParser per thread (same grammar). Four writer mutants (dropped #[marker], dropped `!`, swapped outlives sides, broken disambiguation) were detected. 16 genuine writer omissions/collisions are listed as findings D20/D21.",
    "DESIGN.md §4 C22")
add("C23", "exhaustive enumeration of goal sequences solved through the recording database; differential oracle between the original program and the printed-and-reparsed one",
    "For a thinning of the corpus and of the associated-type and auto-trait families, every sequence of length <= 2 (thorough 3) over an alphabet of 4-5 goals is solved on one solver through LoggingRustIrDatabase; its printed program must parse and lower, and the same goals solved on it by a fresh solver of the same kind must give equal decoded answers.",
    "Answers compared by item name. Goals naming items the solver never asked about (finding D23) cannot be compared.",
    "DESIGN.md §4 C23")
add("C24", "exhaustive enumeration of short strings over representative characters, short token sequences spliced into every hole of program skeletons, and every single-edit semantic error of 36 templates; child processes attribute aborts to inputs",
    "2.6*10^6 (quick) / 1.2*10^8 (thorough) inputs through parse_program / parse_goal / parse_ty, Lower::lower, lower_goal and checked_program: every call must return Ok or Err; panics are keyed by file + message; stack overflows/aborts are caught by running shards in child processes and bisecting.",
    "Written by a helper agent. Panics inside checked_program that originate outside parsing/lowering code are reported as notes (C19/C21 territory), not as C24 violations. Invalid UTF-8 is represented by U+FFFD since &str cannot hold it.",
    "DESIGN.md §4 C24")
add("C25", "exhaustive enumeration of bounded terms (types, goals, clauses, substitutions) x substitutions; every real shift/substitute/fold result compared with textbook de Bruijn operations on the harness AST, plus the laws checked on the real values",
    "All terms up to rank 2 fully and rank 3 along a spine (thorough: rank 3 fully, rank 4 spine) with bound variables of all three kinds at depths 0..b+2 and indices 0..1 under fn-pointer, dyn, quantified-goal and clause binders, and all well-kinded parameter lists of length <= 2: shifted_in(_from), shifted_out(_to) incl. the escape error, Subst::apply, Binders::substitute, Substitution::apply must equal the reference; shift-in-then-out, identity substitution, cancellation and the substitution/shift commutation law must hold; folding with folders that override nothing must return an equal term.",
    "Trusted: the reference de Bruijn operations in harness/src/props/c25.rs. Written by a helper agent; six mutants of shift.rs / subst.rs / binder_impls.rs / fold.rs were all detected.",
    "DESIGN.md §4 C25")
add("C26", "exhaustive enumeration of all types up to depth 2 (3 thorough) over every TyKind variant with lifetimes/consts of every kind in every position; interned flags compared with an independent bottom-up occurrence model",
    "About 5*10^7 (quick) / 5*10^8 (thorough) distinct types are built with the real interner (which runs compute_flags) and the stored flags, masked to the occurrence flags, are compared with a reference computed on the harness's own AST from the flag doc comments; STILL_FURTHER_SPECIALIZABLE is masked out; four (flag, construct) pairs whose doc comment is ambiguous are don't-care.",
    "Trusted: the occurrence model in harness/src/props/c26.rs. Written by a helper agent; mutants of compute_flags (dropped const type, dyn bound, ref lifetime, fn-pointer substitution flags) were all detected.",
    "DESIGN.md §4 C26")
add("C27", "fault enumeration: every vector length x every failure position x {success, error return, panic} x element layout pairs through the real in-place map (hook H4) and the public TypeFoldable route; drop logs + counting allocator as oracles; thorough replays the enumeration under Miri",
    "949 (quick) / 1918 (thorough) executions: each element must be dropped exactly once (none during a successful call), errors and panics must propagate, and the thread's live heap bytes must return to their starting value, for 8 vector layout pairs incl. both fallback and in-place paths, zero-sized types, boxes, and Vec<T>/Box<T>: TypeFoldable with a failing folder. The thorough tier additionally runs the same enumeration (480 executions) in the Miri interpreter, which flags use of freed or uninitialised memory, double frees and leaks on each execution.",
    "Miri is used only as a per-execution UB detector on enumerated executions, not as a search. Without Miri the oracle cannot see UB that neither double-drops, leaks nor unbalances the allocator.",
    "DESIGN.md §4 C27", category="fault_enumeration")
add("C28", "exhaustive small-scope enumeration with a structural well-formedness monitor on every returned solution",
    "Every solution returned by either solver (and every enumerated SLG answer) over the reduced C01 corpus plus goals with lifetime/const unknowns and nested forall is checked: one entry per query variable, matching kinds, bound variables only at the solution's own binder and in range, no universe the query cannot name, no inference variables, and applying it to the query does not panic.",
    "The monitor reads chalk's values through the public visitor API.",
    "DESIGN.md §4 C28")

add("C29", "exhaustive enumeration of ordered type pairs posed as Subtype goals to both solvers, against a variance-algebra reference",
    "Every ordered pair of types of depth <= 2 (deeper nestings in thorough) over shared/mutable references, fn pointers, tuples and ADTs over a lifetime or a type with each declared variance, lifetimes from {'static, 'a, 'b}: the answer must be Unique exactly when the structures agree, with outlives constraints equal (as a set, modulo duplicates and trivial ones) to those the variance of each position dictates.",
    "Lifetime-leaf convention is chalk's documented one, as blessed by the pinned tests ref_lifetime_variance and struct_lifetime_variance. None vs Ambiguous on mismatches is not judged.",
    "DESIGN.md §4 C29")

NOT_YET = "check not built yet in this round (planned: bounded-exhaustive exploration, see DESIGN.md §4)"

ALL = ["C%02d" % i for i in range(1, 30)]

# What was added to each check's enumerated space after the seeded-change campaign (DESIGN.md §7);
# appended to the level text so that the table above stays the original description.
WIDENED = {
    "C01": "Goal sets are closed under the renamings used to reduce programs; goals with two nested universes and with a hypothesis that shares the unknown with the goal.",
    "C02": "Closed goals whose two arguments are each within a small size limit while their sizes add up beyond it.",
    "C03": "Also enumerations on solvers left partially used (after a one-answer enumeration, after a solve); one-parameter fragments with impls in both declaration orders and witnesses one level deeper.",
    "C04": "Sixth text family `coperm` (a cycle that returns with its unknowns permuted, coinductive and inductive, every order of the where-clauses).",
    "C05": "Second family: three non-generic structs with every ordered field list over {N, P1, P2, P3} containing a cycle (<= 5/7 fields), goals in every order on one solver. Sites of history violations carry the direction of the change.",
    "C06": "Hypotheses whose self type is a struct application (open and closed), a trait where-clause on a struct applied to Self, a one-trait cycle `X: Par<Self>`: 10 hypothesis sets x 9 conclusions x 5 parameter variants.",
    "C07": "1438 programs: also a projection nested under a constructor whose normal form mentions the impl parameter, and a concrete impl told apart from the generic one by a where-clause only, declared before or after it.",
    "C08": "Three structs whose tail field is a type parameter declared after a lifetime / const parameter.",
    "C09": "After every (allowed) overflow panic ten goals are solved again on the same solver; the goal set has a hypothesis sharing the unknown with the goal.",
    "C10": "Alphabet 4 (quick) / 5 (thorough) goals; the four-atom propositional fragment F0x; for SLG also 'enumerate the first answer of g' as unjudged state extenders; sites carry the direction of the change; replay re-executes the history.",
    "C11": "Interrupted `Definite` guidance that differs from the full answer is itself checked against REF; corpus of three ground impls in every order.",
    "C12": "Three retry orders after each crash: crashed goal first, other goals first, an answer enumeration first.",
    "C13": "Also the associated-type and auto-trait text families, reordered at item level (every impl permutation, impls first, declarations reversed, everything reversed); answers decoded to item names.",
    "C17": "Terms include an ADT over a lifetime and placeholders of equal index in different universes.",
    "C18": "356 types over every constructor the filter has an arm for (fn definitions, closures, foreign types, applied associated/opaque types, four fn-pointer signatures, two placeholder lifetimes, an inference lifetime, an ADT over a lifetime); end-to-end comparison also on the text families (projections in argument position).",
    "C19": "Every declaration order of every 3..5-subset of the specialization lattice T > S<T> > {S<A>, S<S<T>>} > S<S<A>>.",
    "C20": "18-entry argument menu: the impl parameter as first / last tuple element and inside a two-parameter fundamental constructor.",
    "C21": "Two-field structs in both field orders; every program also with all its impls #[upstream].",
    "C22": "Bound lists naming one generic trait at two argument lists (one with a binding); fn definitions compared up to one-to-one renaming like other items.",
    "C23": "Sequences of length >= 2 also with the recorded program printed after every goal.",
    "C28": "Three product families over a two-position constructor (type / const / lifetime position); a solver assertion about the answer under construction counts as an ill-formed answer.",
    "C29": "Lifetimes also include an unknown bound by exists inside the forall; equality by substitution is accepted only where the variance dictates outlives in both directions.",
}


def main():
    for pid, extra in WIDENED.items():
        if pid in CHECKS and extra not in CHECKS[pid]["text"]:
            CHECKS[pid]["text"] = CHECKS[pid]["text"].rstrip() + " Widened after the seeded-change campaign: " + extra
    checks = []
    for pid in ALL:
        if pid not in CHECKS:
            continue
        c = CHECKS[pid]
        checks.append({
            "property_id": pid,
            "quick_cmd": "./vcheck %s quick" % pid,
            "thorough_cmd": "./vcheck %s thorough" % pid,
            "evidence_file": "/verif/evidence/%s.json" % pid,
            "replay_cmd_template": "./vcheck replay {path}",
            "engine": "vcheck-bin",
            "level_claimed": {"category": c["category"], "text": c["text"], "design_ref": c["ref"]},
            "level_note": c["note"],
            "technique": c["technique"],
        })
    na = [{"property_id": p, "reason": NOT_YET} for p in ALL if p not in CHECKS]
    hooks_commits = subprocess.run(["git", "-C", "/repo", "log", "--format=%H %s", "--grep=^verif-hooks"],
                                   capture_output=True, text=True).stdout.strip().splitlines()
    m = {
        "version": 1,
        "setup_cmd": "./vcheck build",
        "hooks": {
            "guard": "cargo feature `verif-hooks` (chalk-ir, chalk-solve, chalk-engine, chalk-recursive); off by default",
            "enable": "harness/Cargo.toml enables features=[\"verif-hooks\"] on its path dependencies /repo/chalk-{ir,solve,engine,recursive}; ./vcheck rebuilds them from /repo's working tree before every check",
            "baseline_off_cmd": "cd /repo && cargo nextest run --workspace --no-fail-fast --tool-config-file pb:/w/lib/nextest.toml --profile pb --test-threads 8 --offline",
            "source_commits": [l.split()[0] for l in hooks_commits],
            "add_only": True,
        },
        "engines": [{
            "name": "vcheck-bin",
            "path": "/verif/harness",
            "serves_properties": sorted(CHECKS.keys()),
            "kind_free_text": "one Rust binary linked against /repo's crates by path dependency: size-indexed exhaustive generators, explicit-state explorer over operation histories, crash-point / interruption-schedule enumeration, reference models as oracles; nothing is sampled",
        }],
        "checks": checks,
        "not_applicable": na,
        "notes": "Every check: exit 0 = held on everything explored (KNOWN-FINDING lines for defects listed in KNOWN_FINDINGS.txt), exit 1 + VIOLATION line = unlisted violation, exit 2 = machinery failure (e.g. /repo does not compile). See DESIGN.md.",
    }
    path = os.path.join(HERE, "MANIFEST.json")
    json.dump(m, open(path, "w"), indent=1)
    try:
        import jsonschema
        jsonschema.validate(m, json.load(open("/root/.vp/MANIFEST.schema.json")))
        print("MANIFEST.json valid; %d checks, %d not_applicable" % (len(checks), len(na)))
    except ImportError:
        print("MANIFEST.json written (jsonschema not importable; not validated)")

if __name__ == "__main__":
    main()
