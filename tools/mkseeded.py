#!/usr/bin/env python3
"""Collects confirmed seeded changes from /tmp/seed_out/<ID>/ into /verif/seeded/<ID>-<n>/
(patch.diff, demo.rs, AUTHOR_NOTES.md, meta.json) and regenerates /verif/seeded/README.md.
The table SEEDS below is maintained by hand: what each change needs to manifest and which
checks were observed to report it (tools/seedtest.sh)."""
import json, os, shutil, csv

SEEDS = [
    # (ID, n, summary, needs, detected_by [(check, tier, kind, site)], missed_by_before_strengthening)
    ("C01", 1, "recursive solver: `minimums.update_from(links)` only when the looked-up search-graph node is still on the stack",
     "an SCC of >= 3 goals in which a member reads an already finished member while the head's provisional value is wrong, then a later query for that member on the same solver (or the same canonical goal twice in one query); caching enabled",
     [("C10", "quick", "answer-depends-on-history", "recursive/co-trait-cycle")],
     "missed by C01/C10/C04 at first: no corpus program had a three-member cycle with a fourth atom hanging off; the four-atom propositional fragment F0x was added to C10 (both tiers) and to the thorough corpus"),
    ("C01", 2, "SLG anti-unifier: `aggregate_placeholder_tys` compares only `idx`, ignoring the universe",
     "two nested `forall`s (placeholders with the same index in different universes), both satisfying the goal by hypothesis, and an existential whose answers are those two placeholders",
     [("C01", "quick", "definite-guidance-excludes-solution", "slg/structural"), ("C17", "quick", "merged-guidance-excludes-input", "merge_into_guidance/*")],
     "missed at first: the goal set had no doubly nested forall with an existential, and C17's terms had placeholders of one universe only; both added"),
    ("C10", 1, "same change as C01-1 (found independently by a second author)",
     "see C01-1", [("C10", "quick", "answer-depends-on-history", "recursive/co-trait-cycle")], "see C01-1"),
    ("C10", 2, "SLG `Forest::iter_answers` resets the forest clock to 0 at every root query",
     "an earlier long-running query that stops early and leaves suspended strands with large time stamps in a shared table, then a different root query that needs further answers from that table",
     [("C10", "quick", "panic-after-history", "chalk-engine/src/logic.rs:clear_strands_after_cycle-invoked-on-strand-in-table-without")], ""),
    ("C11", 1, "recursive solver: the `interrupted` flag is consumed (`mem::take`) by the first goal that finishes after the interruption",
     "caching enabled, the callback answers false at a non-root goal and true again afterwards, then the parent goal is solved again on the same solver",
     [("C11", "quick", "later-solve-differs-from-fresh", "recursive/{plain,co,co-trait-cycle}")], ""),
    ("C11", 2, "SLG `make_solution`: an interruption inside the answer-merging loop returns `Definite` instead of `Suggested` guidance",
     ">= 3 answers, the first two merging to a non-trivial shape the third does not fit, impls in that order, callback false exactly between the 2nd and 3rd answer",
     [("C11", "quick", "limited-definite-guidance-excludes-solution", "slg/structural")],
     "missed at first: the interrupted Definite guidance was only compared with the (weaker, Unknown) full answer; now every interrupted Definite answer that differs from the full one is checked against REF; a corpus of three ground impls in every order was added"),
    ("C12", 1, "recursive solver: leftovers of an unwound solve are cleared only if the new root goal is itself among them",
     "a callback panic while solving G, then a DIFFERENT root goal that reaches G's in-flight subgoals (re-solving G itself heals the solver)",
     [("C12", "quick", "wrong-answer-after-panic", "recursive/other-goal")],
     "missed at first: the retry always solved the crashed goal first; both retry orders (same goal first / other goals first) are now enumerated"),
    ("C12", 2, "SLG `solve_multiple` sets `in_progress` without the check that resets the forest after an unwound solve",
     "the first call after a caught callback panic is `solve_multiple`",
     [("C12", "quick", "wrong-enumeration-after-panic", "slg/solve_multiple"), ("C12", "quick", "wrong-answer-after-panic", "slg/other-goal")],
     "missed at first: retries only used `solve`; an enumeration-first retry (compared with a fresh solver's enumeration) was added"),
    ("C14", 1, "occurs check compares variable identity (`var == self.var`) instead of unification classes (`unioned`)",
     "two unknowns unified with each other first, then one related to a type mentioning the other",
     [("C14", "quick", "abort-in-chalk-call", "exit-code-134")],
     "first made the check die (stack overflow inside `relate`): `./vcheck` now re-runs a crashed check single-threaded with case tracing and reports the last traced call into chalk as a violation"),
    ("C14", 2, "occurs check skips folding the value of an already-bound unknown when it has no inference-variable flags",
     "a higher-universe unknown already bound to a variable-free value containing a placeholder, then a lower-universe unknown related to a type mentioning it below the top level",
     [("C14", "quick", "unifies-but-not-unifiable", "C~varG / P~P / S~S / …")], ""),
    ("C17", 1, "`may_invalidate`: the (Lifetime, Lifetime) generic-argument arm answers false",
     "answers differing only in a lifetime that is a generic argument of an ADT (not of a reference), with a concrete lifetime in the not-yet-merged guidance",
     [("C17", "quick", "may-invalidate-wrongly-false", "may_invalidate/{L,S,A,Bs,…}")],
     "missed at first: C17's terms had lifetimes only inside references; an ADT over a lifetime was added"),
    ("C17", 2, "`Solution::combine`: one-sided arm `(Definite s, Suggested s) => Suggested s`",
     "a definite/unique and a suggested solution with the same substitution, in that order",
     [("C17", "quick", "combine-not-commutative", "Solution::combine")], ""),
    # ---- second batch
    ("C03", 1, "SLG forest clock reset to 0 at every root query (the same change as C10-2, by another author)",
     "several uses of one solver: an enumeration stopped early by the callback, or a `solve` that stops at ambiguity, followed by enumerating the same or a table-sharing goal again",
     [("C03", "quick", "solution-never-yielded", "slg/after-first-answer/*, slg/after-solve/*"), ("C10", "quick", "panic-after-history / answer-depends-on-history", "slg/plain/…")],
     "C10 reported it at once; C03 missed it at first: it enumerated only on a fresh solver and a second time after a COMPLETE enumeration. It now also enumerates on solvers whose tables were left partially filled (after a one-answer enumeration, after a `solve`)"),
    ("C03", 2, "SLG `on_positive_cycle` drops a strand when the table it cycled back to has an empty strand queue",
     "mutual recursion P -> Q -> P where P has one impl, `T: Q` is selected first, Q's recursive impl is declared before its base case (e.g. `impl<T> P for S<T> where T: Q; impl<T> Q for S<T> where T: P; impl Q for A`): the enumeration ends after `S<A>`",
     [("C03", "quick", "solution-never-yielded", "slg/fresh/plain")],
     "missed at first: the corpus declares impls in one canonical order and REF looked for witnesses of depth <= 3 only (the lost solution is `S<S<S<A>>>`). C03 now also runs the one-parameter fragments with their impls reversed and looks one level deeper there"),
    ("C05", 1, "same change as C01-1 (recursive solver loses `minimums` of finished search-graph nodes)",
     "`struct A { d: D, c: C, b: B } struct B { a: A } struct C { b: B }` with `impl !Send for D`: ask `A: Send`, then `C: Send` on the same recursive solver",
     [("C10", "quick", "answer-depends-on-history", "recursive/co-trait-cycle/…"), ("C05", "quick", "answer-depends-on-history", "recursive/auto3/cyclic/fresh-None-later-Unique"), ("C05", "quick", "unique-but-goal-false", "recursive/closed/auto3/cyclic")],
     "C10 reported it at once (F0x); C05 missed it: its auto-trait family had two mutually recursive structs with one field each. A three-struct family with ordered field lists over {N, P1, P2, P3} was added"),
    ("C05", 2, "SLG `root_answer` no longer rejects answers that still carry delayed subgoals",
     "`struct A { d: D, b: B } struct B { a: A }`, `impl !Send for D`: ask `A: Send`, then `B: Send` on the same SLG solver -> `Unique`",
     [("C10", "quick", "answer-depends-on-history", "slg/co-trait-cycle/fresh-None-later-Unique"), ("C05", "quick", "answer-depends-on-history", "slg/auto3/cyclic/fresh-None-later-Unique")],
     "missed at first for an instructive reason: the violation fell into the same (kind, site) group as known finding D16 (`slg/co-trait-cycle`, where a TRUE goal is later refused) and was printed as KNOWN-FINDING. The site of a history violation now carries the direction of the change (`fresh-Unique-later-None` vs `fresh-None-later-Unique`), and KNOWN_FINDINGS lists only the direction D16 has"),
    ("C06", 1, "environment elaboration returns early for `FromEnv(SelfTy: Trait)` when SelfTy is an ADT with generic arguments",
     "a hypothesis whose self type is a struct application (`if (W<T>: Top)`), or a trait where-clause `W<Self>: Top`, and a conclusion that needs a supertrait",
     [("C06", "quick", "none-but-goal-true", "{slg,recursive}/closed/chain/…")],
     "missed at first: every hypothesis had a placeholder or a unit struct as self type. Hypotheses on `W<K>` and `W<A>` and a trait where-clause on `W<Self>` were added"),
    ("C06", 2, "implied-bound clauses skip where-clauses that mention the trait being declared (even at other arguments)",
     "a one-trait cycle `trait Par<X> where X: Par<Self>, Self: Base` and a goal that needs the self-referential bound",
     [("C06", "quick", "none-but-goal-true", "{slg,recursive}/closed/*/par-x-par-self/*")],
     "missed at first: the only cycles were between different traits. A where-clause variant `X: Par<Self>` was added"),
    ("C07", 1, "`generalize_ty` creates the variable replacing a nested alias in the root universe",
     "an impl value with a projection nested under a constructor whose normal form mentions the impl parameter, asked under `forall`",
     [("C07", "quick", "no-solution-although-impl-applies", "{slg,recursive}/…")],
     "missed at first: nested projections in the menu normalized to constants. `type X = S<<S<T> as Tr2>::Y>` with `impl<T> Tr2 for S<T> { type Y = T; }` was added"),
    ("C07", 2, "associated-type value clauses: stop at the first impl providing the value when the trait reference is closed",
     "two impls whose headers both match and that are told apart only by a where-clause, the non-applicable one declared first",
     [("C07", "quick", "no-solution-although-impl-applies, equality-unique-type-is-not-the-value", "{slg,recursive}/…"), ("C13", "quick", "answer-depends-on-declaration-order", "{slg,recursive}/assoc")],
     "missed at first: at most one `Tr` impl per header shape. A concrete `impl Tr for S<B>` next to a generic `impl<T> Tr for S<T> where …` was added, declared before and after it"),
    ("C13", 1, "same change as C07-2 (by another author)",
     "see C07-2",
     [("C13", "quick", "answer-depends-on-declaration-order", "{slg,recursive}/assoc"), ("C07", "quick", "no-solution-although-impl-applies", "…")],
     "missed at first: C13 permuted only C01-fragment programs although its quantifier names the C05/C07 fragments too. The associated-type and auto-trait text families are now reordered at item level (every impl permutation, impls first, declarations reversed, everything reversed); the answer decoder now names associated types (ids change under reordering)"),
    ("C13", 2, "same change as C01-2 (anti-unifier ignores placeholder universes)",
     "see C01-2; the surviving placeholder is the one from the earlier answer, i.e. from the earlier impl",
     [("C13", "quick", "answer-depends-on-declaration-order", "slg/{plain,co,co-trait-cycle}"), ("C01", "quick", "definite-guidance-excludes-solution", "slg/structural"), ("C17", "quick", "merged-guidance-excludes-input", "merge_into_guidance/*")], ""),
    ("C16", 1, "canonicalizer: unbound const inference variables are no longer replaced by their union-find root",
     "two const unknowns unified with each other, both still unbound when canonicalized",
     [("C16", "quick", "canonical-form-differs-from-first-occurrence-numbering", "canonicalize")], ""),
    ("C16", 2, "`UMapToCanonical` loses its override for const placeholders",
     "a const placeholder whose universe is actually renumbered by universe compression",
     [("C16", "quick", "compressed-form-wrong", "u_canonicalize"), ("C16", "quick", "compression-not-undone", "map_from_canonical/const-placeholder")], ""),
    ("C18", 1, "`could_match`: two different placeholder lifetimes make `&'a T` vs `&'b T` a mismatch",
     "references at the same position whose lifetimes are distinct placeholders (only environment/custom clauses have such conclusions)",
     [("C18", "quick", "filter-rejects-unifiable", "could_match/ref, could_match/refmut")],
     "missed at first: the term set had 'static and ONE placeholder lifetime. A second placeholder lifetime, an inference lifetime and an ADT over a lifetime were added"),
    ("C18", 2, "`Program::impls_for_trait` fast path: a closed goal selects a non-generic impl only on syntactic equality",
     "a closed goal whose arguments contain a projection that normalizes to the type in the impl header (`S<<A as Tr>::X>: Tr` with `impl Tr for S<B>`)",
     [("C18", "quick", "answer-changes-when-filter-bypassed", "{slg,recursive}/assoc")],
     "missed at first: the with/without-filter comparison ran on the C01 corpus only. It now also runs on the text families, which gained goals with projections in argument position"),
    ("C19", 1, "`set_priorities` returns early on an impl it has already visited (the raised priority is no longer propagated)",
     "a chain of at least four specializing impls, in a declaration order that reaches an inner impl first along a short path",
     [("C19", "quick", "equal-priority-impls-overlap", "{slg,recursive}/pos-pos"), ("C19", "quick", "more-specific-impl-without-higher-priority", "{slg,recursive}")],
     "missed at first: programs had at most three impls in one fixed declaration order. Every order of every 3..5-subset of the lattice T > S<T> > {S<A>, S<S<T>>} > S<S<A>> was added"),
    ("C19", 2, "overlap check: `break` instead of `continue` after a pair of negative impls",
     "at least two negative impls declared before the overlapping pair",
     [("C19", "quick", "equal-priority-impls-overlap", "{slg,recursive}/pos-neg")], ""),
]

def main():
    here = os.path.dirname(os.path.dirname(os.path.abspath(__file__)))
    out = os.path.join(here, "seeded")
    os.makedirs(out, exist_ok=True)
    confirm = {}
    tsv = "/tmp/seed_confirm/confirm.tsv"
    if os.path.exists(tsv):
        for row in csv.reader(open(tsv), delimiter="\t"):
            confirm[(row[0], int(row[1]))] = row[2:]
    lines = ["# Seeded property-breaking changes", "",
             "Each directory holds a change to rust-lang/chalk written by a fresh sub-agent that saw only the property text and a scratch worktree (nothing from /verif): `patch.diff` (applies to /repo's HEAD), `demo.rs` (fails with the change, passes without; place it at `chalk-integration/tests/<name>.rs` and run `cargo test --offline -p chalk-integration --test <name>`), the author's notes and `meta.json`. Every change was re-confirmed here with `tools/confirm_seed.sh` (demo passes on the unchanged tree, patch applies, demo fails with the patch, the whole existing suite passes with the patch) and run against the checks with `tools/seedtest.sh <patch> <checks…>` (applies to /repo, runs, reverts).", "",
             "| seed | change | needs | reported by | note |", "|---|---|---|---|---|"]
    for (pid, n, summary, needs, det, note) in SEEDS:
        src = "/tmp/seed_out/%s" % pid
        d = os.path.join(out, "%s-%d" % (pid, n))
        c = confirm.get((pid, n))
        if os.path.exists(os.path.join(src, "patch%d.diff" % n)):
            os.makedirs(d, exist_ok=True)
            shutil.copy(os.path.join(src, "patch%d.diff" % n), os.path.join(d, "patch.diff"))
            shutil.copy(os.path.join(src, "demo%d.rs" % n), os.path.join(d, "demo.rs"))
            if os.path.exists(os.path.join(src, "NOTES.md")):
                shutil.copy(os.path.join(src, "NOTES.md"), os.path.join(d, "AUTHOR_NOTES.md"))
        if not os.path.isdir(d):
            continue
        meta_path = os.path.join(d, "meta.json")
        old = json.load(open(meta_path)) if os.path.exists(meta_path) else {}
        meta = {
            "property": pid,
            "change": summary,
            "needs_to_manifest": needs,
            "demo": {"place_at": "chalk-integration/tests/seed_demo_%s_%d.rs" % (pid.lower(), n),
                     "run": "cargo test --offline -p chalk-integration --test seed_demo_%s_%d" % (pid.lower(), n)},
            "confirmed_here": (dict(zip(["demo_unchanged", "apply", "demo_patched", "suite", "verdict"], c)) if c else old.get("confirmed_here", "pending")),
            "what_was_run": ["tools/confirm_seed.sh (scratch worktree /tmp/confirm_wt of /repo HEAD: demo on the unchanged tree, git apply, demo with the patch, cargo test --workspace --offline with the patch)",
                             "tools/seedtest.sh seeded/%s-%d/patch.diff %s" % (pid, n, " ".join(sorted(set(x[0] for x in det))))],
            "reported_by": [{"check": x[0], "tier": x[1], "kind": x[2], "site": x[3]} for x in det],
            "history": note,
        }
        json.dump(meta, open(meta_path, "w"), indent=1)
        lines.append("| %s-%d | %s | %s | %s | %s |" % (pid, n, summary, needs, "; ".join("%s %s (%s)" % (x[0], x[1], x[2]) for x in det), note or "reported on first run"))
    open(os.path.join(out, "README.md"), "w").write("\n".join(lines) + "\n")
    print("seeded/: %d entries" % (len(lines) - 5))

if __name__ == "__main__":
    main()
