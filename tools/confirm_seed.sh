#!/bin/bash
# tools/confirm_seed.sh <out-dir> <ID> <n> [<ID> <n> ...]
# Confirms seeded changes delivered under /tmp/seed_out/<ID>/ (patch<n>.diff, demo<n>.rs) in a scratch
# worktree of /repo: (1) the demo passes on the unchanged tree, (2) the patch applies and compiles,
# (3) the demo FAILS with the patch, (4) the repository's whole test suite passes with the patch.
# Writes one line per seed to <out-dir>/confirm.tsv and logs to <out-dir>/confirm_<ID>_<n>.log
set -u
OUT="$1"; shift
mkdir -p "$OUT"
WT=/tmp/confirm_wt
if [ ! -d "$WT" ]; then git -C /repo worktree add -q --detach "$WT" HEAD || exit 2; fi
cd "$WT" || exit 2
export CARGO_NET_OFFLINE=true
while [ $# -ge 2 ]; do
  ID="$1"; N="$2"; shift 2
  PATCH="/tmp/seed_out/$ID/patch$N.diff"; DEMO="/tmp/seed_out/$ID/demo$N.rs"
  NAME="seed_demo_$(echo "$ID" | tr 'A-Z' 'a-z')_$N"
  LOG="$OUT/confirm_${ID}_$N.log"; : > "$LOG"
  git checkout -q -- . ; git clean -qfd -e target
  git checkout -q --detach "$(git -C /repo rev-parse HEAD)" 2>>"$LOG"
  mkdir -p chalk-integration/tests
  cp "$DEMO" "chalk-integration/tests/$NAME.rs"
  echo "== demo on unchanged tree" >> "$LOG"
  cargo test --offline -p chalk-integration --test "$NAME" >> "$LOG" 2>&1; BASE=$?
  echo "== apply patch" >> "$LOG"
  git apply "$PATCH" >> "$LOG" 2>&1; APPLY=$?
  echo "== demo with patch" >> "$LOG"
  cargo test --offline -p chalk-integration --test "$NAME" >> "$LOG" 2>&1; WITH=$?
  rm -f "chalk-integration/tests/$NAME.rs"
  echo "== full suite with patch" >> "$LOG"
  cargo test --workspace --offline >> "$LOG" 2>&1; SUITE=$?
  PASSED=$(grep -E "^test result: ok" "$LOG" | tail -n +1 | awk '{s+=$4} END {print s+0}')
  VERDICT=REJECT
  if [ $BASE -eq 0 ] && [ $APPLY -eq 0 ] && [ $WITH -ne 0 ] && [ $SUITE -eq 0 ]; then VERDICT=CONFIRMED; fi
  printf "%s\t%s\tdemo_unchanged_exit=%s\tapply=%s\tdemo_patched_exit=%s\tsuite_exit=%s\t%s\n" "$ID" "$N" "$BASE" "$APPLY" "$WITH" "$SUITE" "$VERDICT" >> "$OUT/confirm.tsv"
  git checkout -q -- . ; git clean -qfd -e target
done
