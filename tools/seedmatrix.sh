#!/bin/bash
# tools/seedmatrix.sh [<seed-dir-name> ...]
# Re-runs every archived seeded change (seeded/<ID>-<n>/patch.diff) against the checks listed in
# its meta.json (quick tier): applies the patch to /repo, runs the checks, reverts /repo.
# Writes seeded/MATRIX.tsv: seed <TAB> check <TAB> exit <TAB> violation groups <TAB> first kind/site.
# /repo must be clean; nothing else may build from /repo while this runs.
set -u
cd /verif
if [ -n "$(git -C /repo status --porcelain --untracked-files=no)" ]; then
  echo "refusing: /repo has uncommitted changes" >&2; exit 2
fi
OUT=seeded/MATRIX.tsv
TMP=$(mktemp)
SEEDS=("$@")
if [ ${#SEEDS[@]} -eq 0 ]; then
  SEEDS=($(ls seeded | grep -E '^C[0-9]+[bc]?-[0-9]+$' | sort))
fi
printf "seed\tcheck\texit\tviolation_groups\tfirst_violation\n" > "$TMP"
trap 'git -C /repo checkout -- . ; ./vcheck build >/dev/null 2>&1; git -C /verif checkout -- evidence 2>/dev/null' EXIT
for S in "${SEEDS[@]}"; do
  D="seeded/$S"
  CHECKS=$(python3 -c "import json;m=json.load(open('$D/meta.json'));print(' '.join(sorted(set(r['check'] for r in m['reported_by']))))")
  if [ -z "$CHECKS" ]; then
    printf "%s\t-\tnot-reported-by-any-check\t0\t-\n" "$S" >> "$TMP"; continue
  fi
  if ! git -C /repo apply --check "$(readlink -f "$D/patch.diff")" 2>/dev/null; then
    printf "%s\t-\tpatch-does-not-apply\t0\t-\n" "$S" >> "$TMP"; continue
  fi
  git -C /repo apply "$(readlink -f "$D/patch.diff")"
  for C in $CHECKS; do
    O=$(./vcheck "$C" quick 2>&1); CODE=$?
    N=$(echo "$O" | grep -c '^VIOLATION')
    FIRST=$(echo "$O" | grep '^VIOLATION' | head -1 | sed -E 's/.*(kind=[^ ]+ site=[^ ]+).*/\1/')
    printf "%s\t%s\t%s\t%s\t%s\n" "$S" "$C" "$CODE" "$N" "${FIRST:--}" >> "$TMP"
    echo "$S $C exit=$CODE groups=$N ${FIRST:--}"
  done
  git -C /repo checkout -- .
done
mv "$TMP" "$OUT"
echo "wrote $OUT"
