#!/bin/bash
# tools/seedtest.sh <patch.diff> <CHECK> [<CHECK> ...]
# Applies a seeded change to /repo, runs the named checks (quick tier unless TIER=thorough),
# prints which of them report an unlisted VIOLATION, and always reverts /repo.
set -u
PATCH="$(readlink -f "$1")"; shift
cd /verif
if [ -n "$(git -C /repo status --porcelain --untracked-files=no)" ]; then
  echo "refusing: /repo has uncommitted changes" >&2; exit 2
fi
git -C /repo apply "$PATCH" || { echo "patch does not apply" >&2; exit 2; }
trap 'git -C /repo checkout -- . ; ./vcheck build >/dev/null 2>&1' EXIT
TIER="${TIER:-quick}"
mkdir -p /tmp/seedtest_ev
for C in "$@"; do
  # keep the committed evidence untouched: write this run's evidence elsewhere
  OUT=$(VERIF_DIR_OVERRIDE=1 ./vcheck "$C" "$TIER" 2>&1)
  CODE=$?
  N=$(echo "$OUT" | grep -c '^VIOLATION')
  echo "== $C ($TIER): exit=$CODE violations_groups=$N"
  echo "$OUT" | grep '^VIOLATION' | cut -c1-330 | head -4
  echo "$OUT" | grep 'MACHINERY' | head -2
done
git -C /verif checkout -- evidence 2>/dev/null
