//! C27 under Miri: the same enumeration of (length, failure position, failure
//! mode, layout pair) as harness/src/props/c27.rs, executed by the Miri
//! interpreter as an undefined-behaviour detector (use of freed or
//! uninitialised memory, double free, leaks). Prints DONE <n> on success.
use chalk_ir::fold::verif_hooks::{fallible_map_box, fallible_map_vec};
use std::panic::{catch_unwind, AssertUnwindSafe};

struct E<P> {
    id: u32,
    #[allow(dead_code)]
    payload: P,
    // a heap allocation per element makes leaks and double drops visible to Miri
    #[allow(dead_code)]
    heap: Box<u32>,
}
fn mk<P: Default>(id: u32) -> E<P> {
    E { id, payload: P::default(), heap: Box::new(id) }
}
fn convert<P, Q: Default>(e: E<P>) -> E<Q> {
    let E { id, heap, .. } = e;
    E { id, payload: Q::default(), heap }
}
struct Z;
impl Drop for Z {
    fn drop(&mut self) {}
}

#[derive(Copy, Clone)]
enum Mode {
    Success,
    ErrAt(usize),
    PanicAt(usize),
}

fn run_vec<P: Default, Q: Default>(len: usize, cap: usize, mode: Mode) {
    let mut v: Vec<E<P>> = Vec::with_capacity(len + cap);
    for i in 0..len {
        v.push(mk(i as u32));
    }
    let mut idx = 0;
    let r = catch_unwind(AssertUnwindSafe(|| {
        fallible_map_vec(v, |e: E<P>| -> Result<E<Q>, ()> {
            let i = idx;
            idx += 1;
            match mode {
                Mode::ErrAt(k) if k == i => Err(()),
                Mode::PanicAt(k) if k == i => panic!("injected"),
                _ => Ok(convert::<P, Q>(e)),
            }
        })
    }));
    if let Ok(Ok(out)) = r {
        // read every element back: uninitialised or freed memory would be flagged
        let s: u32 = out.iter().map(|e| e.id + *e.heap).sum();
        assert_eq!(s, (0..len as u32).map(|i| 2 * i).sum::<u32>());
    }
}

fn run_zst(len: usize, mode: Mode) {
    let v: Vec<Z> = (0..len).map(|_| Z).collect();
    let mut idx = 0;
    let _ = catch_unwind(AssertUnwindSafe(|| {
        fallible_map_vec(v, |e: Z| -> Result<E<u64>, ()> {
            let i = idx;
            idx += 1;
            match mode {
                Mode::ErrAt(k) if k == i => Err(()),
                Mode::PanicAt(k) if k == i => panic!("injected"),
                _ => {
                    drop(e);
                    Ok(mk(i as u32))
                }
            }
        })
    }));
}

fn run_box<P: Default, Q: Default>(mode: Mode) {
    let b: Box<E<P>> = Box::new(mk(0));
    let _ = catch_unwind(AssertUnwindSafe(|| {
        fallible_map_box(b, |e: E<P>| -> Result<E<Q>, ()> {
            match mode {
                Mode::ErrAt(_) => Err(()),
                Mode::PanicAt(_) => panic!("injected"),
                Mode::Success => Ok(convert::<P, Q>(e)),
            }
        })
    }));
}

fn main() {
    std::panic::set_hook(Box::new(|_| {}));
    let max_len: usize = std::env::var("C27_MAX_LEN").ok().and_then(|s| s.parse().ok()).unwrap_or(4);
    let mut n = 0u64;
    for len in 0..=max_len {
        let mut modes = vec![Mode::Success];
        for k in 0..len {
            modes.push(Mode::ErrAt(k));
            modes.push(Mode::PanicAt(k));
        }
        for mode in modes {
            for cap in [0usize, 3] {
                run_vec::<u64, u64>(len, cap, mode);
                run_vec::<u64, i64>(len, cap, mode);
                run_vec::<[u32; 2], (u32, u32)>(len, cap, mode);
                run_vec::<u32, [u64; 2]>(len, cap, mode);
                run_vec::<[u64; 2], u8>(len, cap, mode);
                run_vec::<(), ()>(len, cap, mode);
                n += 6;
            }
            run_zst(len, mode);
            n += 1;
        }
    }
    for mode in [Mode::Success, Mode::ErrAt(0), Mode::PanicAt(0)] {
        run_box::<u64, u64>(mode);
        run_box::<u64, i64>(mode);
        run_box::<u32, [u64; 2]>(mode);
        run_box::<(), ()>(mode);
        n += 4;
    }
    println!("DONE {}", n);
}
